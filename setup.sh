#!/bin/bash
# Builds the whole framework offline from files on disk (fresh restore).
set -e
cd "$(dirname "$0")"
export CARGO_NET_OFFLINE=true
./check --build-all
echo "setup ok"
