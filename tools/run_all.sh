#!/bin/bash
# run_all.sh [quick|thorough] [ID...] — runs every registered check sequentially (each uses all
# cores itself), prints one line per check and keeps full logs under /dev/shm/turdb_verif_logs/.
TIER=${1:-quick}; shift
cd "$(dirname "$0")/.."
IDS=${@:-$(python3 -c "import json;print(' '.join(sorted(json.load(open('checks.json')))))")}
mkdir -p /dev/shm/turdb_verif_logs
for id in $IDS; do
  t0=$(date +%s)
  ./check $id --tier $TIER > /dev/shm/turdb_verif_logs/$id.$TIER.log 2>&1
  rc=$?
  t1=$(date +%s)
  echo "$id rc=$rc $((t1-t0))s $(grep -c '^KNOWN-FINDING' /dev/shm/turdb_verif_logs/$id.$TIER.log) known; $(grep '^SUMMARY' /dev/shm/turdb_verif_logs/$id.$TIER.log | sed 's/SUMMARY property=[A-Z0-9]* //' | cut -c1-160)"
  grep -E '^(VIOLATION|MACHINERY)' /dev/shm/turdb_verif_logs/$id.$TIER.log | cut -c1-220
done
