#!/bin/bash
# seed_confirm_batch.sh <lane-dir> <seed-dir>... — coordinator-side confirmation of several seeded changes:
#  A. all demos on the CLEAN tree in one build: each must pass;
#  B. all patches applied TOGETHER: the 668 pinned tests must still pass (one full-suite run per batch);
#  C. each patch alone: its demo must fail.
# Writes <seed>/confirm.json (same keys as seed_confirm.sh, plus the batch the suite was run with).
set -u
CB=$1; shift
W=$CB/repo; mkdir -p $CB
if [ ! -d $W ]; then git -C /repo worktree add -q --detach $W HEAD || exit 2; fi
HEAD=$(git -C /repo rev-parse HEAD)
clean() { git -C $W checkout -q --detach $HEAD; git -C $W checkout -q -- .; git -C $W clean -fdq -e target; }
export CARGO_NET_OFFLINE=true
clean
SEEDS=()
for s in "$@"; do
  if git -C $W apply --check "$s/patch.diff" 2>/dev/null; then SEEDS+=("$s")
  else python3 -c "import json;json.dump({'applies':'false','head':'$HEAD'[:7]},open('$s/confirm.json','w'))"; fi
done
[ ${#SEEDS[@]} -eq 0 ] && exit 0
dn() { echo demo_$(basename $1 | tr 'A-Z-' 'a-z_'); }
# ---- A: demos on the clean tree
ARGS=(); for s in "${SEEDS[@]}"; do cp $s/demo.rs $W/tests/$(dn $s).rs; ARGS+=(--test $(dn $s)); done
(cd $W && cargo nextest run --offline --no-fail-fast "${ARGS[@]}" > $CB/A.log 2>&1)
# ---- B: all patches together + pinned suite
clean
APPLIED=(); for s in "${SEEDS[@]}"; do if git -C $W apply "$s/patch.diff" 2>/dev/null; then APPLIED+=("$(basename $s)"); fi; done
BASE_LINE=$(/verif/tools/baseline.sh $W 2>&1 | grep -m1 "^baseline:" | tr -d '"')
BASE_OK=false; echo "$BASE_LINE" | grep -q "668/668 stable tests pass" && BASE_OK=true
# ---- C: each patch alone, its demo must fail
for s in "${SEEDS[@]}"; do
  n=$(basename $s); d=$(dn $s)
  clean; git -C $W apply "$s/patch.diff"; cp $s/demo.rs $W/tests/$d.rs
  (cd $W && timeout 1500 cargo nextest run --offline --no-fail-fast --test $d > $CB/C.$n.log 2>&1); rc=$?
  FAILS=false; [ $rc -ne 0 ] && grep -qE "FAIL|SIGABRT|SIGSEGV|SIGKILL|TIMEOUT|SIGBUS" $CB/C.$n.log && FAILS=true
  grep -qE "error(\[E[0-9]+\])?:.*could not compile|^error: could not compile" $CB/C.$n.log && FAILS=compile-error
  PASSES=false
  grep -E "^\s+PASS .* turdb::$d " $CB/A.log > /dev/null && ! grep -E "^\s+(FAIL|SIGABRT|SIGSEGV|TIMEOUT|SIGKILL).* turdb::$d " $CB/A.log > /dev/null && PASSES=true
  INB=not-in-batch; for a in "${APPLIED[@]}"; do [ "$a" = "$n" ] && INB=$BASE_OK; done
  python3 - "$s" "$INB" "$FAILS" "$PASSES" "${HEAD:0:7}" "$BASE_LINE" "${APPLIED[*]}" <<'PY'
import json, sys
s, inb, fails, passes, head, line, batch = sys.argv[1:8]
json.dump({'applies': 'true', 'baseline_668_with_change': inb, 'demo_fails_with_change': fails,
           'demo_passes_without_change': passes, 'head': head, 'baseline_line': line,
           'baseline_batch': batch.split()}, open(s + '/confirm.json', 'w'), indent=1)
PY
done
clean
