#!/bin/bash
# Runs the repository's own pinned test suite with the verification guard OFF
# (no --cfg turdb_verif) and checks that every test of BASELINE.json's
# stable_pass list passes.  Usage: tools/baseline.sh [repo-dir]
set -u
REPO=${1:-/repo}
OUT=$(mktemp -d /dev/shm/turdb_baseline.XXXXXX)
trap 'rm -rf "$OUT"' EXIT
cd "$REPO" || exit 2
export CARGO_NET_OFFLINE=true
unset RUSTFLAGS
cargo nextest run --workspace --no-fail-fast --test-threads 8 --offline \
   --message-format libtest-json-plus >"$OUT/log.json" 2>"$OUT/err.txt"
export NEXTEST_EXPERIMENTAL_LIBTEST_JSON=1
if ! grep -q '"type":"test"' "$OUT/log.json" 2>/dev/null; then
  NEXTEST_EXPERIMENTAL_LIBTEST_JSON=1 cargo nextest run --workspace --no-fail-fast --test-threads 8 --offline \
     --message-format libtest-json-plus >"$OUT/log.json" 2>"$OUT/err.txt"
fi
python3 - "$OUT/log.json" "$OUT/err.txt" <<'PY'
import json,sys,re
base=json.load(open('/root/.vp/BASELINE.json'))
want=set(base['stable_pass'])
passed=set(); failed=set()
for l in open(sys.argv[1]):
    l=l.strip()
    if not l.startswith('{'): continue
    try: e=json.loads(l)
    except Exception: continue
    if e.get('type')=='test' and e.get('event') in ('ok','failed'):
        n=e['name']
        # nextest names: "turdb::turdb$module::test" or "crate::bin$name"
        if '$' in n:
            left,right=n.split('$',1)
            parts=left.split('::')
            if len(parts)==2 and parts[0]==parts[1]: left=parts[0]
            n=left+'::'+right
        n=n.split('#')[0]
        (passed if e['event']=='ok' else failed).add(n)
if not passed:
    # fallback: parse human output on stderr
    for l in open(sys.argv[2]):
        m=re.match(r'\s+(PASS|FAIL)\s+\[.*?\]\s+(\S+)\s+(\S+)',l)
        if m:
            n=m.group(2)+'::'+m.group(3)
            (passed if m.group(1)=='PASS' else failed).add(n)
missing=sorted(t for t in want if t not in passed)
print(f"baseline: {len(want)-len(missing)}/{len(want)} stable tests pass; {len(failed)} other failures (BASELINE.json lists {len(base.get('always_fail',[]))} always-failing tests)")
for t in missing[:40]: print("  MISSING/FAILED:",t)
sys.exit(1 if missing else 0)
PY
