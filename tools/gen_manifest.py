#!/usr/bin/env python3
"""Regenerates /verif/MANIFEST.json and /verif/checks.json from tools/registry.py.
Run after adding a check.  Validates against the schema when jsonschema is importable."""
import json, os, sys
ROOT = os.path.dirname(os.path.dirname(os.path.abspath(__file__)))
sys.path.insert(0, os.path.join(ROOT, "tools"))
from registry import CHECKS, NOT_YET, ENGINES, HOOK_COMMITS

props = [json.loads(l) for l in open(os.path.join(ROOT, "properties.jsonl"))]
ids = [p["id"] for p in props]
checks = []
reg = {}
for pid in ids:
    c = CHECKS.get(pid)
    if not c:
        continue
    reg[pid] = {k: c[k] for k in ("bin", "kind", "package", "opts") if k in c}
    e = {
        "property_id": pid,
        "quick_cmd": f"./check {pid} --tier quick",
        "thorough_cmd": f"./check {pid} --tier thorough",
        "evidence_file": f"/verif/evidence/{pid}.json",
        "replay_cmd_template": f"./check {pid} --replay {{path}}",
        "engine": c["engine"],
        "level_claimed": {"category": c["level"], "text": c["text"], "design_ref": c.get("design_ref", f"DESIGN.md §5 {pid}")},
        "level_note": c["note"],
        "technique": c["technique"],
    }
    checks.append(e)
na = [{"property_id": pid, "reason": NOT_YET.get(pid, "no check committed yet (planned in DESIGN.md §5); nothing is claimed for this property")} for pid in ids if pid not in CHECKS]
m = {
    "version": 1,
    "setup_cmd": "./setup.sh",
    "hooks": {
        "guard": "turdb_verif",
        "enable": "RUSTFLAGS=\"--cfg turdb_verif\" (set in /verif/mc/.cargo/config.toml [build].rustflags and by mc/sched/build.py); every check builds /repo's working tree as a path dependency with it",
        "baseline_off_cmd": "/verif/tools/baseline.sh",
        "source_commits": HOOK_COMMITS,
        "add_only": True,
    },
    "engines": ENGINES,
    "checks": checks,
    "not_applicable": na,
    "notes": "Technique family: model checking = bounded exhaustive exploration of the real code (see DESIGN.md). ./check <ID> exits 0/1 as the interface requires; exit 2 is a machinery failure. known_findings.json lists recorded genuine defects.",
}
json.dump(m, open(os.path.join(ROOT, "MANIFEST.json"), "w"), indent=1)
json.dump(reg, open(os.path.join(ROOT, "checks.json"), "w"), indent=1, sort_keys=True)
try:
    import jsonschema
    jsonschema.validate(m, json.load(open("/root/.vp/MANIFEST.schema.json")))
    print("MANIFEST.json valid;", len(checks), "checks,", len(na), "unclaimed")
except ImportError:
    print("MANIFEST.json written (jsonschema not importable; not validated);", len(checks), "checks")
