#!/bin/bash
# seeded_run.sh <seed-dir containing patch.diff> <PROPERTY> [quick|thorough] [extra check args...]
# Runs one check against an ISOLATED copy of the repository with the seeded change applied
# (a git worktree of /repo's HEAD under /tmp/seedeval), using a copy of the harness whose turdb
# path dependency points at that worktree. Nothing under /repo or /verif is modified.
# Exit status = the check's exit status (1 = the seeded change was detected).
set -u
SEED=$(readlink -f "$1"); PROP=$2; TIER=${3:-quick}; shift 3 2>/dev/null || shift $#
BASE=${SEEDEVAL_BASE:-/tmp/seedeval}
W=$BASE/repo; H=$BASE/mc; ROOT=$BASE/root
mkdir -p $BASE
exec 9>$BASE/.lock; flock 9
if [ ! -d $W ]; then git -C /repo worktree add -q --detach $W HEAD || exit 2; fi
git -C $W checkout -q --detach $(git -C /repo rev-parse HEAD) 2>/dev/null
git -C $W checkout -q -- . && git -C $W clean -fdq -e target
if ! git -C $W apply "$SEED/patch.diff"; then echo "SEEDED: patch does not apply to current HEAD"; exit 3; fi
mkdir -p $H $ROOT
rsync -a --delete --exclude 'target*' --exclude '.build.lock' /verif/mc/ $H/
sed -i "s|turdb = { path = \"/repo\" }|turdb = { path = \"$W\" }|" $H/checks/Cargo.toml
sed -i "s|turdb = { path = \"/var/tmp/turdb_verif/sched-src\" }|turdb = { path = \"$BASE/sched-src\" }|" $H/sched/harness/Cargo.toml
rm -rf $ROOT/findings.d; [ -d /verif/findings.d ] && cp -r /verif/findings.d $ROOT/; cp /verif/known_findings.json $ROOT/
BIN=$(python3 -c "import json;print(json.load(open('/verif/checks.json'))['$PROP']['bin'])")
KIND=$(python3 -c "import json;print(json.load(open('/verif/checks.json'))['$PROP'].get('kind','plain'))")
export CARGO_NET_OFFLINE=true VERIF_ROOT=$ROOT
if [ "$KIND" = sched ]; then
  VERIF_REPO=$W VERIF_SCHED_SRC=$BASE/sched-src python3 $H/sched/build.py $BIN || exit 2
  EXE=$H/target-sched/debug/$BIN
else
  (cd $H && CARGO_TARGET_DIR=$BASE/target cargo build --offline -q -p checks --bin $BIN) || exit 2
  EXE=$BASE/target/debug/$BIN
fi
$EXE --property $PROP --tier $TIER "$@" 2>&1 | grep -E "^(VIOLATION|SUMMARY|MACHINERY|KNOWN)" | sed 's/replay=[^ ]* //' | cut -c1-220
RC=${PIPESTATUS[0]}
git -C $W checkout -q -- . && git -C $W clean -fdq -e target
echo "SEEDED-RESULT seed=$(basename $SEED) property=$PROP tier=$TIER exit=$RC"
exit $RC
