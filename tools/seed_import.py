#!/usr/bin/env python3
"""Imports confirmed seeded changes from /tmp/mut/out into /verif/seeded/<id>/ and prints the catch table.
A seed is kept only if tools/seed_confirm.sh confirmed: applies, 668/668 baseline with the change,
demo fails with the change, demo passes without it."""
import json, os, glob, re, shutil, sys
OUT='/tmp/mut/out'; RES='/tmp/seedeval/results'; DST='/verif/seeded'
rows=[]
for d in sorted(glob.glob(f'{OUT}/C*')):
    sid=os.path.basename(d)
    if not os.path.exists(f'{d}/patch.diff') or not os.path.exists(f'{d}/meta.json'): continue
    conf=json.load(open(f'{d}/confirm.json')) if os.path.exists(f'{d}/confirm.json') else None
    det=[]
    for f in sorted(glob.glob(f'{RES}/{sid}.*.log')):
        txt=open(f,errors='replace').read()
        sigs=sorted(set(re.findall(r'^VIOLATION property=\S+ (?:replay=\S+ )?signature=(\S+)',txt,re.M)))
        for m in re.finditer(r'SEEDED-RESULT seed=\S+ property=(\S+) tier=(\S+) exit=(\d+)',txt):
            det.append({'property':m.group(1),'tier':m.group(2),'exit':int(m.group(3)),'log':os.path.basename(f),
                        'new_signatures':[s for s in sigs if s.startswith(m.group(1)+'/')][:6],
                        'capped':'exhaustive=false' in txt})
        if 'patch does not apply' in txt: det.append({'note':'patch does not apply to current HEAD'})
    ok = conf and all(conf.get(k)=='true' for k in ('applies','baseline_668_with_change','demo_fails_with_change','demo_passes_without_change'))
    caught=[x for x in det if x.get('exit')==1]
    rows.append((sid, 'confirmed' if ok else ('unconfirmed' if conf is None else 'REJECTED'), caught, det))
    if ok:
        os.makedirs(f'{DST}/{sid}',exist_ok=True)
        shutil.copy(f'{d}/patch.diff',f'{DST}/{sid}/patch.diff'); shutil.copy(f'{d}/demo.rs',f'{DST}/{sid}/demo.rs')
        meta=json.load(open(f'{d}/meta.json'))
        meta['confirmed_by_coordinator']={'how':'tools/seed_confirm.sh in a scratch worktree of /repo HEAD %s: git apply; tools/baseline.sh (668 pinned tests); cargo nextest run --test <demo> with and without the change'%conf.get('head'), **conf}
        meta['checked_with']=[{'cmd':f"tools/seeded_run.sh seeded/{sid} {x['property']} {x['tier']}", 'exit':x['exit'], 'new_signatures':x.get('new_signatures',[]), 'capped_run':x.get('capped',False)} for x in det if 'property' in x]
        meta['caught_by']=sorted({x['property'] for x in caught})
        json.dump(meta,open(f'{DST}/{sid}/meta.json','w'),indent=1)
for sid,st,caught,det in rows:
    print(f"{sid:8} {st:12} caught_by={sorted({x['property'] for x in caught})} runs={[(x.get('property'),x.get('exit'),'capped' if x.get('capped') else '') for x in det if 'property' in x]}")
