#!/usr/bin/env python3
"""Imports confirmed seeded changes from /tmp/mut/out into /verif/seeded/<id>/ and writes the catch table
(/verif/seeded/TABLE.md, also printed).
A seed is kept only if the coordinator confirmed (tools/seed_confirm.sh or tools/seed_confirm_batch.sh, in a
scratch worktree): the patch applies, the 668 pinned tests pass with the change, the demo fails with the
change and passes without it.
Evaluation logs (/tmp/seedeval/results/<seed>.*.log, written by tools/seeded_run.sh) are read in time order;
for each (seed, property) the LAST run is the verdict, earlier runs are kept as history (a miss followed by
a catch means the check was strengthened in between)."""
import json, os, glob, re, shutil, sys
OUT='/tmp/mut/out'; RES='/tmp/seedeval/results'; DST='/verif/seeded'
NOTES=json.load(open('/verif/tools/seed_notes.json')) if os.path.exists('/verif/tools/seed_notes.json') else {}
rows=[]
for d in sorted(glob.glob(f'{OUT}/C*')):
    sid=os.path.basename(d)
    if not os.path.exists(f'{d}/patch.diff') or not os.path.exists(f'{d}/meta.json'): continue
    conf=json.load(open(f'{d}/confirm.json')) if os.path.exists(f'{d}/confirm.json') else None
    det=[]
    for f in sorted(glob.glob(f'{RES}/{sid}.*.log'), key=os.path.getmtime):
        txt=open(f,errors='replace').read()
        # one log may hold several runs (sibling properties): split at SEEDED-RESULT lines
        pos=0
        for m in re.finditer(r'SEEDED-RESULT seed=\S+ property=(\S+) tier=(\S+) exit=(\d+)',txt):
            part=txt[pos:m.end()]; pos=m.end()
            sigs=sorted(set(re.findall(r'^VIOLATION property=\S+ (?:replay=\S+ )?signature=(\S+)',part,re.M)))
            det.append({'property':m.group(1),'tier':m.group(2),'exit':int(m.group(3)),'log':os.path.basename(f),
                        'when':int(os.path.getmtime(f)),
                        'new_signatures':[s for s in sigs if s.startswith(m.group(1)+'/')][:6],
                        'capped':'exhaustive=false' in part})
        if 'patch does not apply' in txt: det.append({'note':'patch does not apply to current HEAD','log':os.path.basename(f)})
    ok = conf and all(str(conf.get(k))=='true' for k in ('applies','baseline_668_with_change','demo_fails_with_change','demo_passes_without_change'))
    last={}
    for x in det:
        if 'property' in x: last[x['property']]=x
    caught=sorted(p for p,x in last.items() if x['exit']==1)
    missed_first=sorted(p for p in caught if any(y.get('property')==p and y['exit']==0 for y in det))
    rows.append((sid, 'confirmed' if ok else ('unconfirmed' if conf is None else 'REJECTED'), caught, missed_first, last, det, d))
    if ok:
        os.makedirs(f'{DST}/{sid}',exist_ok=True)
        shutil.copy(f'{d}/patch.diff',f'{DST}/{sid}/patch.diff'); shutil.copy(f'{d}/demo.rs',f'{DST}/{sid}/demo.rs')
        meta=json.load(open(f'{d}/meta.json'))
        how=('tools/seed_confirm_batch.sh' if 'baseline_batch' in conf else 'tools/seed_confirm.sh')+' in a scratch worktree of /repo HEAD %s: git apply; tools/baseline.sh (668 pinned tests%s); cargo nextest run --test <demo> with the change alone (fails) and on the clean tree (passes)'%(conf.get('head'), ', run once with the changes of the batch applied together' if 'baseline_batch' in conf else '')
        meta['confirmed_by_coordinator']={'how':how, **conf}
        meta['checked_with']=[{'cmd':f"tools/seeded_run.sh seeded/{sid} {x['property']} {x['tier']}", 'exit':x['exit'], 'new_signatures':x.get('new_signatures',[]), 'capped_run':x.get('capped',False), 'log':x['log']} for x in det if 'property' in x]
        meta['caught_by']=caught
        if sid in NOTES: meta['coordinator_note']=NOTES[sid]
        json.dump(meta,open(f'{DST}/{sid}/meta.json','w'),indent=1)
lines=['| seed | change | kept | final verdict (last run per property) | note |','|---|---|---|---|---|']
for sid,st,caught,missed_first,last,det,d in rows:
    meta=json.load(open(f'{d}/meta.json'))
    title=(meta.get('title') or meta.get('what_it_breaks') or '')[:110].replace('|','/')
    verdict=', '.join(f"{p}: {'**caught**' if x['exit']==1 else ('missed (capped run)' if x['capped'] else 'missed')}" + (f" `{x['new_signatures'][0][:70]}`" if x['exit']==1 and x['new_signatures'] else '') for p,x in sorted(last.items()))
    note=NOTES.get(sid,'')
    if missed_first and not note: note='first missed by '+', '.join(missed_first)+'; caught after the check was strengthened'
    lines.append(f"| {sid} | {title} | {'yes' if st=='confirmed' else st} | {verdict or 'not evaluated'} | {note} |")
os.makedirs(DST,exist_ok=True)
open(f'{DST}/TABLE.md','w').write('\n'.join(lines)+'\n')
print('\n'.join(lines))
n_ok=sum(1 for r in rows if r[1]=='confirmed'); n_c=sum(1 for r in rows if r[1]=='confirmed' and r[2])
print(f"\n{len(rows)} seeds, {n_ok} confirmed and kept, {n_c} of those caught by at least one check", file=sys.stderr)
