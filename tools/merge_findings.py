#!/usr/bin/env python3
"""Merges the per-property fragments findings.d/*.json into the single committed known-findings file
/verif/known_findings.json (same format: {"findings": [...]}), gives every `fixed` entry its
"fixed: property=<id> <commit> <what failed>" line, and removes the fragments.
Run by hand (never by a check); the checks only read the file."""
import json, glob, os, sys
root = os.path.dirname(os.path.dirname(os.path.abspath(__file__)))
main = os.path.join(root, 'known_findings.json')
allf = json.load(open(main)).get('findings', [])
for f in sorted(glob.glob(os.path.join(root, 'findings.d', '*.json'))):
    d = json.load(open(f))
    allf.extend(d['findings'] if isinstance(d, dict) else d)
seen = {}
for x in allf:
    if x['id'] in seen:
        sys.exit(f"duplicate finding id {x['id']}")
    seen[x['id']] = x
    if x.get('status') == 'fixed':
        if not x.get('commit'):
            sys.exit(f"fixed finding {x['id']} has no commit")
        if not x.get('line'):
            x['line'] = f"fixed: property={x['property']} {x['commit']} {(x.get('what') or '')[:240]}"
    elif x.get('status') != 'open':
        sys.exit(f"finding {x['id']} has status {x.get('status')!r}")
allf.sort(key=lambda x: (x['property'], x['id']))
json.dump({'comment': 'Known findings of the TurDB checks. status open: the check prints KNOWN-FINDING for violations whose signature matches and exits 0; status fixed: a record only (suppresses nothing). Never written at run time.',
           'findings': allf}, open(main, 'w'), indent=1)
for f in glob.glob(os.path.join(root, 'findings.d', '*.json')):
    os.remove(f)
try:
    os.rmdir(os.path.join(root, 'findings.d'))
except OSError:
    pass
print(f"{len(allf)} findings ({sum(1 for x in allf if x['status']=='open')} open, {sum(1 for x in allf if x['status']=='fixed')} fixed) in known_findings.json")
