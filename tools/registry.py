# Registry of implemented checks: the single source for MANIFEST.json and checks.json.
HOOK_COMMITS = ["163ba9e", "f16c06a", "c1acb01"]

ENGINES = [
    {"name": "vcore", "path": "/verif/mc/vcore", "serves_properties": ["*"],
     "kind_free_text": "parent/worker process pool, deterministic sliced enumeration, known-findings matcher, determinism gate (re-execution of each new violation), evidence + replay writer"},
    {"name": "SCHED", "path": "/verif/mc/sched", "serves_properties": ["C35", "C36", "C37", "C38", "C39"],
     "kind_free_text": "bounded-preemption (ICB) depth-first exploration of thread schedules of the real TurDB code compiled against a parking_lot shim over shuttle; schedules are choice vectors, replayed twice before a verdict is trusted"},
    {"name": "CRASH", "path": "/verif/mc/checks/src/bin/crash.rs", "serves_properties": ["C01", "C02", "C40"],
     "kind_free_text": "records a workload on the real Database through syscall interposers + the page_mut hook, builds kill / strict / lenient power-loss images at every event, reopens every distinct crash state with the real Database::open"},
    {"name": "SEQ", "path": "/verif/mc/checks/src/bin", "serves_properties": ["C03", "C25", "C28", "C29", "C34"],
     "kind_free_text": "explicit-state BFS / bounded history enumeration of a real component (B-tree over in-memory Storage, freelist, WAL, HNSW file) in lock-step with a reference model"},
    {"name": "QRY", "path": "/verif/mc/checks/src/bin", "serves_properties": ["C11", "C13", "C14", "C15", "C16", "C17", "C18", "C19", "C20", "C24"],
     "kind_free_text": "bounded-exhaustive expression/query enumeration over small tables that are full cross products of NULL-bearing domains, judged by the reference model refmodel::sql or by metamorphic/differential twins"},
    {"name": "SQLH", "path": "/verif/mc/checks/src/bin", "serves_properties": ["C04", "C05", "C06", "C07", "C08", "C09", "C10", "C12", "C21", "C42", "C43"],
     "kind_free_text": "every SQL statement history up to a depth over a small collision-forcing alphabet, executed on fresh real databases, in lock-step with the relational model or a differential twin"},
    {"name": "BYTES/INPUT", "path": "/verif/mc/checks/src/bin", "serves_properties": ["C03", "C23", "C26", "C27", "C30", "C31", "C32", "C33", "C41"],
     "kind_free_text": "bounded-exhaustive input enumeration of real codec functions on guard-paged buffers"},
]

NOT_YET = {}

CHECKS = {
    "C27": {
        "bin": "c27", "engine": "BYTES/INPUT", "level": "exploration",
        "technique": "bounded exhaustive input enumeration (every value of a dense range + boundary families; every short byte string) on the real codec",
        "text": "Every u64 in [0,2^22) (thorough: [0,2^29)), a stride sweep up to 2^32+2^16, all 2^k±d and one-byte sweeps of the 9-byte class are encoded with the real encode_varint into a guard-paged buffer of exactly varint_len bytes and decoded back; every byte string of length ≤3 and a reduced-alphabet family of length 4..9 is decoded at a guard page. Exhaustive within those sets, so any off-by-one in a class boundary, length function or bounds check is found; the 2^64 'by proof' clause is outside this family.",
        "note": "Trusts the independent restatement of the format table in the check (spec_len) and the MMU guard page for out-of-bounds detection; values above 2^32+2^16 are covered by families, not densely.",
    },
    "C30": {
        "bin": "c30", "engine": "BYTES/INPUT", "level": "exploration",
        "technique": "bounded exhaustive input enumeration: every key-set shape (composition into equal-prefix runs) x every stored/gap probe against plain binary search",
        "text": "Leaf pages are built with the real LeafNodeMut API for every composition of n<=15 (thorough n<=20) keys into runs sharing a 4-byte prefix, in three key families (long keys, keys shorter than 4 bytes with zero-padded prefixes, high-bit prefixes), plus run families up to 400 keys; every stored key and every neighbouring gap key is probed through find_key and through both narrowing functions (AVX2 and scalar). Exhaustive over those shapes, so any batch-boundary or equal-prefix narrowing error is found; this is how the AVX2 defect fixed in 534a3d5 was found.",
        "note": "Oracle is slice::binary_search over the harness's own key list. The no-AVX2 dispatch cannot be forced on this CPU: the scalar narrowing function is checked directly instead. NEON path not reachable on x86_64.",
    },
    "C36": {
        "bin": "c36", "kind": "sched", "engine": "SCHED", "level": "model_checking",
        "technique": "stateless model checking of the real code: every thread schedule up to a preemption bound (iterative context bounding on shuttle's executor)",
        "text": "The real PageLockManager is driven by 2-3 shuttle threads acquiring/releasing page read/write locks, table intent locks and multi-page write locks on 1-2 pages; every schedule with <=2 (thorough 3) preemptions is executed (scheduling points = every lock operation of the parking_lot shim and every atomic of page_locks.rs). An occupancy record inside each critical section decides mutual exclusion on every schedule, deadlocks/livelocks are reported by the executor, and the lock tables must be empty at quiescence. This reaches interleavings (release/cleanup racing re-acquisition) that the repository's timing-based thread tests never pin down.",
        "note": "Sequentially consistent atomics; parking_lot replaced by a ~250-line shim over shuttle (mc/sched/shims); fairness of RwLock is shuttle's; more than 3 threads / preemptions above the bound not covered.",
    },
    "C39": {
        "bin": "c39", "kind": "sched", "engine": "SCHED", "level": "model_checking",
        "technique": "stateless model checking of the real code: every thread schedule up to a preemption bound (iterative context bounding on shuttle's executor)",
        "text": "The real MemoryBudget (4 MiB limit) is driven by 2-3 shuttle threads allocating/releasing 64 KiB-3 MiB in the same and different pools; every schedule with <=4 (thorough 8) preemptions for 2 threads and <=2 (3) for 3 threads is executed, each atomic load/CAS of budget.rs being a scheduling point. At quiescence the sum of successful allocations is compared with the limit, every pool counter with a ledger of successful calls, and everything must return to zero. Two scenarios (bound 3) add an in-flight oracle: a thread that was just granted a request of limit/2+4 KiB reads total_used() while holding the grant and must see at most the limit.",
        "note": "Sequentially consistent atomics (shuttle); sizes and pools from a small alphabet.",
    },
}

# further entries live in tools/registry_extra.json (same fields), merged here
import json as _json, os as _os
_extra = _os.path.join(_os.path.dirname(_os.path.abspath(__file__)), "registry_extra.json")
if _os.path.exists(_extra):
    CHECKS.update(_json.load(open(_extra)))
for _e in ENGINES:
    pass
