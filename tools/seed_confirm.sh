#!/bin/bash
# seed_confirm.sh <seed-dir> — independent confirmation of one seeded change in a scratch worktree:
#  (1) patch applies to /repo's HEAD and compiles, (2) the repository's pinned suite still passes
#  with it (668/668), (3) the demonstration fails with the change and (4) passes without it.
# Writes <seed-dir>/confirm.json.  Nothing under /repo or /verif is touched.
set -u
SEED=$(readlink -f "$1"); NAME=$(basename $SEED)
CB=${SEEDCONFIRM_BASE:-/tmp/seedconfirm}; W=$CB/repo
mkdir -p $CB
exec 8>$CB/.lock; flock 8
if [ ! -d $W ]; then git -C /repo worktree add -q --detach $W HEAD || exit 2; fi
git -C $W checkout -q --detach $(git -C /repo rev-parse HEAD)
git -C $W checkout -q -- . ; git -C $W clean -fdq -e target
DEMO=demo_$(echo $NAME | tr 'A-Z-' 'a-z_')
res() { python3 - "$SEED/confirm.json" "$@" <<'PY'
import json,sys
p=sys.argv[1]; kv=dict(a.split('=',1) for a in sys.argv[2:])
json.dump(kv,open(p,'w'),indent=1); print(kv)
PY
}
if ! git -C $W apply "$SEED/patch.diff"; then res applies=false; exit 3; fi
cp "$SEED/demo.rs" $W/tests/$DEMO.rs
export CARGO_NET_OFFLINE=true
BASE_OUT=$(/verif/tools/baseline.sh $W 2>&1 | head -3)
BASE_OK=false; echo "$BASE_OUT" | grep -q "668/668 stable tests pass" && BASE_OK=true
(cd $W && cargo nextest run --offline --no-fail-fast --test $DEMO > $CB/$NAME.with.log 2>&1); RC_WITH=$?
git -C $W checkout -q -- .   # revert the change, keep the demo
(cd $W && cargo nextest run --offline --no-fail-fast --test $DEMO > $CB/$NAME.without.log 2>&1); RC_WITHOUT=$?
rm -f $W/tests/$DEMO.rs
FAILS_WITH=false; [ $RC_WITH -ne 0 ] && grep -qE "FAIL|failed|panicked|SIGABRT|SIGSEGV" $CB/$NAME.with.log && FAILS_WITH=true
PASSES_WITHOUT=false; [ $RC_WITHOUT -eq 0 ] && PASSES_WITHOUT=true
res applies=true baseline_668_with_change=$BASE_OK demo_fails_with_change=$FAILS_WITH demo_passes_without_change=$PASSES_WITHOUT "head=$(git -C /repo rev-parse --short HEAD)" "baseline_line=$(echo "$BASE_OUT" | head -1)"
