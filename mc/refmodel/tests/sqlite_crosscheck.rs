//! Bounded-exhaustive cross-check of the reference evaluator (`refmodel::sql`) against the
//! bundled SQLite.  Every query of the families below is rendered with `to_sql()`, run on
//! SQLite, and SQLite's answer must be ACCEPTED by the model's result (`accepts_by`, which
//! allows any order of ties / any tie-consistent window) modulo `loosely_equal_bool`
//! (SQLite has no boolean type: truth values are 0/1; AVG/SUM float round-off).
//!
//! Only constructs where SQLite follows the standard are compared.  Documented exclusions:
//!  * LIKE: SQLite is case-insensitive by default ⇒ `PRAGMA case_sensitive_like=ON`.
//!  * integer overflow: SQLite silently switches to floating point; the model raises
//!    `Overflow` ⇒ no overflowing operands are generated.
//!  * division by zero: SQLite yields NULL, the model `DivZero` ⇒ such cases are checked for
//!    "SQLite says NULL" when the erroring expression is the whole select item, otherwise skipped.
//!  * float `%`: SQLite casts both operands to integers ⇒ `%` only on integers.
//!  * scalar subquery with more than one row: SQLite silently takes the first row, the model
//!    (and the standard) raise an error ⇒ counted and skipped.
//!  * INTERSECT ALL / EXCEPT ALL do not exist in SQLite ⇒ compared against the standard
//!    ROW_NUMBER() rewriting run on SQLite.
//!  * text is only compared with text and numbers with numbers (SQLite's cross-type ordering
//!    and affinity rules are not SQL).
//!  * integer `/`: truncating in SQLite, TurDB and the model alike, so it IS compared.
use refmodel::sql::expr::*;
use refmodel::sql::query::*;
use refmodel::sql::{Schema, Ty};
use refmodel::val::{bag, show_rows, Row, V};
use rusqlite::types::Value;
use rusqlite::Connection;
use std::collections::BTreeMap;

// ---------------------------------------------------------------------------
// plumbing
// ---------------------------------------------------------------------------

struct Cx {
    conn: Connection,
    db: Database,
    compared: usize,
    skipped: BTreeMap<&'static str, usize>,
    failures: Vec<String>,
}

fn from_sqlite(v: Value) -> V {
    match v {
        Value::Null => V::Null,
        Value::Integer(i) => V::Int(i),
        Value::Real(f) => V::Float(f),
        Value::Text(s) => V::Text(s),
        Value::Blob(b) => V::Blob(b),
    }
}
fn to_sqlite(v: &V) -> Value {
    match v {
        V::Null => Value::Null,
        V::Bool(b) => Value::Integer(*b as i64),
        V::Int(i) => Value::Integer(*i),
        V::Float(f) => Value::Real(*f),
        V::Text(s) => Value::Text(s.clone()),
        V::Blob(b) => Value::Blob(b.clone()),
        V::Other(s) => Value::Text(s.clone()),
    }
}
fn sqlite_ty(t: Ty) -> &'static str {
    match t {
        Ty::Int | Ty::BigInt | Ty::Bool => "INTEGER",
        Ty::Real | Ty::Float => "REAL",
        Ty::Text => "TEXT",
        Ty::Blob => "BLOB",
    }
}

impl Cx {
    fn new() -> Cx {
        let conn = Connection::open_in_memory().unwrap();
        conn.execute_batch("PRAGMA case_sensitive_like=ON;").unwrap();
        let v: String = conn.query_row("SELECT sqlite_version()", [], |r| r.get(0)).unwrap();
        println!("SQLite {v}");
        Cx { conn, db: Database::new(), compared: 0, skipped: BTreeMap::new(), failures: vec![] }
    }
    /// (re)create a table in both worlds
    fn load(&mut self, name: &str, t: Table) {
        self.conn.execute_batch(&format!("DROP TABLE IF EXISTS {name}")).unwrap();
        let cols: Vec<String> = t.columns.iter().map(|(n, ty)| format!("{n} {}", sqlite_ty(*ty))).collect();
        self.conn.execute_batch(&format!("CREATE TABLE {name} ({})", cols.join(", "))).unwrap();
        if !t.rows.is_empty() {
            let ph: Vec<&str> = t.columns.iter().map(|_| "?").collect();
            let mut st = self.conn.prepare(&format!("INSERT INTO {name} VALUES ({})", ph.join(","))).unwrap();
            for r in &t.rows {
                st.execute(rusqlite::params_from_iter(r.iter().map(to_sqlite))).unwrap();
            }
        }
        self.db.tables.insert(name.to_string(), t);
    }
    fn sqlite(&self, sql: &str) -> Result<Vec<Row>, String> {
        let mut st = self.conn.prepare(sql).map_err(|e| format!("prepare: {e}"))?;
        let n = st.column_count();
        let mut rows = st.query([]).map_err(|e| format!("query: {e}"))?;
        let mut out = vec![];
        loop {
            match rows.next() {
                Ok(Some(r)) => out.push((0..n).map(|i| from_sqlite(r.get::<_, Value>(i).unwrap())).collect()),
                Ok(None) => break,
                Err(e) => return Err(format!("step: {e}")),
            }
        }
        Ok(out)
    }
    fn skip(&mut self, why: &'static str) {
        *self.skipped.entry(why).or_insert(0) += 1;
    }
    fn fail(&mut self, msg: String) {
        if self.failures.len() < 12 {
            eprintln!("MISMATCH: {msg}");
        }
        self.failures.push(msg);
    }
    /// compare one query; `sqlite_sql` overrides the text sent to SQLite (rewritings)
    fn check_with(&mut self, q: &Query, sqlite_sql: Option<String>) {
        let sql = sqlite_sql.unwrap_or_else(|| q.to_sql());
        let mine = q.eval(&self.db);
        let mine = match mine {
            Ok(m) => m,
            Err(EvalErr::ScalarSubqueryRows) => return self.skip("scalar subquery > 1 row (SQLite takes the first row)"),
            Err(EvalErr::DivZero) => return self.skip("division by zero inside a larger query"),
            Err(e) => return self.fail(format!("model error {e:?} on {sql}")),
        };
        let theirs = match self.sqlite(&sql) {
            Ok(t) => t,
            Err(e) => return self.fail(format!("SQLite error {e} on {sql}")),
        };
        self.compared += 1;
        if let Err(why) = mine.accepts_by(&theirs, &loosely_equal_bool) {
            return self.fail(format!("{sql}\n   model : {}\n   sqlite: {}\n   reason: {why}", show_rows(&mine.rows), show_rows(&theirs)));
        }
        // cross-validate the window classification: an exact window has exactly one correct bag
        if mine.window() == Window::Exact && !bags_equal_by(&mine.rows, &theirs, &loosely_equal_bool) {
            self.fail(format!("{sql}\n   window() says Exact but bags differ: model {} sqlite {}", show_rows(&mine.rows), show_rows(&theirs)));
        }
        // an unordered, unwindowed query: plain bag comparison must agree with accepts
        if !mine.is_ordered() && q.limit.is_none() && q.offset.is_none() {
            let canon_bag = |rows: &[Row]| bag(&rows.iter().map(|r| r.iter().map(|v| canon(v, true)).collect()).collect::<Vec<Row>>());
            let (a, b) = (canon_bag(&mine.rows), canon_bag(&theirs));
            if a != b && !bags_loosely_equal(&a, &b) {
                self.fail(format!("{sql}\n   accepts() passed but canonical bags differ"));
            }
        }
    }
    fn check(&mut self, q: &Query) {
        self.check_with(q, None)
    }
    fn finish(self, family: &str, at_least: usize) -> usize {
        println!("{family}: compared {} queries with SQLite; skipped {:?}", self.compared, self.skipped);
        assert!(self.failures.is_empty(), "{family}: {} mismatches, first: {}", self.failures.len(), self.failures[0]);
        assert!(self.compared >= at_least, "{family}: only {} queries compared (expected at least {at_least})", self.compared);
        self.compared
    }
}

fn i(x: i64) -> V {
    V::Int(x)
}
fn f(x: f64) -> V {
    V::Float(x)
}
fn s(x: &str) -> V {
    V::Text(x.to_string())
}
const N: V = V::Null;

/// all multisets (as sorted index vectors) of size <= max over `n` items
fn multisets(n: usize, max: usize) -> Vec<Vec<usize>> {
    let mut out = vec![vec![]];
    let mut level: Vec<Vec<usize>> = vec![vec![]];
    for _ in 0..max {
        let mut next = vec![];
        for m in &level {
            let lo = m.last().copied().unwrap_or(0);
            for k in lo..n {
                let mut m2 = m.clone();
                m2.push(k);
                next.push(m2);
            }
        }
        out.extend(next.iter().cloned());
        level = next;
    }
    out
}

// ---------------------------------------------------------------------------
// 1. three-valued predicates (C14)
// ---------------------------------------------------------------------------

fn c14_table() -> Table {
    let a = [N, i(-1), i(0), i(1), i(2)];
    let b = [N, f(-1.0), f(0.5), f(1.0), f(2.0)];
    let c = [N, s(""), s("a"), s("ab"), s("b")];
    let mut rows = vec![];
    let mut id = 0;
    for x in &a {
        for y in &b {
            for z in &c {
                id += 1;
                rows.push(vec![i(id), x.clone(), y.clone(), z.clone()]);
            }
        }
    }
    Table::new(&[("id", Ty::Int), ("a", Ty::Int), ("b", Ty::Real), ("c", Ty::Text)], rows)
}

/// `SELECT id, e FROM t`: per-row value of `e` must agree (truth values as 0/1/NULL)
fn check_select_list(cx: &mut Cx, e: &Expr) {
    let t = &cx.db.tables["t"];
    let schema = t.schema("t");
    let sql = format!("SELECT id, {} FROM t", e.to_sql());
    let mut mine: BTreeMap<i64, Result<V, EvalErr>> = BTreeMap::new();
    for r in &t.rows {
        let V::Int(id) = r[0] else { unreachable!() };
        mine.insert(id, e.eval(r, &schema));
    }
    let theirs = match cx.sqlite(&sql) {
        Ok(t) => t,
        Err(e) => return cx.fail(format!("SQLite error {e} on {sql}")),
    };
    cx.compared += 1;
    if theirs.len() != mine.len() {
        return cx.fail(format!("{sql}: {} rows from SQLite", theirs.len()));
    }
    for r in theirs {
        let V::Int(id) = r[0] else { unreachable!() };
        match &mine[&id] {
            Ok(v) => {
                if !loosely_equal_bool(v, &r[1]) {
                    return cx.fail(format!("{sql}: row id={id}: model {} sqlite {}", v.show(), r[1].show()));
                }
            }
            // SQLite: x/0 and x%0 are NULL.  Only comparable when the division is the whole item
            // (inside AND/OR SQLite's NULL can be absorbed while the model reports the error).
            Err(EvalErr::DivZero) => {
                if matches!(e, Expr::Arith(..)) && !r[1].is_null() {
                    return cx.fail(format!("{sql}: row id={id}: model DivZero, sqlite {}", r[1].show()));
                }
            }
            Err(other) => return cx.fail(format!("{sql}: row id={id}: model error {other:?}")),
        }
    }
}
/// `SELECT id FROM t WHERE p`: exactly the rows where the model says TRUE
fn check_where(cx: &mut Cx, p: &Expr) {
    let q = Query::cols("t", vec![col("id")]).where_(p.clone());
    cx.check(&q);
}

#[test]
fn predicates_three_valued_logic() {
    let mut cx = Cx::new();
    cx.load("t", c14_table());
    let schema = Schema::of(&[("a", Ty::Int), ("b", Ty::Real), ("c", Ty::Text)]);
    let k = Consts::c14();
    let all = atoms(&schema, &k);
    let core = core_atoms(&schema, &k);
    println!("atoms: {} (core {})", all.len(), core.len());
    assert!(all.len() >= 100 && core.len() >= 30 && core.len() <= 50, "atom counts {} / {}", all.len(), core.len());
    // every atom and NOT atom, select-list and WHERE form
    for a in &all {
        for e in [a.clone(), not(a.clone())] {
            check_select_list(&mut cx, &e);
            check_where(&mut cx, &e);
        }
    }
    // all trees of depth <= 1 over the core (both forms), and NOT of each of them
    let mut n1 = 0u128;
    for e in trees(&core, 1) {
        n1 += 1;
        check_select_list(&mut cx, &e);
        check_where(&mut cx, &e);
        check_select_list(&mut cx, &not(e.clone()));
        // IS NULL of a predicate (three-valuedness made visible in WHERE)
        check_where(&mut cx, &is_null(e));
    }
    assert_eq!(n1, trees_count(core.len() as u128, 1));
    // all trees of depth <= 2 over an 8-atom sub-core covering every NULL-involvement class
    let sub = vec![
        gt(col("a"), int(0)),
        eq(col("a"), null()),
        le(col("a"), col("b")),
        is_null(col("c")),
        in_list(col("a"), vec![int(0), null()]),
        not_between(col("b"), float(0.5), float(1.0)),
        like(col("c"), text("a%")),
        ne(col("c"), text("ab")),
    ];
    let mut n2 = 0u128;
    for e in trees(&sub, 2) {
        n2 += 1;
        check_select_list(&mut cx, &e);
    }
    assert_eq!(n2, trees_count(8, 2));
    cx.finish("predicates", 50_000);
}

// ---------------------------------------------------------------------------
// 2. arithmetic and comparison on value pairs (select list)
// ---------------------------------------------------------------------------

#[test]
fn arithmetic_and_comparison_values() {
    let mut cx = Cx::new();
    // one row per ordered pair of values; x,y integers, p,q floats
    let ints = [N, i(-7), i(-1), i(0), i(1), i(2), i(7), i(1_000_000_007)];
    let floats = [N, f(-2.5), f(-1.0), f(0.0), f(0.5), f(1.0), f(2.0), f(7.0)];
    let mut rows = vec![];
    let mut id = 0;
    for x in &ints {
        for y in &ints {
            for (p, q) in floats.iter().zip(floats.iter().cycle().skip((id as usize) % 8)) {
                id += 1;
                rows.push(vec![i(id), x.clone(), y.clone(), p.clone(), q.clone()]);
            }
        }
    }
    cx.load("t", Table::new(&[("id", Ty::Int), ("x", Ty::Int), ("y", Ty::Int), ("p", Ty::Float), ("q", Ty::Float)], rows));
    let iops = ArithOp::ALL;
    let fops = [ArithOp::Add, ArithOp::Sub, ArithOp::Mul, ArithOp::Div]; // float % differs in SQLite
    let mut exprs = vec![];
    for op in iops {
        exprs.push(arith(op, col("x"), col("y")));
        exprs.push(arith(op, col("x"), int(3)));
        exprs.push(arith(op, int(-7), col("y")));
        exprs.push(arith(op, arith(op, col("x"), int(2)), col("y")));
    }
    for op in fops {
        exprs.push(arith(op, col("p"), col("q")));
        exprs.push(arith(op, col("x"), col("q"))); // int op float => float
        exprs.push(arith(op, col("p"), col("y")));
        exprs.push(arith(op, col("p"), float(0.5)));
    }
    exprs.push(neg(col("x")));
    exprs.push(neg(col("p")));
    exprs.push(neg(add(col("x"), col("y"))));
    for op in CmpOp::ALL {
        exprs.push(cmp(op, col("x"), col("y")));
        exprs.push(cmp(op, col("x"), col("p"))); // int vs float by value
        exprs.push(cmp(op, col("p"), col("q")));
        exprs.push(cmp(op, add(col("x"), int(1)), col("y")));
        exprs.push(cmp(op, mul(col("x"), float(0.5)), col("q")));
    }
    exprs.push(between(col("x"), col("y"), int(2)));
    exprs.push(not_between(col("p"), col("x"), col("q")));
    exprs.push(in_list(col("x"), vec![col("y"), int(0), col("p")]));
    exprs.push(not_in_list(col("x"), vec![col("y"), int(0), col("p")]));
    for e in &exprs {
        check_select_list(&mut cx, e);
    }
    cx.finish("arithmetic", 70);
}

// ---------------------------------------------------------------------------
// 3. aggregates / GROUP BY / HAVING (C16)
// ---------------------------------------------------------------------------

fn agg_domain() -> Vec<Row> {
    // (k, x, y): k and x from {NULL,1,2}; y a float tied to the pair
    let ys = [N, f(0.5), f(1.5), f(2.5)];
    let mut d = vec![];
    for (ki, k) in [N, i(1), i(2)].iter().enumerate() {
        for (xi, x) in [N, i(1), i(2)].iter().enumerate() {
            d.push(vec![k.clone(), x.clone(), ys[(ki + 2 * xi) % 4].clone()]);
        }
    }
    d
}

#[test]
fn aggregates_group_by_having() {
    let mut cx = Cx::new();
    let dom = agg_domain();
    let mut tables: Vec<Vec<Row>> = multisets(dom.len(), 2).into_iter().map(|m| m.into_iter().map(|k| dom[k].clone()).collect()).collect();
    // a few bigger hand-made tables: all-NULL, duplicates, every domain row, the domain twice
    tables.push(vec![vec![N, N, N], vec![N, N, N], vec![N, N, N]]);
    tables.push(vec![vec![i(1), i(2), f(0.5)]; 4]);
    tables.push(dom.clone());
    tables.push(dom.iter().chain(dom.iter()).cloned().collect());
    tables.push(vec![vec![i(1), N, f(1.5)], vec![i(1), i(2), N], vec![N, i(2), f(2.5)], vec![N, N, N], vec![i(2), i(1), f(0.5)], vec![i(2), i(1), f(0.5)]]);
    let args = [col("x"), col("y"), add(col("x"), int(1))];
    let mut aggs = vec![count_star()];
    for fun in [AggFunc::Count, AggFunc::Sum, AggFunc::Avg, AggFunc::Min, AggFunc::Max] {
        for a in &args {
            aggs.push(agg(fun, a.clone()));
        }
    }
    let groups: Vec<Vec<Expr>> = vec![vec![], vec![col("k")], vec![col("k"), col("x")], vec![add(col("k"), int(1))]];
    let wheres: Vec<Option<Expr>> = vec![None, Some(gt(col("x"), int(1))), Some(is_not_null(col("k")))];
    let havings: Vec<Option<Expr>> = vec![None, Some(gt(count_star(), int(1))), Some(ge(sum(col("x")), int(2))), Some(eq(min(col("x")), int(1)))];
    for rows in tables {
        cx.load("t", Table::new(&[("k", Ty::Int), ("x", Ty::Int), ("y", Ty::Float)], rows));
        for g in &groups {
            for w in &wheres {
                for h in &havings {
                    for a in &aggs {
                        let mut items: Vec<SelectItem> = g.iter().cloned().map(SelectItem::expr).collect();
                        items.push(SelectItem::aliased(a.clone(), "r"));
                        let mut q = Query::select(items, From::table("t")).group_by(g.clone());
                        if let Some(w) = w {
                            q = q.where_(w.clone());
                        }
                        if let Some(h) = h {
                            q = q.having(h.clone());
                        }
                        cx.check(&q);
                    }
                }
            }
        }
        // several aggregates in one query, aggregate arithmetic, ORDER BY an aggregate
        let q = Query::cols("t", vec![col("k"), count_star(), count(col("x")), sum(col("x")), avg(col("y")), min(col("y")), max(col("x")), add(sum(col("x")), count_star())])
            .group_by(vec![col("k")])
            .order_by(vec![OrderKey::desc(count_star()), OrderKey::asc(col("k"))]);
        cx.check(&q);
    }
    cx.finish("aggregates", 40_000);
}

// ---------------------------------------------------------------------------
// 4. joins (C17)
// ---------------------------------------------------------------------------

/// tables over join keys {NULL,1,2} with duplicates; payload column makes every row distinct
fn key_tables(prefix: &str, payload: &str, max: usize) -> Vec<(String, Table)> {
    let keys = [N, i(1), i(2)];
    multisets(keys.len(), max)
        .into_iter()
        .enumerate()
        .map(|(n, m)| {
            let rows = m.iter().enumerate().map(|(j, &k)| vec![keys[k].clone(), s(&format!("{payload}{j}"))]).collect();
            (format!("{prefix}{n}"), Table::new(&[("k", Ty::Int), (payload, Ty::Text)], rows))
        })
        .collect()
}

#[test]
fn joins_five_kinds() {
    let mut cx = Cx::new();
    let ls = key_tables("l", "v", 3);
    let rs = key_tables("r", "w", 3);
    let ms = key_tables("m", "z", 2);
    for (n, t) in ls.iter().chain(rs.iter()).chain(ms.iter()) {
        cx.load(n, t.clone());
    }
    let ons = [
        eq(col("l.k"), col("r.k")),
        lt(col("l.k"), col("r.k")),
        and(eq(col("l.k"), col("r.k")), ne(col("l.v"), text("v0"))),
        or(eq(col("l.k"), col("r.k")), is_null(col("r.k"))),
    ];
    let wheres: Vec<Option<Expr>> = vec![None, Some(is_not_null(col("l.k"))), Some(is_null(col("r.k"))), Some(gt(col("r.k"), int(1)))];
    let items = || vec![SelectItem::expr(col("l.k")), SelectItem::expr(col("l.v")), SelectItem::expr(col("r.k")), SelectItem::expr(col("r.w"))];
    for (ln, _) in &ls {
        for (rn, _) in &rs {
            for kind in JoinKind::ALL {
                let on_list: Vec<Option<Expr>> = if kind == JoinKind::Cross { vec![None] } else { ons.iter().cloned().map(Some).collect() };
                for on in on_list {
                    for w in &wheres {
                        let from = From::table_as(ln, "l").join(kind, From::table_as(rn, "r"), on.clone());
                        let mut q = Query::select(items(), from);
                        if let Some(w) = w {
                            q = q.where_(w.clone());
                        }
                        cx.check(&q);
                    }
                }
            }
        }
    }
    // SELECT * over a join (column order = left then right)
    let q = Query::select(vec![SelectItem::Star(None)], From::table_as("l7", "l").join(JoinKind::Full, From::table_as("r5", "r"), Some(eq(col("l.k"), col("r.k")))));
    cx.check(&q);
    // three-way chains over smaller tables, every pair of join kinds
    let small = |v: &Vec<(String, Table)>| -> Vec<String> { v.iter().filter(|(_, t)| t.rows.len() <= 2).map(|(n, _)| n.clone()).collect() };
    let (sl, sr, sm) = (small(&ls), small(&rs), small(&ms));
    let kinds = [JoinKind::Inner, JoinKind::Left, JoinKind::Right, JoinKind::Full];
    for ln in &sl {
        for rn in &sr {
            for mn in &sm {
                for k1 in kinds {
                    for k2 in kinds {
                        let from = From::table_as(ln, "l")
                            .join(k1, From::table_as(rn, "r"), Some(eq(col("l.k"), col("r.k"))))
                            .join(k2, From::table_as(mn, "m"), Some(eq(col("r.k"), col("m.k"))));
                        let q = Query::select(vec![SelectItem::expr(col("l.v")), SelectItem::expr(col("r.w")), SelectItem::expr(col("m.z")), SelectItem::expr(col("m.k"))], from);
                        cx.check(&q);
                    }
                }
            }
        }
    }
    // join + GROUP BY (README example shape): count of matches per left row
    for (ln, _) in ls.iter().take(12) {
        for (rn, _) in rs.iter().take(12) {
            let from = From::table_as(ln, "l").join(JoinKind::Left, From::table_as(rn, "r"), Some(eq(col("l.k"), col("r.k"))));
            let q = Query::select(vec![SelectItem::expr(col("l.v")), SelectItem::aliased(count(col("r.w")), "n")], from).group_by(vec![col("l.v")]);
            cx.check(&q);
        }
    }
    cx.finish("joins", 20_000);
}

// ---------------------------------------------------------------------------
// 5. subqueries (C18)
// ---------------------------------------------------------------------------

#[test]
fn subqueries_in_exists_scalar_derived() {
    let mut cx = Cx::new();
    let ts = key_tables("t", "v", 3);
    let us = key_tables("u", "w", 3);
    for (n, t) in ts.iter().chain(us.iter()) {
        cx.load(n, t.clone());
    }
    for (tn, _) in &ts {
        for (un, _) in &us {
            let t = || From::table_as(tn, "t");
            let u = || From::table_as(un, "u");
            let sel_u = |items: Vec<Expr>, w: Option<Expr>| {
                let mut q = Query::select(items.into_iter().map(SelectItem::expr).collect(), u());
                if let Some(w) = w {
                    q = q.where_(w);
                }
                q
            };
            let outer = |w: Expr| Query::select(vec![SelectItem::expr(col("t.k")), SelectItem::expr(col("t.v"))], t()).where_(w);
            let mut qs: Vec<Query> = vec![];
            // [NOT] IN (subquery) with NULLs on either side, uncorrelated and correlated
            for sub_w in [None, Some(is_not_null(col("u.k"))), Some(gt(col("u.k"), int(1))), Some(eq(col("u.k"), col("t.k"))), Some(ne(col("u.w"), col("t.v")))] {
                qs.push(outer(in_sub(col("t.k"), sel_u(vec![col("u.k")], sub_w.clone()))));
                qs.push(outer(not_in_sub(col("t.k"), sel_u(vec![col("u.k")], sub_w.clone()))));
                // three-valued result made visible
                qs.push(Query::select(vec![SelectItem::expr(col("t.v")), SelectItem::aliased(in_sub(col("t.k"), sel_u(vec![col("u.k")], sub_w.clone())), "r")], t()));
                qs.push(Query::select(vec![SelectItem::expr(col("t.v")), SelectItem::aliased(not_in_sub(col("t.k"), sel_u(vec![col("u.k")], sub_w.clone())), "r")], t()));
                qs.push(outer(is_null(in_sub(col("t.k"), sel_u(vec![col("u.k")], sub_w)))));
            }
            // [NOT] EXISTS
            for sub_w in [None, Some(eq(col("u.k"), col("t.k"))), Some(gt(col("u.k"), col("t.k"))), Some(is_null(col("u.k")))] {
                qs.push(outer(exists(sel_u(vec![int(1)], sub_w.clone()))));
                qs.push(outer(not_exists(sel_u(vec![int(1)], sub_w.clone()))));
                qs.push(Query::select(vec![SelectItem::expr(col("t.v")), SelectItem::aliased(exists(sel_u(vec![col("u.w")], sub_w)), "r")], t()));
            }
            // scalar subqueries: aggregates (always one row), possibly-empty, possibly several rows (skipped when > 1)
            for sc in [
                sel_u(vec![max(col("u.k"))], Some(eq(col("u.k"), col("t.k")))),
                sel_u(vec![count_star()], Some(eq(col("u.k"), col("t.k")))),
                sel_u(vec![count(col("u.k"))], None),
                sel_u(vec![sum(col("u.k"))], Some(lt(col("u.k"), col("t.k")))),
                sel_u(vec![min(col("u.k"))], None),
                sel_u(vec![col("u.k")], Some(eq(col("u.w"), text("w0")))),
                sel_u(vec![col("u.k")], None),
                sel_u(vec![col("u.w")], Some(eq(col("u.k"), col("t.k")))),
            ] {
                qs.push(Query::select(vec![SelectItem::expr(col("t.v")), SelectItem::aliased(scalar(sc.clone()), "r")], t()));
                if sc.to_sql().contains("u.w FROM") {
                    continue; // text-valued: do not compare with the integer key
                }
                qs.push(outer(eq(col("t.k"), scalar(sc.clone()))));
                qs.push(outer(gt(col("t.k"), scalar(sc.clone()))));
                qs.push(outer(is_null(scalar(sc))));
            }
            // derived tables
            qs.push(Query::select(vec![SelectItem::expr(col("d.k"))], From::derived(sel_u(vec![col("u.k")], Some(gt(col("u.k"), int(1)))), "d")));
            let counts = Query::select(vec![SelectItem::expr(col("u.k")), SelectItem::aliased(count_star(), "c")], u()).group_by(vec![col("u.k")]);
            for kind in [JoinKind::Inner, JoinKind::Left, JoinKind::Full] {
                qs.push(Query::select(vec![SelectItem::expr(col("t.v")), SelectItem::expr(col("d.k")), SelectItem::expr(col("d.c"))], t().join(kind, From::derived(counts.clone(), "d"), Some(eq(col("t.k"), col("d.k"))))));
            }
            qs.push(Query::select(vec![SelectItem::expr(col("d.k"))], From::derived(Query::select(vec![SelectItem::expr(col("u.k"))], u()).distinct(), "d")).where_(in_sub(col("d.k"), Query::select(vec![SelectItem::expr(col("t.k"))], t()))));
            // nesting depth 2
            let t2_match = Query::select(vec![SelectItem::expr(int(1))], From::table_as(tn, "t2")).where_(eq(col("t2.k"), col("u.k")));
            qs.push(outer(in_sub(col("t.k"), sel_u(vec![col("u.k")], Some(exists(t2_match.clone()))))));
            qs.push(outer(not_in_sub(col("t.k"), sel_u(vec![col("u.k")], Some(not_exists(t2_match.clone()))))));
            let t2_keys = Query::select(vec![SelectItem::expr(col("t2.k"))], From::table_as(tn, "t2")).where_(ne(col("t2.v"), col("t.v")));
            qs.push(outer(exists(sel_u(vec![int(1)], Some(and(eq(col("u.k"), col("t.k")), in_sub(col("u.k"), t2_keys.clone())))))));
            qs.push(outer(not_exists(sel_u(vec![int(1)], Some(not_in_sub(col("u.k"), t2_keys))))));
            for q in &qs {
                cx.check(q);
            }
        }
    }
    cx.finish("subqueries", 25_000);
}

// ---------------------------------------------------------------------------
// 6. set operations (C18)
// ---------------------------------------------------------------------------

#[test]
fn set_operations() {
    let mut cx = Cx::new();
    let ts = key_tables("t", "v", 3);
    let us = key_tables("u", "w", 3);
    for (n, t) in ts.iter().chain(us.iter()) {
        cx.load(n, t.clone());
    }
    let sel = |tab: &str, two: bool| {
        let mut items = vec![col("k")];
        if two {
            items.push(is_null(col("k")));
        }
        Query::cols(tab, items)
    };
    for (tn, _) in &ts {
        for (un, _) in &us {
            for two in [false, true] {
                for op in SetOp::ALL {
                    cx.check(&Query::set_op(op, false, sel(tn, two), sel(un, two)));
                }
                cx.check(&Query::set_op(SetOp::Union, true, sel(tn, two), sel(un, two)));
            }
            // INTERSECT ALL / EXCEPT ALL: SQLite has neither; compare with the ROW_NUMBER rewriting
            for op in [SetOp::Intersect, SetOp::Except] {
                let q = Query::set_op(op, true, sel(tn, false), sel(un, false));
                assert_eq!(q.to_sql(), format!("SELECT k FROM {tn} {} ALL SELECT k FROM {un}", op.sql()));
                let rewritten = format!(
                    "SELECT k FROM (SELECT k, ROW_NUMBER() OVER (PARTITION BY k) AS rn FROM {tn} {} SELECT k, ROW_NUMBER() OVER (PARTITION BY k) AS rn FROM {un})",
                    op.sql()
                );
                cx.check_with(&q, Some(rewritten));
            }
            // ORDER BY / LIMIT on a compound select
            let q = Query::set_op(SetOp::Union, true, sel(tn, false), sel(un, false)).order_by(vec![OrderKey::ordinal(1, true)]).limit(2);
            cx.check(&q);
            let q = Query::set_op(SetOp::Union, false, sel(tn, false), sel(un, false)).order_by(vec![OrderKey::asc(col("k"))]).limit(2).offset(1);
            cx.check(&q);
        }
    }
    // nested set operations (rendered through derived tables), over a subset of the tables
    for (an, _) in ts.iter().step_by(3) {
        for (bn, _) in us.iter().step_by(3) {
            for (cn, _) in ts.iter().step_by(4) {
                for op1 in SetOp::ALL {
                    for op2 in SetOp::ALL {
                        let inner = Query::set_op(op1, false, sel(an, false), sel(bn, false));
                        cx.check(&Query::set_op(op2, false, inner.clone(), sel(cn, false)));
                        cx.check(&Query::set_op(op2, false, sel(cn, false), inner));
                    }
                }
            }
        }
    }
    cx.finish("set operations", 5_000);
}

// ---------------------------------------------------------------------------
// 7. ORDER BY / LIMIT / OFFSET / DISTINCT (C15)
// ---------------------------------------------------------------------------

#[test]
fn order_limit_distinct() {
    let mut cx = Cx::new();
    // all multisets of size <= 3 over (a, b) in {NULL,1,2}^2, plus one 8-row table
    let vals = [N, i(1), i(2)];
    let mut dom = vec![];
    for a in &vals {
        for b in &vals {
            dom.push(vec![a.clone(), b.clone()]);
        }
    }
    let mut tables: Vec<Vec<Row>> = multisets(dom.len(), 3).into_iter().map(|m| m.into_iter().map(|k| dom[k].clone()).collect()).collect();
    tables.push(vec![vec![i(2), i(1)], vec![N, i(2)], vec![i(1), N], vec![i(2), i(1)], vec![i(1), i(1)], vec![N, N], vec![i(2), i(2)], vec![i(1), N]]);
    let orders: Vec<Vec<OrderKey>> = vec![
        vec![],
        vec![OrderKey::asc(col("a"))],
        vec![OrderKey::desc(col("a"))],
        vec![OrderKey::ordinal(2, false)],
        vec![OrderKey::ordinal(2, true)],
        vec![OrderKey::asc(col("a")), OrderKey::asc(col("b"))],
        vec![OrderKey::asc(col("a")), OrderKey::desc(col("b"))],
        vec![OrderKey::desc(col("a")), OrderKey::asc(col("b"))],
        vec![OrderKey::desc(col("a")), OrderKey::desc(col("b"))],
        vec![OrderKey::desc(col("b")), OrderKey::ordinal(1, false)],
    ];
    // keys that are not output columns (only without DISTINCT)
    let expr_orders: Vec<Vec<OrderKey>> = vec![vec![OrderKey::asc(add(col("a"), col("b")))], vec![OrderKey::desc(add(col("a"), int(1))), OrderKey::asc(col("b"))], vec![OrderKey::desc(mul(col("a"), col("b")))]];
    for rows in tables {
        let n = rows.len() as u64;
        cx.load("t", Table::new(&[("a", Ty::Int), ("b", Ty::Int)], rows));
        let mut limits: Vec<Option<u64>> = vec![None, Some(0), Some(1), Some(2), Some(n), Some(n + 1)];
        limits.dedup();
        let mut offsets: Vec<Option<u64>> = vec![None, Some(1), Some(n)];
        offsets.dedup();
        let mut run = |base: &Query, ob: &Vec<OrderKey>| {
            for l in &limits {
                for o in &offsets {
                    let mut q = base.clone().order_by(ob.clone());
                    q.limit = *l;
                    q.offset = *o;
                    cx.check(&q);
                }
            }
        };
        for ob in &orders {
            run(&Query::cols("t", vec![col("a"), col("b")]), ob);
            run(&Query::cols("t", vec![col("a"), col("b")]).distinct(), ob);
        }
        for ob in &expr_orders {
            run(&Query::cols("t", vec![col("a"), col("b")]), ob);
        }
        // DISTINCT on one column; ORDER BY an alias; GROUP BY + ORDER BY
        for desc in [false, true] {
            run(&Query::cols("t", vec![col("a")]).distinct(), &vec![OrderKey { by: OrderBy::Expr(col("a")), desc }]);
            run(&Query::select(vec![SelectItem::aliased(add(col("a"), col("b")), "s"), SelectItem::expr(col("b"))], From::table("t")), &vec![OrderKey { by: OrderBy::Expr(col("s")), desc }]);
            run(&Query::cols("t", vec![col("a"), count_star()]).group_by(vec![col("a")]), &vec![OrderKey { by: OrderBy::Ordinal(2), desc }, OrderKey::asc(col("a"))]);
        }
    }
    cx.finish("order/limit/distinct", 50_000);
}
