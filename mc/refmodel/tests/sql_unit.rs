//! Self-checks of `refmodel::sql` that do not need SQLite: hand-verified value tables,
//! SQL text goldens, and a brute-force validation of the ORDER BY / LIMIT acceptance
//! helpers against their definition (enumerating every permutation of small bags).
use refmodel::sql::expr::*;
use refmodel::sql::query::*;
use refmodel::sql::rel::*;
use refmodel::sql::{Schema, Ty};
use refmodel::val::{bag, Row, V};
use std::cmp::Ordering;
use std::collections::BTreeSet;

fn i(x: i64) -> V {
    V::Int(x)
}
fn s(x: &str) -> V {
    V::Text(x.to_string())
}
const N: V = V::Null;
const T: V = V::Bool(true);
const F: V = V::Bool(false);

fn ev(e: Expr) -> Result<V, EvalErr> {
    e.eval(&[], &Schema::default())
}

#[test]
fn kleene_tables() {
    let vals = [(T, Some(true)), (F, Some(false)), (N, None)];
    // the nine-entry tables written out by hand
    let and_t = [[Some(true), Some(false), None], [Some(false), Some(false), Some(false)], [None, Some(false), None]];
    let or_t = [[Some(true), Some(true), Some(true)], [Some(true), Some(false), None], [Some(true), None, None]];
    for (x, (a, _)) in vals.iter().enumerate() {
        for (y, (b, _)) in vals.iter().enumerate() {
            assert_eq!(truth(&ev(and(lit(a.clone()), lit(b.clone()))).unwrap()).unwrap(), and_t[x][y]);
            assert_eq!(truth(&ev(or(lit(a.clone()), lit(b.clone()))).unwrap()).unwrap(), or_t[x][y]);
        }
    }
    assert_eq!(ev(not(lit(T))), Ok(F));
    assert_eq!(ev(not(lit(F))), Ok(T));
    assert_eq!(ev(not(lit(N))), Ok(N));
    assert!(matches!(ev(and(int(1), lit(T))), Err(EvalErr::Type(_))));
}

#[test]
fn comparisons_and_null() {
    assert_eq!(ev(eq(int(1), null())), Ok(N));
    assert_eq!(ev(ne(null(), null())), Ok(N));
    assert_eq!(ev(eq(int(1), float(1.0))), Ok(T));
    assert_eq!(ev(lt(int(1), float(1.5))), Ok(T));
    assert_eq!(ev(gt(int(-1), float(-1.5))), Ok(T));
    // exact beyond 2^53: 9007199254740993 is not representable as f64
    assert_eq!(ev(gt(int(9007199254740993), float(9007199254740992.0))), Ok(T));
    assert_eq!(ev(eq(int(9007199254740993), float(9007199254740992.0))), Ok(F));
    assert_eq!(ev(lt(int(i64::MAX), float(9223372036854775808.0))), Ok(T));
    assert_eq!(ev(ge(int(i64::MIN), float(-9223372036854775808.0))), Ok(T));
    assert_eq!(ev(lt(text("B"), text("a"))), Ok(T)); // bytewise
    assert_eq!(ev(lt(text("a"), text("ab"))), Ok(T));
    assert_eq!(ev(lt(text(""), text("a"))), Ok(T));
    assert!(matches!(ev(eq(text("1"), int(1))), Err(EvalErr::Type(_))));
    assert_eq!(ev(is_null(eq(int(1), null()))), Ok(T));
    assert_eq!(ev(is_not_null(null())), Ok(F));
    assert_eq!(ev(eq(float(f64::NAN), float(f64::NAN))), Ok(N));
}

#[test]
fn in_between_like() {
    assert_eq!(ev(in_list(int(1), vec![int(2), int(1), null()])), Ok(T));
    assert_eq!(ev(in_list(int(3), vec![int(2), int(1), null()])), Ok(N));
    assert_eq!(ev(in_list(int(3), vec![int(2), int(1)])), Ok(F));
    assert_eq!(ev(in_list(null(), vec![int(2), int(1)])), Ok(N));
    assert_eq!(ev(in_list(null(), vec![])), Ok(F));
    assert_eq!(ev(not_in_list(int(1), vec![int(2), int(1), null()])), Ok(F));
    assert_eq!(ev(not_in_list(int(3), vec![int(2), null()])), Ok(N)); // never TRUE with a NULL in the list
    assert_eq!(ev(not_in_list(int(3), vec![int(2)])), Ok(T));
    assert_eq!(ev(between(int(2), int(1), int(3))), Ok(T));
    assert_eq!(ev(between(int(0), int(1), null())), Ok(F)); // FALSE AND NULL
    assert_eq!(ev(between(int(2), int(1), null())), Ok(N));
    assert_eq!(ev(not_between(int(0), int(1), null())), Ok(T));
    assert_eq!(ev(between(int(2), int(3), int(1))), Ok(F)); // not symmetric
    assert_eq!(ev(like(text("ab"), text("a%"))), Ok(T));
    assert_eq!(ev(like(text("AB"), text("a%"))), Ok(F)); // case sensitive
    assert_eq!(ev(like(text("ab"), text("a_"))), Ok(T));
    assert_eq!(ev(like(text("a"), text("a_"))), Ok(F));
    assert_eq!(ev(like(text(""), text("%"))), Ok(T));
    assert_eq!(ev(like(text("abc"), text("%b%"))), Ok(T));
    assert_eq!(ev(like(text("abc"), text("%b"))), Ok(F));
    assert_eq!(ev(like(text("é"), text("_"))), Ok(T)); // one character, two bytes
    assert_eq!(ev(like(null(), text("%"))), Ok(N));
    assert_eq!(ev(not_like(text("a"), null())), Ok(N));
    assert!(like_match("a%b", "a%b") && like_match("axxb", "a%b") && !like_match("axxbc", "a%b"));
}

#[test]
fn arithmetic() {
    assert_eq!(ev(add(int(1), int(2))), Ok(i(3)));
    assert_eq!(ev(add(int(i64::MAX), int(1))), Err(EvalErr::Overflow));
    assert_eq!(ev(sub(int(i64::MIN), int(1))), Err(EvalErr::Overflow));
    assert_eq!(ev(mul(int(i64::MAX), int(2))), Err(EvalErr::Overflow));
    assert_eq!(ev(div(int(i64::MIN), int(-1))), Err(EvalErr::Overflow));
    assert_eq!(ev(rem(int(i64::MIN), int(-1))), Ok(i(0)));
    assert_eq!(ev(neg(int(i64::MIN))), Err(EvalErr::Overflow));
    assert_eq!(ev(div(int(7), int(2))), Ok(i(3)));
    assert_eq!(ev(div(int(-7), int(2))), Ok(i(-3)));
    assert_eq!(ev(rem(int(-7), int(3))), Ok(i(-1)));
    assert_eq!(ev(rem(int(7), int(-3))), Ok(i(1)));
    assert_eq!(ev(div(int(1), int(0))), Err(EvalErr::DivZero));
    assert_eq!(ev(rem(int(1), int(0))), Err(EvalErr::DivZero));
    assert_eq!(ev(div(float(1.0), int(0))), Err(EvalErr::DivZero));
    assert_eq!(ev(div(int(7), float(2.0))), Ok(V::Float(3.5)));
    assert_eq!(ev(add(int(1), float(0.5))), Ok(V::Float(1.5)));
    assert_eq!(ev(rem(float(7.5), int(2))), Ok(V::Float(1.5)));
    assert_eq!(ev(add(int(1), null())), Ok(N));
    assert_eq!(ev(div(null(), int(0))), Ok(N)); // NULL operand wins over the zero divisor
    assert_eq!(ev(neg(null())), Ok(N));
    assert!(matches!(ev(add(text("a"), int(1))), Err(EvalErr::Type(_))));
    // no short circuit: the error surfaces even where an implementation could skip it
    assert_eq!(ev(or(lit(T), eq(div(int(1), int(0)), int(1)))), Err(EvalErr::DivZero));
}

#[test]
fn tolerances() {
    assert!(loosely_equal(&i(2), &V::Float(2.0)));
    assert!(!loosely_equal(&i(2), &V::Float(2.5)));
    assert!(loosely_equal(&V::Float(0.1 + 0.2), &V::Float(0.3)));
    assert!(!loosely_equal(&V::Float(0.3), &V::Float(0.3001)));
    assert!(loosely_equal(&N, &N));
    assert!(!loosely_equal(&N, &i(0)));
    assert!(!loosely_equal(&T, &i(1)));
    assert!(loosely_equal_bool(&T, &i(1)) && loosely_equal_bool(&F, &i(0)) && !loosely_equal_bool(&T, &i(0)) && !loosely_equal_bool(&N, &i(0)));
    assert!(bags_loosely_equal(&[vec![i(1)], vec![V::Float(2.0)]], &[vec![i(2)], vec![V::Float(1.0)]]));
    assert!(!bags_loosely_equal(&[vec![i(1)], vec![i(1)]], &[vec![i(1)], vec![i(2)]]));
}

#[test]
fn sql_text_goldens() {
    let e = and(or(eq(col("a"), int(-1)), not(is_null(col("t.b")))), not_in_list(col("c"), vec![text("it's"), null()]));
    assert_eq!(e.to_sql(), "(((a = (-1)) OR (NOT (t.b IS NULL))) AND (c NOT IN ('it''s', NULL)))");
    assert_eq!(not_between(col("a"), float(0.5), neg(col("b"))).to_sql(), "(a NOT BETWEEN 0.5 AND (-b))");
    assert_eq!(not_like(col("c"), text("a%")).to_sql(), "(c NOT LIKE 'a%')");
    assert_eq!(rem(div(mul(sub(add(col("a"), int(1)), int(2)), int(3)), int(4)), int(5)).to_sql(), "(((((a + 1) - 2) * 3) / 4) % 5)");
    assert_eq!(lit(V::Int(i64::MIN)).to_sql(), "(-9223372036854775807 - 1)");
    assert_eq!(lit(V::Float(2.0)).to_sql(), "2.0");
    assert_eq!(lit(V::Float(-0.5)).to_sql(), "(-0.5)");
    assert_eq!(lit(V::Blob(vec![0, 255])).to_sql(), "x'00ff'");
    assert_eq!(boolean(true).to_sql(), "TRUE");
    let sub = Query::cols("u", vec![col("k")]).where_(eq(col("u.k"), col("t.k")));
    assert_eq!(not_exists(sub.clone()).to_sql(), "(NOT EXISTS (SELECT k FROM u WHERE (u.k = t.k)))");
    assert_eq!(not_in_sub(col("k"), sub.clone()).to_sql(), "(k NOT IN (SELECT k FROM u WHERE (u.k = t.k)))");
    assert_eq!(scalar(Query::cols("u", vec![max(col("k"))])).to_sql(), "(SELECT MAX(k) FROM u)");
    let q = Query::select(
        vec![SelectItem::expr(col("l.k")), SelectItem::aliased(count_star(), "n")],
        From::table_as("a", "l").join(JoinKind::Left, From::table("r"), Some(eq(col("l.k"), col("r.k")))).join(JoinKind::Cross, From::derived(Query::star("m"), "d"), None),
    )
    .distinct()
    .where_(gt(col("l.k"), int(0)))
    .group_by(vec![col("l.k")])
    .having(gt(count_star(), int(1)))
    .order_by(vec![OrderKey::desc(col("n")), OrderKey::ordinal(1, false)])
    .limit(3)
    .offset(1);
    assert_eq!(
        q.to_sql(),
        "SELECT DISTINCT l.k, COUNT(*) AS n FROM a AS l LEFT JOIN r ON (l.k = r.k) CROSS JOIN (SELECT * FROM m) AS d WHERE (l.k > 0) GROUP BY l.k HAVING (COUNT(*) > 1) ORDER BY n DESC, 1 ASC LIMIT 3 OFFSET 1"
    );
    let u = Query::set_op(SetOp::Except, true, Query::set_op(SetOp::Union, false, Query::cols("a", vec![col("k")]), Query::cols("b", vec![col("k")])), Query::cols("c", vec![col("k")]));
    assert_eq!(u.to_sql(), "SELECT * FROM (SELECT k FROM a UNION SELECT k FROM b) AS _s1 EXCEPT ALL SELECT k FROM c");
    assert_eq!(Query::star("t").offset(2).to_sql(), "SELECT * FROM t LIMIT 9223372036854775807 OFFSET 2");
}

#[test]
fn trees_enumeration() {
    let atoms: Vec<Expr> = (0..3).map(|k| eq(col("a"), int(k))).collect();
    for depth in 0..=2 {
        let all: Vec<Expr> = trees(&atoms, depth).collect();
        assert_eq!(all.len() as u128, trees_count(3, depth), "count at depth {depth}");
        let set: BTreeSet<&Expr> = all.iter().collect();
        assert_eq!(set.len(), all.len(), "no duplicates at depth {depth}");
        assert!(all.windows(2).all(|w| w[0].bool_depth() <= w[1].bool_depth()), "simplest first");
        assert!(all.iter().all(|e| e.bool_depth() <= depth));
    }
    assert_eq!(trees_count(3, 0), 3);
    assert_eq!(trees_count(3, 1), 3 + 3 + 2 * 9);
    assert_eq!(trees_count(40, 1), 3280);
    assert_eq!(trees_count(40, 2), 3280 + 3240 + 2 * (3280 * 3280 - 40 * 40));
    // every tree of depth <= 2 over 2 atoms, by an independent recursive definition
    fn all_upto(atoms: &[Expr], d: usize) -> BTreeSet<Expr> {
        if d == 0 {
            return atoms.iter().cloned().collect();
        }
        let lower = all_upto(atoms, d - 1);
        let mut out = lower.clone();
        for x in &lower {
            out.insert(not(x.clone()));
            for y in &lower {
                out.insert(and(x.clone(), y.clone()));
                out.insert(or(x.clone(), y.clone()));
            }
        }
        out
    }
    let two = &atoms[..2];
    assert_eq!(trees(two, 2).collect::<BTreeSet<_>>(), all_upto(two, 2));
    assert_eq!(trees(&[], 2).count(), 0);
}

#[test]
fn atoms_are_well_typed_and_cover_the_grammar() {
    let schema = Schema::of(&[("a", Ty::Int), ("b", Ty::Real), ("c", Ty::Text)]);
    let all = atoms(&schema, &Consts::c14());
    let core = core_atoms(&schema, &Consts::c14());
    // every atom evaluates without a type error on every row of a small typed domain
    for a in all.iter().chain(core.iter()) {
        for x in [N, i(0), i(1)] {
            for y in [N, V::Float(0.5), V::Float(1.0)] {
                for z in [N, s("a"), s("ab")] {
                    let r = a.eval(&[x.clone(), y.clone(), z], &schema);
                    assert!(matches!(r, Ok(V::Bool(_)) | Ok(V::Null)), "{} -> {r:?}", a.to_sql());
                }
            }
        }
    }
    let sqls: Vec<String> = all.iter().map(|a| a.to_sql()).collect();
    for needle in ["(a = b)", "(a < 0)", "(a >= NULL)", "(0 <> a)", "(b <= 0.5)", "(c > 'a')", "(c IS NULL)", "(b IS NOT NULL)", "IN (0, NULL)", "NOT IN (", "(a BETWEEN 0 AND", "NOT BETWEEN NULL AND", "(c LIKE 'a%')", "(c NOT LIKE NULL)"] {
        assert!(sqls.iter().any(|s| s.contains(needle)), "no atom contains {needle}");
    }
    assert!(!sqls.iter().any(|s| s.contains("(a = c)") || s.contains("(c = 0)") || s.contains("(a LIKE")), "type-incompatible atom");
    assert!(core.iter().all(|c| all.contains(c)));
    // the core has one atom per operator x NULL-involvement class
    for op in CmpOp::ALL {
        for pat in [format!(" {} NULL)", op.sql()), format!(" {} b)", op.sql())] {
            assert!(core.iter().any(|c| c.to_sql().ends_with(&pat)), "core lacks {pat}");
        }
    }
}

// ---------------------------------------------------------------------------
// ORDER BY / LIMIT acceptance helpers against their definition
// ---------------------------------------------------------------------------

fn permutations(n: usize) -> Vec<Vec<usize>> {
    if n == 0 {
        return vec![vec![]];
    }
    let mut out = vec![];
    for p in permutations(n - 1) {
        for pos in 0..n {
            let mut q = p.clone();
            q.insert(pos, n - 1);
            out.push(q);
        }
    }
    out
}
fn multisets(n: usize, max: usize) -> Vec<Vec<usize>> {
    let mut out = vec![vec![]];
    let mut level: Vec<Vec<usize>> = vec![vec![]];
    for _ in 0..max {
        let mut next = vec![];
        for m in &level {
            for k in m.last().copied().unwrap_or(0)..n {
                let mut m2 = m.clone();
                m2.push(k);
                next.push(m2);
            }
        }
        out.extend(next.iter().cloned());
        level = next;
    }
    out
}

/// Definition: the acceptable answers are the windows of the orderings of the bag whose key
/// sequence never decreases.  Compare `accepts_window` / `window_kind` with it on every
/// permutation of every small bag.
fn brute_force(dom: &[(Row, Vec<V>)], max: usize, desc: &[bool]) -> usize {
    let mut cases = 0;
    for m in multisets(dom.len(), max) {
        let bagk: Vec<(Row, Vec<V>)> = m.iter().map(|&k| dom[k].clone()).collect();
        let n = bagk.len();
        let perms = permutations(n);
        let valid: Vec<&Vec<usize>> = perms.iter().filter(|p| p.windows(2).all(|w| cmp_keys(&bagk[w[0]].1, &bagk[w[1]].1, desc) != Ordering::Greater)).collect();
        assert!(!valid.is_empty());
        let mut sorted_keys: Vec<Vec<V>> = bagk.iter().map(|b| b.1.clone()).collect();
        sorted_keys.sort_by(|a, b| cmp_keys(a, b, desc));
        for off in 0..=(n as u64 + 1) {
            for lim in [None, Some(0), Some(1), Some(2), Some(3), Some(n as u64), Some(n as u64 + 1)] {
                let slice = |p: &Vec<usize>| -> Vec<Row> {
                    let s = (off as usize).min(n);
                    let e = match lim {
                        None => n,
                        Some(l) => (s + l as usize).min(n),
                    };
                    p[s..e].iter().map(|&k| bagk[k].0.clone()).collect()
                };
                let ok: BTreeSet<Vec<Row>> = valid.iter().map(|p| slice(p)).collect();
                for p in &perms {
                    let cand = slice(p);
                    let got = accepts_window(&bagk, desc, off, lim, &cand, &|a, b| a == b).is_ok();
                    assert_eq!(got, ok.contains(&cand), "bag {bagk:?} desc {desc:?} off {off} lim {lim:?} candidate {cand:?}");
                    cases += 1;
                }
                let bags: BTreeSet<Vec<Row>> = ok.iter().map(|w| bag(w)).collect();
                let kind = window_kind(&sorted_keys, desc, off, lim);
                // Exact must imply a single correct bag (the converse fails only when tied rows are identical)
                if kind == Window::Exact {
                    assert_eq!(bags.len(), 1, "bag {bagk:?} off {off} lim {lim:?} classified Exact");
                }
                if bags.len() > 1 {
                    assert_eq!(kind, Window::TieAmbiguous);
                }
                // wrong length / foreign row are rejected
                let mut extra = slice(valid[0]);
                extra.push(vec![s("zz")]);
                assert!(accepts_window(&bagk, desc, off, lim, &extra, &|a, b| a == b).is_err());
            }
        }
    }
    cases
}

#[test]
fn order_and_window_acceptance_matches_definition() {
    // rows (key, payload) where the key is also the sort key; payload distinguishes tied rows
    let mut dom1 = vec![];
    for k in [N, i(1), i(2)] {
        for p in ["x", "y"] {
            dom1.push((vec![k.clone(), s(p)], vec![k.clone()]));
        }
    }
    let mut cases = brute_force(&dom1, 5, &[false]);
    cases += brute_force(&dom1, 4, &[true]);
    // two keys, mixed directions; the second key is NOT an output column
    let mut dom2 = vec![];
    for a in [N, i(1)] {
        for b in [N, i(1), i(2)] {
            dom2.push((vec![a.clone(), s(&format!("p{}", dom2.len() % 2))], vec![a.clone(), b.clone()]));
        }
    }
    cases += brute_force(&dom2, 4, &[false, true]);
    cases += brute_force(&dom2, 4, &[true, false]);
    // no ORDER BY: any sub-bag of the right size
    let dom3: Vec<(Row, Vec<V>)> = dom1.iter().map(|(r, _)| (r.clone(), vec![])).collect();
    cases += brute_force(&dom3, 4, &[]);
    println!("order/window brute force: {cases} candidate answers checked");
    assert!(cases > 1_000_000);
}

#[test]
fn order_check_and_null_placement() {
    let rows = vec![vec![N, i(5)], vec![i(1), i(4)], vec![i(1), i(3)], vec![i(2), N]];
    assert!(order_check(&rows, &[(0, false)]));
    assert!(!order_check(&rows, &[(0, true)]));
    assert!(order_check(&rows, &[(0, false), (1, true)]));
    assert!(!order_check(&rows, &[(0, false), (1, false)]));
    let mut rev = rows.clone();
    rev.reverse();
    assert!(order_check(&rev, &[(0, true)])); // NULL last descending
    assert_eq!(total_cmp(&N, &i(i64::MIN)), Ordering::Less);
    assert_eq!(total_cmp(&i(1), &V::Float(1.0)), Ordering::Equal);
    assert_eq!(total_cmp(&N, &N), Ordering::Equal);
}

// ---------------------------------------------------------------------------
// query semantics spot checks (the bulk is in sqlite_crosscheck.rs)
// ---------------------------------------------------------------------------

fn small_db() -> Database {
    Database::new()
        .with("t", Table::new(&[("k", Ty::Int), ("v", Ty::Text)], vec![vec![i(1), s("a")], vec![N, s("b")], vec![i(2), s("c")], vec![i(2), s("d")]]))
        .with("u", Table::new(&[("k", Ty::Int)], vec![vec![i(1)], vec![N]]))
        .with("e", Table::new(&[("k", Ty::Int)], vec![]))
}

#[test]
fn query_semantics() {
    let db = small_db();
    let rows = |q: Query| bag(&q.eval(&db).unwrap().rows);
    // NOT IN with a NULL in the subquery is never TRUE
    assert_eq!(rows(Query::cols("t", vec![col("v")]).where_(not_in_sub(col("k"), Query::cols("u", vec![col("k")])))), Vec::<Row>::new());
    // ... but over an empty subquery it is TRUE even for NULL
    assert_eq!(rows(Query::cols("t", vec![col("v")]).where_(not_in_sub(col("k"), Query::cols("e", vec![col("k")])))).len(), 4);
    // aggregates over the empty table
    assert_eq!(rows(Query::cols("e", vec![count_star(), count(col("k")), sum(col("k")), avg(col("k")), min(col("k")), max(col("k"))])), vec![vec![i(0), i(0), N, N, N, N]]);
    // ... and no row at all with GROUP BY
    assert_eq!(rows(Query::cols("e", vec![col("k"), count_star()]).group_by(vec![col("k")])), Vec::<Row>::new());
    // NULLs form one group; AVG is a float; SUM of integers an integer
    assert_eq!(rows(Query::cols("t", vec![col("k"), count_star(), sum(col("k")), avg(col("k"))]).group_by(vec![col("k")])), vec![vec![N, i(1), N, N], vec![i(1), i(1), i(1), V::Float(1.0)], vec![i(2), i(2), i(4), V::Float(2.0)]]);
    // correlated scalar COUNT(*) is 0, not NULL, for rows without a match
    let c = scalar(Query::cols("u", vec![count_star()]).where_(eq(col("u.k"), col("t.k"))));
    assert_eq!(rows(Query::cols("t", vec![col("v"), c])), vec![vec![s("a"), i(1)], vec![s("b"), i(0)], vec![s("c"), i(0)], vec![s("d"), i(0)]]);
    // scalar subquery with two rows is an error; with none NULL
    assert_eq!(Query::cols("t", vec![scalar(Query::cols("u", vec![col("k")]))]).eval(&db), Err(EvalErr::ScalarSubqueryRows));
    assert_eq!(rows(Query::cols("u", vec![scalar(Query::cols("e", vec![col("k")]))])), vec![vec![N], vec![N]]);
    // non-grouped column
    assert!(matches!(Query::cols("t", vec![col("v"), count_star()]).group_by(vec![col("k")]).eval(&db), Err(EvalErr::NotGrouped(_))));
    // ambiguous / unknown names
    let j = Query::select(vec![SelectItem::expr(col("k"))], From::table("t").join(JoinKind::Inner, From::table("u"), Some(eq(col("t.k"), col("u.k")))));
    assert!(matches!(j.eval(&db), Err(EvalErr::AmbiguousColumn(_))));
    assert!(matches!(Query::cols("t", vec![col("zz")]).eval(&db), Err(EvalErr::NoSuchColumn(_))));
    assert!(matches!(Query::star("zz").eval(&db), Err(EvalErr::NoSuchTable(_))));
    // SUM overflow is an error
    let big = Database::new().with("b", Table::new(&[("x", Ty::BigInt)], vec![vec![i(i64::MAX)], vec![i(1)]]));
    assert_eq!(Query::cols("b", vec![sum(col("x"))]).eval(&big), Err(EvalErr::Overflow));
    assert_eq!(bag(&Query::cols("b", vec![avg(col("x"))]).eval(&big).unwrap().rows), vec![vec![V::Float(4611686018427387904.0)]]);
    // set operations: bag arithmetic
    let l = vec![vec![i(1)], vec![i(1)], vec![i(1)], vec![N], vec![N], vec![i(2)]];
    let r = vec![vec![i(1)], vec![N], vec![N], vec![N], vec![i(3)]];
    assert_eq!(bag(&set_op(SetOp::Intersect, true, l.clone(), r.clone())), vec![vec![N], vec![N], vec![i(1)]]);
    assert_eq!(bag(&set_op(SetOp::Except, true, l.clone(), r.clone())), vec![vec![i(1)], vec![i(1)], vec![i(2)]]);
    assert_eq!(bag(&set_op(SetOp::Intersect, false, l.clone(), r.clone())), vec![vec![N], vec![i(1)]]);
    assert_eq!(bag(&set_op(SetOp::Except, false, l.clone(), r.clone())), vec![vec![i(2)]]);
    assert_eq!(bag(&set_op(SetOp::Union, false, l.clone(), r.clone())), vec![vec![N], vec![i(1)], vec![i(2)], vec![i(3)]]);
    assert_eq!(set_op(SetOp::Union, true, l, r).len(), 11);
}

// ---------------------------------------------------------------------------
// rel
// ---------------------------------------------------------------------------

fn ok(st: &mut State, s: Stmt) -> Outcome {
    match s.apply(st) {
        Ok(o) => o,
        Err(e) => panic!("{} failed: {e:?}", s.to_sql()),
    }
}
fn err(st: &mut State, s: Stmt) -> ModelErr {
    let before = st.clone();
    match s.apply(st) {
        Ok(o) => panic!("{} succeeded: {o:?}", s.to_sql()),
        Err(e) => {
            assert_eq!(*st, before, "failed statement changed the state: {}", s.to_sql());
            e
        }
    }
}
fn affected(o: Outcome) -> usize {
    match o {
        Outcome::Affected { count, .. } => count,
        o => panic!("{o:?}"),
    }
}
fn ins(table: &str, cols: &[&str], rows: Vec<Row>) -> Stmt {
    Stmt::Insert(Insert::literals(table, cols, rows))
}

fn schema_pc(on_delete: OnDelete) -> State {
    let mut st = State::new();
    ok(&mut st, Stmt::CreateTable(CreateTable::new(TableDef::new("p").col(ColumnDef::new("id", Ty::Int).primary_key()).col(ColumnDef::new("v", Ty::Int).unique()))));
    ok(
        &mut st,
        Stmt::CreateTable(CreateTable::new(
            TableDef::new("c")
                .col(ColumnDef::new("id", Ty::Int).primary_key())
                .col(ColumnDef::new("pid", Ty::Int).references("p", "id", on_delete))
                .col(ColumnDef::new("a", Ty::Int).not_null().default(i(7)))
                .col(ColumnDef::new("b", Ty::Int).check(gt(col("b"), int(0)))),
        )),
    );
    st
}

#[test]
fn rel_constraints() {
    let mut st = schema_pc(OnDelete::Restrict);
    assert_eq!(st.tables["c"].def.to_sql(false), "CREATE TABLE c (id INT PRIMARY KEY, pid INT REFERENCES p(id) ON DELETE RESTRICT, a INT NOT NULL DEFAULT 7, b INT CHECK (b > 0))");
    assert_eq!(affected(ok(&mut st, ins("p", &[], vec![vec![i(1), N], vec![i(2), N], vec![i(3), i(10)]]))), 3); // NULLs never collide
    assert_eq!(err(&mut st, ins("p", &[], vec![vec![i(4), i(10)]])), ModelErr::ConstraintUnique("p(v)".into()));
    assert_eq!(err(&mut st, ins("p", &[], vec![vec![i(4), N], vec![i(1), N]])).class(), "pk"); // second row fails: nothing kept
    assert_eq!(err(&mut st, ins("p", &[], vec![vec![N, N]])).class(), "notnull"); // PK implies NOT NULL
    assert_eq!(err(&mut st, ins("p", &[], vec![vec![s("x"), N]])).class(), "type");
    assert_eq!(err(&mut st, ins("p", &[], vec![vec![i(1)]])).class(), "arity");
    assert_eq!(err(&mut st, ins("p", &["zz"], vec![vec![i(1)]])).class(), "nosuchcolumn");
    assert_eq!(err(&mut st, ins("zz", &[], vec![vec![i(1)]])).class(), "nosuchtable");
    assert_eq!(err(&mut st, ins("p", &[], vec![vec![i(3_000_000_000), N]])).class(), "type"); // INT is 32 bit
    // child: default, CHECK (NULL passes, FALSE fails), NOT NULL, FK (NULL passes)
    assert_eq!(
        ok(&mut st, Stmt::Insert(Insert::literals("c", &["id", "pid", "b"], vec![vec![i(1), i(1), i(5)], vec![i(2), N, N]]).returning_all())),
        Outcome::Affected { count: 2, returning: Some(vec![vec![i(1), i(1), i(7), i(5)], vec![i(2), N, i(7), N]]), generated: vec![] }
    );
    assert_eq!(err(&mut st, ins("c", &["id", "pid", "b"], vec![vec![i(3), i(1), i(0)]])).class(), "check");
    assert_eq!(err(&mut st, ins("c", &["id", "a"], vec![vec![i(3), N]])).class(), "notnull");
    assert_eq!(err(&mut st, ins("c", &["id", "pid"], vec![vec![i(3), i(9)]])).class(), "fk");
    // RESTRICT: referenced parent cannot go, unreferenced can; key of a referenced parent cannot change
    assert_eq!(err(&mut st, Stmt::Delete(Delete::new("p", Some(eq(col("id"), int(1)))))).class(), "fk");
    assert_eq!(err(&mut st, Stmt::Delete(Delete::new("p", None))).class(), "fk");
    assert_eq!(err(&mut st, Stmt::Truncate { table: "p".into() }).class(), "fk");
    assert_eq!(err(&mut st, Stmt::Update(Update::new("p", vec![("id", int(9))], Some(eq(col("id"), int(1)))))).class(), "fk");
    assert_eq!(affected(ok(&mut st, Stmt::Delete(Delete::new("p", Some(eq(col("id"), int(2))))))), 1);
    assert_eq!(affected(ok(&mut st, Stmt::Delete(Delete::new("p", Some(eq(col("id"), int(2))))))), 0); // deleted rows stay deleted
    // UPDATE: end-of-statement uniqueness (a key permutation is legal), old-row evaluation, atomicity
    ok(&mut st, Stmt::Delete(Delete::new("c", None)));
    assert_eq!(affected(ok(&mut st, Stmt::Update(Update::new("p", vec![("id", sub(int(4), col("id")))], None)))), 2); // 1<->3
    assert_eq!(st.observe()["p"], vec![vec![i(1), i(10)], vec![i(3), N]]);
    assert_eq!(err(&mut st, Stmt::Update(Update::new("p", vec![("id", int(5))], None))).class(), "pk");
    let o = ok(&mut st, Stmt::Update(Update::new("p", vec![("id", col("v")), ("v", col("id"))], Some(eq(col("id"), int(1)))).returning(vec![col("id"), add(col("v"), int(1))])));
    assert_eq!(o, Outcome::Affected { count: 1, returning: Some(vec![vec![i(10), i(2)]]), generated: vec![] }); // swap through the OLD row
    assert_eq!(affected(ok(&mut st, Stmt::Update(Update::new("p", vec![("v", col("v"))], Some(is_null(col("v"))))))), 1); // matched, unchanged
    assert_eq!(affected(ok(&mut st, Stmt::Update(Update::new("p", vec![("v", int(0))], Some(eq(col("v"), null())))))), 0); // UNKNOWN matches nothing
    assert!(st.validate().is_ok());
}

#[test]
fn rel_cascade_and_transactions() {
    let mut st = schema_pc(OnDelete::Cascade);
    // grandchild cascades transitively
    ok(&mut st, Stmt::CreateTable(CreateTable::new(TableDef::new("g").col(ColumnDef::new("id", Ty::Int)).col(ColumnDef::new("cid", Ty::Int)).foreign_key(&["cid"], "c", &["id"], OnDelete::Cascade))));
    ok(&mut st, ins("p", &[], vec![vec![i(1), N], vec![i(2), N]]));
    ok(&mut st, ins("c", &["id", "pid"], vec![vec![i(10), i(1)], vec![i(11), i(1)], vec![i(12), i(2)], vec![i(13), N]]));
    ok(&mut st, ins("g", &[], vec![vec![i(100), i(10)], vec![i(101), i(12)]]));
    ok(&mut st, Stmt::Begin);
    assert_eq!(err(&mut st, Stmt::Begin).class(), "txn");
    ok(&mut st, Stmt::Savepoint("s1".into()));
    let o = ok(&mut st, Stmt::Delete(Delete::new("p", Some(eq(col("id"), int(1)))).returning(vec![col("id")])));
    assert_eq!(o, Outcome::Affected { count: 1, returning: Some(vec![vec![i(1)]]), generated: vec![] }); // cascaded rows are not counted
    assert_eq!(st.observe()["c"], vec![vec![i(12), i(2), i(7), N], vec![i(13), N, i(7), N]]);
    assert_eq!(st.observe()["g"], vec![vec![i(101), i(12)]]);
    ok(&mut st, Stmt::Savepoint("s2".into()));
    assert_eq!(affected(ok(&mut st, Stmt::Truncate { table: "p".into() })), 1);
    assert_eq!(st.rows("g"), Vec::<Row>::new());
    assert_eq!(st.savepoints(), vec!["s1".to_string(), "s2".to_string()]);
    ok(&mut st, Stmt::RollbackTo("s1".into()));
    assert_eq!(st.savepoints(), vec!["s1".to_string()]); // s1 survives, s2 is gone
    assert_eq!(st.rows("c").len(), 4);
    assert_eq!(st.rows("g").len(), 2);
    assert_eq!(err(&mut st, Stmt::RollbackTo("s2".into())).class(), "txn");
    ok(&mut st, Stmt::Delete(Delete::new("g", None)));
    ok(&mut st, Stmt::Release("s1".into()));
    assert_eq!(err(&mut st, Stmt::Release("s1".into())).class(), "txn");
    assert_eq!(st.rows("g").len(), 0); // RELEASE keeps the changes
    ok(&mut st, Stmt::Rollback);
    assert_eq!(st.rows("g").len(), 2);
    assert!(!st.in_transaction());
    for s in [Stmt::Commit, Stmt::Rollback, Stmt::Savepoint("x".into()), Stmt::Release("x".into()), Stmt::RollbackTo("x".into())] {
        assert_eq!(err(&mut st, s).class(), "txn");
    }
    ok(&mut st, Stmt::Begin);
    ok(&mut st, Stmt::Delete(Delete::new("g", None)));
    ok(&mut st, Stmt::Commit);
    assert_eq!(st.rows("g").len(), 0);
    // DROP TABLE of a referenced table
    assert_eq!(err(&mut st, Stmt::DropTable { table: "p".into(), if_exists: false }).class(), "dependent");
    ok(&mut st, Stmt::DropTable { table: "g".into(), if_exists: false });
    ok(&mut st, Stmt::DropTable { table: "g".into(), if_exists: true });
    assert_eq!(err(&mut st, Stmt::DropTable { table: "g".into(), if_exists: false }).class(), "nosuchtable");
}

#[test]
fn rel_auto_increment() {
    let mut st = State::new();
    ok(&mut st, Stmt::CreateTable(CreateTable::new(TableDef::new("t").col(ColumnDef::new("id", Ty::BigInt).primary_key().auto_increment()).col(ColumnDef::new("x", Ty::Int)))));
    assert_eq!(st.tables["t"].def.to_sql(true), "CREATE TABLE IF NOT EXISTS t (id BIGINT PRIMARY KEY AUTO_INCREMENT, x INT)");
    let gen = |o: Outcome| match o {
        Outcome::Affected { generated, .. } => generated,
        o => panic!("{o:?}"),
    };
    assert_eq!(gen(ok(&mut st, ins("t", &["x"], vec![vec![i(0)], vec![i(0)]]))), vec![1, 2]);
    // explicit id equal to the value the next omitted one would get, inside one statement
    assert_eq!(gen(ok(&mut st, Stmt::Insert(Insert::values("t", &["id", "x"], vec![vec![int(3), int(0)], vec![null(), int(0)], vec![int(10), int(0)], vec![null(), int(0)]])))), vec![4, 11]);
    ok(&mut st, Stmt::Delete(Delete::new("t", Some(ge(col("id"), int(10))))));
    assert_eq!(gen(ok(&mut st, ins("t", &["x"], vec![vec![i(0)]]))), vec![12]); // deleting the maximum does not recycle it
    ok(&mut st, Stmt::Truncate { table: "t".into() });
    assert_eq!(gen(ok(&mut st, ins("t", &["x"], vec![vec![i(0)]]))), vec![13]);
    ok(&mut st, Stmt::Begin);
    assert_eq!(gen(ok(&mut st, ins("t", &["x"], vec![vec![i(0)]]))), vec![14]);
    ok(&mut st, Stmt::Rollback);
    assert_eq!(st.rows("t").len(), 1);
    assert_eq!(gen(ok(&mut st, ins("t", &["x"], vec![vec![i(0)]]))), vec![15]); // the rolled-back 14 was held once
    ok(&mut st, Stmt::Update(Update::new("t", vec![("id", int(40))], Some(eq(col("id"), int(15))))));
    assert_eq!(gen(ok(&mut st, ins("t", &["x"], vec![vec![i(0)]]))), vec![41]);
    assert_eq!(err(&mut st, ins("t", &["id", "x"], vec![vec![i(41), i(0)]])).class(), "pk");
}

#[test]
fn rel_ddl() {
    let mut st = State::new();
    ok(&mut st, Stmt::CreateTable(CreateTable::new(TableDef::new("t").col(ColumnDef::new("id", Ty::Int)).col(ColumnDef::new("a", Ty::Int)).primary_key(&["id"]).check(gt(col("a"), int(0))).unique(&["a"]))));
    assert_eq!(st.tables["t"].def.to_sql(false), "CREATE TABLE t (id INT, a INT, PRIMARY KEY (id), UNIQUE (a), CHECK (a > 0))");
    assert_eq!(err(&mut st, Stmt::CreateTable(CreateTable::new(TableDef::new("t")))).class(), "tableexists");
    ok(&mut st, Stmt::CreateTable(CreateTable { def: TableDef::new("t"), if_not_exists: true }));
    ok(&mut st, ins("t", &[], vec![vec![i(1), i(5)], vec![i(2), i(6)]]));
    // ADD COLUMN: default visible on old rows, NULL without default
    let add = |name: &str, d: Option<V>| Stmt::AddColumn { table: "t".into(), column: ColumnDef { default: d, ..ColumnDef::new(name, Ty::Int) } };
    assert_eq!(add("z", Some(i(5))).to_sql(), "ALTER TABLE t ADD COLUMN z INT DEFAULT 5");
    ok(&mut st, add("z", Some(i(5))));
    ok(&mut st, add("y", None));
    assert_eq!(st.rows("t"), vec![vec![i(1), i(5), i(5), N], vec![i(2), i(6), i(5), N]]);
    assert_eq!(err(&mut st, add("y", None)).class(), "columnexists");
    assert_eq!(err(&mut st, Stmt::AddColumn { table: "t".into(), column: ColumnDef::new("w", Ty::Int).not_null() }).class(), "notnull");
    ok(&mut st, ins("t", &["id", "a"], vec![vec![i(3), i(7)]])); // new rows get the default too
    assert_eq!(st.rows("t")[2], vec![i(3), i(7), i(5), N]);
    // RENAME: values follow, constraints follow
    ok(&mut st, Stmt::RenameColumn { table: "t".into(), from: "a".into(), to: "aa".into() });
    assert_eq!(st.tables["t"].def.to_sql(false), "CREATE TABLE t (id INT, aa INT, z INT DEFAULT 5, y INT, PRIMARY KEY (id), UNIQUE (aa), CHECK (aa > 0))");
    assert_eq!(err(&mut st, ins("t", &["id", "aa"], vec![vec![i(4), i(0)]])).class(), "check");
    assert_eq!(err(&mut st, ins("t", &["id", "aa"], vec![vec![i(4), i(7)]])).class(), "unique");
    assert_eq!(err(&mut st, ins("t", &["id", "a"], vec![vec![i(4), i(8)]])).class(), "nosuchcolumn");
    assert_eq!(err(&mut st, Stmt::RenameColumn { table: "t".into(), from: "aa".into(), to: "z".into() }).class(), "columnexists");
    // DROP COLUMN: other columns untouched; constrained columns are refused
    ok(&mut st, Stmt::DropColumn { table: "t".into(), column: "z".into() });
    assert_eq!(st.rows("t"), vec![vec![i(1), i(5), N], vec![i(2), i(6), N], vec![i(3), i(7), N]]);
    assert_eq!(err(&mut st, Stmt::DropColumn { table: "t".into(), column: "aa".into() }).class(), "dependent");
    assert_eq!(err(&mut st, Stmt::DropColumn { table: "t".into(), column: "zz".into() }).class(), "nosuchcolumn");
    // indexes: only UNIQUE has a meaning
    ok(&mut st, Stmt::Update(Update::new("t", vec![("y", int(1))], Some(le(col("id"), int(2))))));
    assert_eq!(Stmt::CreateIndex(CreateIndex::new("iy", "t", &["y"], true)).to_sql(), "CREATE UNIQUE INDEX iy ON t (y)");
    assert_eq!(err(&mut st, Stmt::CreateIndex(CreateIndex::new("iy", "t", &["y"], true))).class(), "unique");
    ok(&mut st, Stmt::CreateIndex(CreateIndex::new("iy", "t", &["y"], false)));
    assert_eq!(err(&mut st, Stmt::CreateIndex(CreateIndex::new("iy", "t", &["y"], false))).class(), "indexexists");
    ok(&mut st, Stmt::DropIndex { index: "iy".into(), if_exists: false });
    assert_eq!(err(&mut st, Stmt::DropIndex { index: "iy".into(), if_exists: false }).class(), "nosuchindex");
    ok(&mut st, Stmt::Update(Update::new("t", vec![("y", col("id"))], None)));
    ok(&mut st, Stmt::CreateIndex(CreateIndex::new("iy", "t", &["y"], true)));
    assert_eq!(err(&mut st, Stmt::Update(Update::new("t", vec![("y", int(1))], Some(eq(col("id"), int(2)))))).class(), "unique");
    assert_eq!(err(&mut st, Stmt::DropColumn { table: "t".into(), column: "y".into() }).class(), "dependent");
    ok(&mut st, Stmt::DropIndex { index: "iy".into(), if_exists: false });
    ok(&mut st, Stmt::Update(Update::new("t", vec![("y", int(1))], None)));
    // SELECT through the state
    match ok(&mut st, Stmt::Select(Query::cols("t", vec![count_star(), sum(col("aa"))]))) {
        Outcome::Rows(r) => assert_eq!(r.rows, vec![vec![i(3), i(18)]]),
        o => panic!("{o:?}"),
    }
    // DML with a subquery in WHERE
    let o = ok(&mut st, Stmt::Delete(Delete::new("t", Some(eq(col("aa"), scalar(Query::cols("t", vec![max(col("aa"))])))))));
    assert_eq!(affected(o), 1);
    assert_eq!(st.rows("t").len(), 2);
}

// ---------------------------------------------------------------------------
// catalogue of every construct's SQL text, for feeding TurDB's parser:
//   cargo test -q -p refmodel --test sql_unit dump_sql_catalogue -- --ignored --nocapture | grep '^SQL: ' | sed 's/^SQL: //'
// ---------------------------------------------------------------------------

#[test]
#[ignore]
fn dump_sql_catalogue() {
    let mut out: Vec<String> = vec![];
    let p = TableDef::new("p").col(ColumnDef::new("id", Ty::Int).primary_key()).col(ColumnDef::new("v", Ty::Text).unique());
    let t = TableDef::new("t")
        .col(ColumnDef::new("id", Ty::BigInt).primary_key().auto_increment())
        .col(ColumnDef::new("a", Ty::Int).not_null().default(i(7)))
        .col(ColumnDef::new("b", Ty::Real).default(V::Float(-1.5)))
        .col(ColumnDef::new("f", Ty::Float))
        .col(ColumnDef::new("c", Ty::Text).unique().default(s("x")))
        .col(ColumnDef::new("d", Ty::Blob))
        .col(ColumnDef::new("e", Ty::Bool).default(V::Bool(true)))
        .col(ColumnDef::new("g", Ty::Int).check(gt(col("g"), int(0))))
        .col(ColumnDef::new("h", Ty::Int).references("p", "id", OnDelete::Cascade));
    let u = TableDef::new("u")
        .col(ColumnDef::new("k", Ty::Int))
        .col(ColumnDef::new("w", Ty::Int))
        .primary_key(&["k", "w"])
        .unique(&["w"])
        .check(and(ge(col("k"), int(0)), lt(col("k"), int(10))))
        .foreign_key(&["w"], "p", &["id"], OnDelete::Restrict);
    for d in [p, t, u] {
        out.push(Stmt::CreateTable(CreateTable::new(d.clone())).to_sql());
        out.push(Stmt::CreateTable(CreateTable { def: d, if_not_exists: true }).to_sql());
    }
    out.push(Stmt::Insert(Insert::literals("p", &[], vec![vec![i(1), s("a")], vec![i(2), s("it's")]])).to_sql());
    out.push(Stmt::Insert(Insert::literals("t", &["a", "b", "f", "c", "d", "e", "g", "h"], vec![vec![i(-1), V::Float(0.5), V::Float(2.0), s("q"), V::Blob(vec![0, 255]), V::Bool(false), i(1), i(1)], vec![i(2), N, N, N, N, N, N, N]])
        .returning_all())
    .to_sql());
    out.push(Stmt::Insert(Insert::values("u", &["k", "w"], vec![vec![int(1), int(1)], vec![add(int(1), int(1)), int(2)]]).returning(vec![col("k"), add(col("w"), int(1))])).to_sql());
    let e_all = vec![
        eq(col("a"), int(1)),
        ne(col("a"), int(-1)),
        lt(col("b"), float(0.5)),
        le(col("a"), col("b")),
        gt(col("c"), text("a")),
        ge(col("a"), null()),
        and(gt(col("a"), int(0)), or(is_null(col("b")), not(is_not_null(col("c"))))),
        in_list(col("a"), vec![int(1), null()]),
        not_in_list(col("c"), vec![text("a"), text("b")]),
        between(col("a"), int(0), int(2)),
        not_between(col("b"), null(), float(1.0)),
        like(col("c"), text("a%")),
        not_like(col("c"), text("_b")),
        like(col("c"), null()),
        eq(add(col("a"), int(1)), sub(mul(col("a"), int(2)), rem(div(col("a"), int(2)), int(3)))),
        lt(neg(col("a")), neg(add(col("a"), col("b")))),
        eq(col("e"), boolean(true)),
        eq(col("d"), lit(V::Blob(vec![1, 2]))),
        eq(col("a"), lit(i(i64::MIN))),
        is_null(eq(col("a"), int(1))),
    ];
    for e in &e_all {
        out.push(Query::cols("t", vec![col("id")]).where_(e.clone()).to_sql());
        out.push(Query::cols("t", vec![col("id"), e.clone()]).to_sql());
    }
    let sub = Query::cols("u", vec![col("k")]).where_(eq(col("u.k"), col("t.a")));
    for e in [in_sub(col("a"), sub.clone()), not_in_sub(col("a"), sub.clone()), exists(sub.clone()), not_exists(sub.clone()), eq(col("a"), scalar(Query::cols("u", vec![max(col("k"))]))), is_null(scalar(sub.clone()))] {
        out.push(Query::cols("t", vec![col("id")]).where_(e.clone()).to_sql());
        out.push(Query::select(vec![SelectItem::expr(col("id")), SelectItem::aliased(e, "r")], From::table("t")).to_sql());
    }
    for kind in JoinKind::ALL {
        let on = if kind == JoinKind::Cross { None } else { Some(and(eq(col("x.a"), col("y.k")), gt(col("y.w"), int(0)))) };
        out.push(Query::select(vec![SelectItem::expr(col("x.id")), SelectItem::expr(col("y.w"))], From::table_as("t", "x").join(kind, From::table_as("u", "y"), on)).where_(is_not_null(col("x.a"))).to_sql());
    }
    out.push(Query::select(vec![SelectItem::Star(None)], From::table("t").join(JoinKind::Left, From::table("u"), Some(eq(col("t.a"), col("u.k")))).join(JoinKind::Inner, From::table("p"), Some(eq(col("u.w"), col("p.id"))))).to_sql());
    out.push(Query::select(vec![SelectItem::Star(Some("t".into())), SelectItem::expr(col("d.n"))], From::table("t").join(JoinKind::Inner, From::derived(Query::select(vec![SelectItem::expr(col("k")), SelectItem::aliased(count_star(), "n")], From::table("u")).group_by(vec![col("k")]), "d"), Some(eq(col("t.a"), col("d.k"))))).to_sql());
    let aggs = vec![count_star(), count(col("a")), sum(col("a")), avg(col("b")), min(col("c")), max(add(col("a"), int(1)))];
    out.push(Query::cols("t", aggs.clone()).to_sql());
    let mut items = vec![col("a")];
    items.extend(aggs);
    out.push(Query::cols("t", items).where_(gt(col("a"), int(0))).group_by(vec![col("a")]).having(gt(count_star(), int(1))).order_by(vec![OrderKey::desc(count_star()), OrderKey::ordinal(1, false)]).limit(5).offset(1).to_sql());
    out.push(Query::select(vec![SelectItem::aliased(add(col("a"), int(1)), "k"), SelectItem::aliased(count_star(), "n")], From::table("t")).group_by(vec![add(col("a"), int(1)), col("c")]).to_sql());
    out.push(Query::cols("t", vec![col("a"), col("c")]).distinct().order_by(vec![OrderKey::asc(col("a")), OrderKey::desc(col("c"))]).to_sql());
    out.push(Query::cols("t", vec![col("a")]).order_by(vec![OrderKey::desc(add(col("a"), col("b")))]).limit(0).to_sql());
    out.push(Query::cols("t", vec![col("a")]).offset(2).to_sql());
    for op in SetOp::ALL {
        for all in [false, true] {
            out.push(Query::set_op(op, all, Query::cols("t", vec![col("a")]), Query::cols("u", vec![col("k")])).to_sql());
        }
    }
    out.push(Query::set_op(SetOp::Union, false, Query::cols("t", vec![col("a")]), Query::cols("u", vec![col("k")])).order_by(vec![OrderKey::ordinal(1, true)]).limit(2).to_sql());
    out.push(Query::set_op(SetOp::Except, false, Query::set_op(SetOp::Union, true, Query::cols("t", vec![col("a")]), Query::cols("u", vec![col("k")])), Query::cols("p", vec![col("id")])).to_sql());
    out.push(Query::from_select(Select { items: vec![SelectItem::expr(add(int(1), int(2)))], ..Default::default() }).to_sql());
    out.push(Stmt::Update(Update::new("t", vec![("a", add(col("a"), int(1))), ("c", null())], Some(eq(col("id"), int(1)))).returning_all()).to_sql());
    out.push(Stmt::Update(Update::new("t", vec![("b", float(2.5))], None).returning(vec![col("id"), col("b")])).to_sql());
    out.push(Stmt::Delete(Delete::new("t", Some(in_sub(col("a"), Query::cols("u", vec![col("k")])))).returning(vec![col("id")])).to_sql());
    out.push(Stmt::Delete(Delete::new("u", None)).to_sql());
    for s in [Stmt::Begin, Stmt::Savepoint("s1".into()), Stmt::RollbackTo("s1".into()), Stmt::Release("s1".into()), Stmt::Commit, Stmt::Begin, Stmt::Rollback] {
        out.push(s.to_sql());
    }
    out.push(Stmt::CreateIndex(CreateIndex::new("i1", "t", &["a"], false)).to_sql());
    out.push(Stmt::CreateIndex(CreateIndex { if_not_exists: true, ..CreateIndex::new("i2", "t", &["a", "f"], true) }).to_sql());
    out.push(Stmt::DropIndex { index: "i1".into(), if_exists: false }.to_sql());
    out.push(Stmt::DropIndex { index: "i1".into(), if_exists: true }.to_sql());
    out.push(Stmt::AddColumn { table: "p".into(), column: ColumnDef::new("z", Ty::Int).default(i(5)) }.to_sql());
    out.push(Stmt::AddColumn { table: "p".into(), column: ColumnDef::new("y", Ty::Text) }.to_sql());
    out.push(Stmt::RenameColumn { table: "p".into(), from: "y".into(), to: "yy".into() }.to_sql());
    out.push(Stmt::DropColumn { table: "p".into(), column: "yy".into() }.to_sql());
    out.push(Stmt::Truncate { table: "u".into() }.to_sql());
    out.push(Stmt::DropTable { table: "u".into(), if_exists: false }.to_sql());
    out.push(Stmt::DropTable { table: "u".into(), if_exists: true }.to_sql());
    for s in out {
        println!("SQL: {s}");
    }
}
