//! Cross-check of the relational DML/DDL/transaction model (`refmodel::sql::rel`) against the
//! bundled SQLite by state-space search: breadth-first over the model's reachable states
//! (deduplicated), every statement of a small alphabet is applied in every state on both
//! sides; success/failure, the class of the error, the affected-row count, the RETURNING
//! rows and the full contents of every table must agree.
//!
//! SQLite deviations that are kept OUT of the alphabets (with the reason):
//!  * SQLite checks UNIQUE/PK row by row during a multi-row UPDATE (the standard and the model
//!    check at end of statement) ⇒ no multi-row update that shifts keys onto each other.
//!  * `INT PRIMARY KEY` admits NULL in SQLite (historical bug) ⇒ the SQLite DDL says NOT NULL.
//!  * SQLite has no TRUNCATE ⇒ sent as `DELETE FROM t`.
//!  * SQLite is dynamically typed ⇒ no ill-typed values.
//!  * AUTOINCREMENT: SQLite keeps the high-water mark in a table that ROLLBACK restores and that
//!    UPDATE of the key does not advance; the model (as property C12 demands) never lowers it
//!    ⇒ the AUTO_INCREMENT world has no transactions and no key updates.
//!  * SAVEPOINT outside a transaction opens one in SQLite; the model reports a Txn error ⇒
//!    statements the model rejects with `Txn` are not sent (only well-formed scripts are compared).
use refmodel::sql::expr::*;
use refmodel::sql::query::Query;
use refmodel::sql::rel::*;
use refmodel::sql::Ty;
use refmodel::val::{bag, show_rows, Row, V};
use rusqlite::types::Value;
use rusqlite::Connection;
use std::collections::BTreeSet;

fn from_sqlite(v: Value) -> V {
    match v {
        Value::Null => V::Null,
        Value::Integer(i) => V::Int(i),
        Value::Real(f) => V::Float(f),
        Value::Text(s) => V::Text(s),
        Value::Blob(b) => V::Blob(b),
    }
}

struct World {
    name: &'static str,
    /// DDL for the model
    setup: Vec<Stmt>,
    /// the same schema in SQLite's dialect
    sqlite_setup: Vec<String>,
    ops: Vec<Stmt>,
    depth: usize,
    /// compare the error class too (not only Ok/Err)
    classes: bool,
}

fn sqlite_sql(s: &Stmt) -> String {
    match s {
        Stmt::Truncate { table } => format!("DELETE FROM {table}"),
        o => o.to_sql(),
    }
}

/// (outcome, error text) of one statement on SQLite: rows for RETURNING statements, else the change count
fn run_sqlite(conn: &Connection, s: &Stmt) -> Result<(usize, Option<Vec<Row>>), String> {
    let sql = sqlite_sql(s);
    let has_returning = sql.contains(" RETURNING ");
    let mut st = conn.prepare(&sql).map_err(|e| e.to_string())?;
    if has_returning {
        let n = st.column_count();
        let mut rows = st.query([]).map_err(|e| e.to_string())?;
        let mut out = vec![];
        loop {
            match rows.next() {
                Ok(Some(r)) => out.push((0..n).map(|i| from_sqlite(r.get::<_, Value>(i).unwrap())).collect()),
                Ok(None) => break,
                Err(e) => return Err(e.to_string()),
            }
        }
        Ok((out.len(), Some(out)))
    } else {
        let n = st.execute([]).map_err(|e| e.to_string())?;
        Ok((n, None))
    }
}

fn sqlite_class(msg: &str) -> &'static str {
    if msg.contains("UNIQUE constraint failed") {
        "unique"
    } else if msg.contains("NOT NULL constraint failed") {
        "notnull"
    } else if msg.contains("CHECK constraint failed") {
        "check"
    } else if msg.contains("FOREIGN KEY constraint failed") {
        "fk"
    } else if msg.contains("no such table") {
        "nosuchtable"
    } else if msg.contains("no such column") || msg.contains("has no column named") {
        "nosuchcolumn"
    } else {
        "other"
    }
}
fn model_class(e: &ModelErr) -> &'static str {
    match e.class() {
        "pk" => "unique", // SQLite reports a PRIMARY KEY clash of a non-rowid key as UNIQUE
        c => c,
    }
}

fn observe_sqlite(conn: &Connection, table: &str) -> Result<(Vec<String>, Vec<Row>), String> {
    let mut st = conn.prepare(&format!("SELECT * FROM {table}")).map_err(|e| e.to_string())?;
    let names: Vec<String> = st.column_names().iter().map(|s| s.to_string()).collect();
    let n = names.len();
    let mut rows = st.query([]).map_err(|e| e.to_string())?;
    let mut out = vec![];
    while let Some(r) = rows.next().map_err(|e| e.to_string())? {
        out.push((0..n).map(|i| from_sqlite(r.get::<_, Value>(i).unwrap())).collect());
    }
    Ok((names, bag(&out)))
}

fn explore(w: &World) -> (usize, usize) {
    let mut init = State::new();
    for s in &w.setup {
        s.apply(&mut init).unwrap_or_else(|e| panic!("{}: setup {} failed: {e:?}", w.name, s.to_sql()));
    }
    let fresh = |hist: &[Stmt]| -> Connection {
        let conn = Connection::open_in_memory().unwrap();
        conn.execute_batch("PRAGMA foreign_keys=ON;").unwrap();
        for s in &w.sqlite_setup {
            conn.execute_batch(s).unwrap_or_else(|e| panic!("{}: SQLite setup {s}: {e}", w.name));
        }
        for s in hist {
            let _ = run_sqlite(&conn, s); // failures were compared when the prefix was explored
        }
        conn
    };
    let mut seen: BTreeSet<String> = BTreeSet::new();
    seen.insert(format!("{init:?}"));
    let mut frontier: Vec<(State, Vec<Stmt>)> = vec![(init, vec![])];
    let (mut transitions, mut errors_seen) = (0usize, BTreeSet::new());
    for _depth in 0..w.depth {
        let mut next = vec![];
        for (st, hist) in &frontier {
            for op in &w.ops {
                let mut st2 = st.clone();
                let m = op.apply(&mut st2);
                if let Err(ModelErr::Txn(_)) = m {
                    continue; // ill-formed script: not compared
                }
                let conn = fresh(hist);
                let q = run_sqlite(&conn, op);
                transitions += 1;
                let ctx = || format!("{}: after [{}] statement {}", w.name, hist.iter().map(|s| s.to_sql()).collect::<Vec<_>>().join("; "), op.to_sql());
                match (&m, &q) {
                    (Ok(Outcome::Affected { count, returning, .. }), Ok((n, rows))) => {
                        assert_eq!(count, n, "{}: affected rows", ctx());
                        match (returning, rows) {
                            (Some(a), Some(b)) => assert_eq!(bag(a), bag(b), "{}: RETURNING model {} sqlite {}", ctx(), show_rows(a), show_rows(b)),
                            (None, None) => {}
                            _ => panic!("{}: RETURNING presence differs", ctx()),
                        }
                    }
                    (Ok(Outcome::Done), Ok(_)) => {}
                    (Err(e), Err(msg)) => {
                        errors_seen.insert(e.class());
                        if w.classes {
                            assert_eq!(model_class(e), sqlite_class(msg), "{}: error class: model {e:?}, SQLite {msg}", ctx());
                        }
                    }
                    (m, q) => panic!("{}: model {m:?} but SQLite {q:?}", ctx()),
                }
                // full observation
                for (tn, t) in &st2.tables {
                    let (names, rows) = observe_sqlite(&conn, tn).unwrap_or_else(|e| panic!("{}: SQLite cannot read {tn}: {e}", ctx()));
                    let model_names: Vec<String> = t.def.columns.iter().map(|c| c.name.clone()).collect();
                    assert_eq!(model_names, names, "{}: columns of {tn}", ctx());
                    assert_eq!(bag(&t.rows), rows, "{}: contents of {tn}: model {} sqlite {}", ctx(), show_rows(&bag(&t.rows)), show_rows(&rows));
                }
                // tables the model does not have must not exist in SQLite either
                let mut st_names = conn.prepare("SELECT name FROM sqlite_master WHERE type='table' AND name NOT LIKE 'sqlite_%'").unwrap();
                let n_tables = st_names.query_map([], |r| r.get::<_, String>(0)).unwrap().count();
                assert_eq!(n_tables, st2.tables.len(), "{}: number of tables", ctx());
                if seen.insert(format!("{st2:?}")) {
                    let mut h = hist.clone();
                    h.push(op.clone());
                    next.push((st2, h));
                }
            }
        }
        frontier = next;
    }
    println!("{}: {} distinct states, {} transitions compared with SQLite, model error classes seen {:?}", w.name, seen.len(), transitions, errors_seen);
    (seen.len(), transitions)
}

/// search depth: `default`, or the value of REFMODEL_REL_DEPTH (deeper = slower: depth 6 takes ~2 min)
fn depth(default: usize) -> usize {
    std::env::var("REFMODEL_REL_DEPTH").ok().and_then(|s| s.parse().ok()).unwrap_or(default)
}

fn ins(table: &str, cols: &[&str], rows: Vec<Vec<Expr>>) -> Insert {
    Insert::values(table, cols, rows)
}

fn constraint_world(on_delete: OnDelete, name: &'static str, depth: usize) -> World {
    let od = if on_delete == OnDelete::Cascade { "CASCADE" } else { "RESTRICT" };
    let setup = vec![
        Stmt::CreateTable(CreateTable::new(TableDef::new("p").col(ColumnDef::new("id", Ty::Int).primary_key()).col(ColumnDef::new("v", Ty::Int).unique()))),
        Stmt::CreateTable(CreateTable::new(
            TableDef::new("c")
                .col(ColumnDef::new("id", Ty::Int).primary_key())
                .col(ColumnDef::new("pid", Ty::Int).references("p", "id", on_delete))
                .col(ColumnDef::new("a", Ty::Int).not_null().default(V::Int(7)))
                .col(ColumnDef::new("b", Ty::Int).check(gt(col("b"), int(0))))
                .col(ColumnDef::new("u", Ty::Int).unique()),
        )),
    ];
    let sqlite_setup = vec![
        "CREATE TABLE p (id INT PRIMARY KEY NOT NULL, v INT UNIQUE)".to_string(),
        format!("CREATE TABLE c (id INT PRIMARY KEY NOT NULL, pid INT REFERENCES p(id) ON DELETE {od}, a INT NOT NULL DEFAULT 7, b INT CHECK (b > 0), u INT UNIQUE)"),
    ];
    let cc = ["id", "pid", "b", "u"];
    let ops = vec![
        Stmt::Insert(ins("p", &[], vec![vec![int(1), null()]])),
        Stmt::Insert(ins("p", &[], vec![vec![int(2), int(10)]]).returning_all()),
        Stmt::Insert(ins("p", &[], vec![vec![int(3), int(10)]])),
        Stmt::Insert(ins("p", &[], vec![vec![int(1), null()], vec![int(2), null()]])),
        Stmt::Insert(ins("p", &[], vec![vec![int(3), null()], vec![int(3), int(5)]])),
        Stmt::Insert(ins("c", &cc, vec![vec![int(1), int(1), int(1), null()]]).returning_all()),
        Stmt::Insert(ins("c", &cc, vec![vec![int(2), int(2), int(5), int(5)]])),
        Stmt::Insert(ins("c", &cc, vec![vec![int(3), null(), null(), int(5)]])),
        Stmt::Insert(ins("c", &cc, vec![vec![int(4), int(9), int(1), int(1)]])),
        Stmt::Insert(ins("c", &cc, vec![vec![int(5), int(1), int(0), null()]])),
        Stmt::Insert(ins("c", &["id", "pid", "a"], vec![vec![int(6), int(1), null()]])),
        Stmt::Insert(ins("c", &cc, vec![vec![int(7), int(1), int(1), null()], vec![int(8), int(2), int(0), null()]])),
        Stmt::Update(Update::new("p", vec![("v", int(10))], Some(eq(col("id"), int(1))))),
        Stmt::Update(Update::new("p", vec![("id", int(5))], Some(eq(col("id"), int(1))))),
        Stmt::Update(Update::new("c", vec![("pid", int(2))], Some(eq(col("id"), int(1))))),
        Stmt::Update(Update::new("c", vec![("b", sub(col("b"), int(1)))], None).returning(vec![col("id"), col("b")])),
        Stmt::Update(Update::new("c", vec![("u", int(5))], None)),
        Stmt::Update(Update::new("c", vec![("a", null())], Some(eq(col("id"), int(2))))),
        Stmt::Delete(Delete::new("p", Some(eq(col("id"), int(1))))),
        Stmt::Delete(Delete::new("p", None)),
        Stmt::Delete(Delete::new("c", Some(eq(col("id"), int(1)))).returning_all()),
        Stmt::Truncate { table: "c".into() },
        Stmt::Begin,
        Stmt::Commit,
        Stmt::Rollback,
        Stmt::Savepoint("s".into()),
        Stmt::RollbackTo("s".into()),
        Stmt::Release("s".into()),
    ];
    World { name, setup, sqlite_setup, ops, depth, classes: true }
}

#[test]
fn constraints_restrict_vs_sqlite() {
    let (states, transitions) = explore(&constraint_world(OnDelete::Restrict, "constraints/RESTRICT", depth(5)));
    assert!(states > 2_000 && transitions > 10_000, "{states} states {transitions} transitions");
}

#[test]
fn constraints_cascade_vs_sqlite() {
    let (states, transitions) = explore(&constraint_world(OnDelete::Cascade, "constraints/CASCADE", depth(5)));
    assert!(states > 500 && transitions > 10_000, "{states} states {transitions} transitions");
}

#[test]
fn auto_increment_vs_sqlite() {
    let setup = vec![Stmt::CreateTable(CreateTable::new(TableDef::new("a").col(ColumnDef::new("id", Ty::BigInt).primary_key().auto_increment()).col(ColumnDef::new("x", Ty::Int))))];
    let sqlite_setup = vec!["CREATE TABLE a (id INTEGER PRIMARY KEY AUTOINCREMENT, x INT)".to_string()];
    let ret = |i: Insert| Stmt::Insert(i.returning(vec![col("id")]));
    let ops = vec![
        ret(ins("a", &["x"], vec![vec![int(0)]])),
        ret(ins("a", &["x"], vec![vec![int(0)], vec![int(0)]])),
        ret(ins("a", &["id", "x"], vec![vec![int(5), int(0)]])),
        ret(ins("a", &["id", "x"], vec![vec![int(2), int(0)]])),
        ret(ins("a", &["id", "x"], vec![vec![null(), int(0)]])),
        ret(ins("a", &["id", "x"], vec![vec![int(7), int(0)], vec![null(), int(0)]])),
        ret(ins("a", &["id", "x"], vec![vec![null(), int(0)], vec![int(3), int(0)]])),
        Stmt::Delete(Delete::new("a", Some(eq(col("id"), scalar(Query::cols("a", vec![max(col("id"))])))))),
        Stmt::Delete(Delete::new("a", Some(eq(col("id"), int(1))))),
        Stmt::Delete(Delete::new("a", None)),
        Stmt::Truncate { table: "a".into() },
    ];
    let (states, transitions) = explore(&World { name: "auto_increment", setup, sqlite_setup, ops, depth: depth(5), classes: true });
    assert!(states > 1_000 && transitions > 5_000, "{states} states {transitions} transitions");
}

#[test]
fn ddl_vs_sqlite() {
    let setup = vec![Stmt::CreateTable(CreateTable::new(TableDef::new("t").col(ColumnDef::new("id", Ty::Int).primary_key()).col(ColumnDef::new("a", Ty::Int))))];
    let sqlite_setup = vec!["CREATE TABLE t (id INT PRIMARY KEY NOT NULL, a INT)".to_string()];
    let add = |name: &str, d: Option<V>| Stmt::AddColumn { table: "t".into(), column: ColumnDef { default: d, ..ColumnDef::new(name, Ty::Int) } };
    let ops = vec![
        Stmt::Insert(ins("t", &["id", "a"], vec![vec![int(1), int(5)]])),
        Stmt::Insert(ins("t", &["id", "a"], vec![vec![int(2), int(5)]])),
        Stmt::Insert(ins("t", &["id"], vec![vec![int(3)]])),
        Stmt::Insert(ins("t", &["id", "z"], vec![vec![int(4), int(9)]])),
        add("z", Some(V::Int(5))),
        add("y", None),
        Stmt::RenameColumn { table: "t".into(), from: "a".into(), to: "aa".into() },
        Stmt::RenameColumn { table: "t".into(), from: "aa".into(), to: "a".into() },
        Stmt::RenameColumn { table: "t".into(), from: "a".into(), to: "z".into() },
        Stmt::DropColumn { table: "t".into(), column: "z".into() },
        Stmt::DropColumn { table: "t".into(), column: "a".into() },
        Stmt::Update(Update::new("t", vec![("z", int(1))], Some(eq(col("id"), int(1))))),
        Stmt::Update(Update::new("t", vec![("a", int(6))], Some(eq(col("id"), int(2))))),
        Stmt::Update(Update::new("t", vec![("y", col("z"))], None)),
        Stmt::CreateIndex(CreateIndex::new("ia", "t", &["a"], true)),
        Stmt::CreateIndex(CreateIndex::new("iz", "t", &["z"], false)),
        Stmt::DropIndex { index: "ia".into(), if_exists: false },
        Stmt::DropIndex { index: "iz".into(), if_exists: true },
        Stmt::Delete(Delete::new("t", Some(eq(col("id"), int(1))))),
        Stmt::DropTable { table: "t".into(), if_exists: false },
        Stmt::CreateTable(CreateTable { def: TableDef::new("t").col(ColumnDef::new("id", Ty::Int)).col(ColumnDef::new("a", Ty::Int)), if_not_exists: true }),
    ];
    // error texts of SQLite's DDL are not classified: Ok/Err must agree
    let (states, transitions) = explore(&World { name: "ddl", setup, sqlite_setup, ops, depth: depth(6), classes: false });
    assert!(states > 2_000 && transitions > 20_000, "{states} states {transitions} transitions");
}
