//! Normalized SQL value used on the oracle side: totally ordered and hashable
//! (floats by bit pattern after canonicalising NaN), so bags can be sorted.
use std::cmp::Ordering;

#[derive(Clone, Debug)]
pub enum V {
    Null,
    Bool(bool),
    Int(i64),
    Float(f64),
    Text(String),
    Blob(Vec<u8>),
    /// any other TurDB value variant, rendered canonically by the harness
    /// (e.g. "Date(738000)", "Vector[1.0,2.0]")
    Other(String),
}

impl V {
    fn rank(&self) -> u8 {
        match self {
            V::Null => 0,
            V::Bool(_) => 1,
            V::Int(_) => 2,
            V::Float(_) => 3,
            V::Text(_) => 4,
            V::Blob(_) => 5,
            V::Other(_) => 6,
        }
    }
    pub fn fbits(f: f64) -> u64 {
        if f.is_nan() {
            0x7ff8_0000_0000_0000
        } else {
            f.to_bits()
        }
    }
    pub fn is_null(&self) -> bool {
        matches!(self, V::Null)
    }
    /// numeric view (Int and Float), for by-value comparison in evaluators
    pub fn as_f64(&self) -> Option<f64> {
        match self {
            V::Int(i) => Some(*i as f64),
            V::Float(f) => Some(*f),
            _ => None,
        }
    }
    /// short SQL-ish rendering for messages
    pub fn show(&self) -> String {
        match self {
            V::Null => "NULL".into(),
            V::Bool(b) => format!("{b}"),
            V::Int(i) => format!("{i}"),
            V::Float(f) => format!("{f:?}"),
            V::Text(s) => {
                if s.len() > 40 {
                    format!("'{}…'({}B)", s.chars().take(16).collect::<String>(), s.len())
                } else {
                    format!("'{s}'")
                }
            }
            V::Blob(b) => {
                if b.len() > 24 {
                    format!("x'…'({}B)", b.len())
                } else {
                    format!("x'{}'", b.iter().map(|x| format!("{x:02x}")).collect::<String>())
                }
            }
            V::Other(s) => s.clone(),
        }
    }
}

impl PartialEq for V {
    fn eq(&self, o: &V) -> bool {
        self.cmp(o) == Ordering::Equal
    }
}
impl Eq for V {}
impl PartialOrd for V {
    fn partial_cmp(&self, o: &V) -> Option<Ordering> {
        Some(self.cmp(o))
    }
}
/// Structural total order (NOT SQL comparison): used only to sort bags.
impl Ord for V {
    fn cmp(&self, o: &V) -> Ordering {
        match (self, o) {
            (V::Null, V::Null) => Ordering::Equal,
            (V::Bool(a), V::Bool(b)) => a.cmp(b),
            (V::Int(a), V::Int(b)) => a.cmp(b),
            (V::Float(a), V::Float(b)) => V::fbits(*a).cmp(&V::fbits(*b)),
            (V::Text(a), V::Text(b)) => a.cmp(b),
            (V::Blob(a), V::Blob(b)) => a.cmp(b),
            (V::Other(a), V::Other(b)) => a.cmp(b),
            _ => self.rank().cmp(&o.rank()),
        }
    }
}
impl std::hash::Hash for V {
    fn hash<H: std::hash::Hasher>(&self, h: &mut H) {
        self.rank().hash(h);
        match self {
            V::Null => {}
            V::Bool(b) => b.hash(h),
            V::Int(i) => i.hash(h),
            V::Float(f) => V::fbits(*f).hash(h),
            V::Text(s) => s.hash(h),
            V::Blob(b) => b.hash(h),
            V::Other(s) => s.hash(h),
        }
    }
}

pub type Row = Vec<V>;

/// sorted copy (bag canonical form)
pub fn bag(rows: &[Row]) -> Vec<Row> {
    let mut r = rows.to_vec();
    r.sort();
    r
}
pub fn show_row(r: &Row) -> String {
    format!("({})", r.iter().map(|v| v.show()).collect::<Vec<_>>().join(","))
}
pub fn show_rows(rows: &[Row]) -> String {
    let mut s = String::from("[");
    for (i, r) in rows.iter().enumerate() {
        if i > 0 {
            s.push(',');
        }
        if i >= 40 {
            s.push_str(&format!("…{} rows", rows.len()));
            break;
        }
        s.push_str(&show_row(r));
    }
    s.push(']');
    s
}
