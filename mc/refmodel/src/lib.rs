// reference models (no TurDB code)
