//! Reference models — no TurDB code in this crate.
pub mod val;
pub use val::V;
