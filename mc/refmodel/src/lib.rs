//! Reference models — no TurDB code in this crate.
pub mod sql;
pub mod val;
pub use val::V;
