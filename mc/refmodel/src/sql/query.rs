//! SELECT AST, SQL text rendering, bag-semantics evaluator and the helpers that
//! decide whether an observed row list is an acceptable answer (ORDER BY ties,
//! LIMIT/OFFSET windows).  Naive on purpose: nested loops everywhere.
use super::expr::{total_cmp, total_cmp_rows, AggFunc, ColRef, Env, EvalErr, Expr};
use super::{Schema, SchemaCol, Ty};
use crate::val::{Row, V};
use std::cmp::Ordering;
use std::collections::BTreeMap;

// ---------------------------------------------------------------------------
// data
// ---------------------------------------------------------------------------

/// Table contents as seen by queries: typed columns and a bag of rows (insertion order).
#[derive(Clone, Debug, PartialEq, Eq, Default)]
pub struct Table {
    pub columns: Vec<(String, Ty)>,
    pub rows: Vec<Row>,
}
impl Table {
    pub fn new(columns: &[(&str, Ty)], rows: Vec<Row>) -> Table {
        Table { columns: columns.iter().map(|(n, t)| (n.to_string(), *t)).collect(), rows }
    }
    /// schema with every column qualified by `qual`
    pub fn schema(&self, qual: &str) -> Schema {
        Schema { cols: self.columns.iter().map(|(n, t)| SchemaCol { table: Some(qual.to_string()), name: n.clone(), ty: Some(*t) }).collect() }
    }
}

/// Map table name → table.
#[derive(Clone, Debug, PartialEq, Eq, Default)]
pub struct Database {
    pub tables: BTreeMap<String, Table>,
}
impl Database {
    pub fn new() -> Database {
        Database::default()
    }
    pub fn with(mut self, name: &str, t: Table) -> Database {
        self.tables.insert(name.to_string(), t);
        self
    }
}

// ---------------------------------------------------------------------------
// AST
// ---------------------------------------------------------------------------

#[derive(Clone, Copy, Debug, PartialEq, Eq, PartialOrd, Ord, Hash)]
pub enum JoinKind {
    Inner,
    Left,
    Right,
    Full,
    Cross,
}
impl JoinKind {
    pub const ALL: [JoinKind; 5] = [JoinKind::Inner, JoinKind::Left, JoinKind::Right, JoinKind::Full, JoinKind::Cross];
    pub fn sql(self) -> &'static str {
        match self {
            JoinKind::Inner => "INNER JOIN",
            JoinKind::Left => "LEFT JOIN",
            JoinKind::Right => "RIGHT JOIN",
            JoinKind::Full => "FULL OUTER JOIN",
            JoinKind::Cross => "CROSS JOIN",
        }
    }
}

#[derive(Clone, Debug, PartialEq, Eq, PartialOrd, Ord, Hash)]
pub enum From {
    /// base table, optionally aliased (`t AS x`); columns are qualified by the alias if given, else the name
    Table { name: String, alias: Option<String> },
    /// derived table `(SELECT …) AS alias`
    Derived { query: Box<Query>, alias: String },
    /// `left <kind> right [ON on]` (CROSS has no ON)
    Join { kind: JoinKind, left: Box<From>, right: Box<From>, on: Option<Expr> },
}
impl From {
    pub fn table(name: &str) -> From {
        From::Table { name: name.to_string(), alias: None }
    }
    pub fn table_as(name: &str, alias: &str) -> From {
        From::Table { name: name.to_string(), alias: Some(alias.to_string()) }
    }
    pub fn derived(q: Query, alias: &str) -> From {
        From::Derived { query: Box::new(q), alias: alias.to_string() }
    }
    pub fn join(self, kind: JoinKind, right: From, on: Option<Expr>) -> From {
        From::Join { kind, left: Box::new(self), right: Box::new(right), on }
    }
}

#[derive(Clone, Debug, PartialEq, Eq, PartialOrd, Ord, Hash)]
pub enum SelectItem {
    /// expression (plain or containing aggregates) with an optional `AS alias`
    Expr { expr: Expr, alias: Option<String> },
    /// `*` (all columns of FROM, in order) or `t.*`
    Star(Option<String>),
}
impl SelectItem {
    pub fn expr(e: Expr) -> SelectItem {
        SelectItem::Expr { expr: e, alias: None }
    }
    pub fn aliased(e: Expr, alias: &str) -> SelectItem {
        SelectItem::Expr { expr: e, alias: Some(alias.to_string()) }
    }
}

#[derive(Clone, Debug, PartialEq, Eq, PartialOrd, Ord, Hash, Default)]
pub struct Select {
    pub distinct: bool,
    pub items: Vec<SelectItem>,
    /// `None` = no FROM clause (one empty row)
    pub from: Option<From>,
    pub where_: Option<Expr>,
    pub group_by: Vec<Expr>,
    pub having: Option<Expr>,
}

#[derive(Clone, Copy, Debug, PartialEq, Eq, PartialOrd, Ord, Hash)]
pub enum SetOp {
    Union,
    Intersect,
    Except,
}
impl SetOp {
    pub const ALL: [SetOp; 3] = [SetOp::Union, SetOp::Intersect, SetOp::Except];
    pub fn sql(self) -> &'static str {
        match self {
            SetOp::Union => "UNION",
            SetOp::Intersect => "INTERSECT",
            SetOp::Except => "EXCEPT",
        }
    }
}

#[derive(Clone, Debug, PartialEq, Eq, PartialOrd, Ord, Hash)]
pub enum Body {
    Select(Select),
    /// `left OP [ALL] right`.  An operand that is itself a set operation is rendered as
    /// `SELECT * FROM (…) AS _sN`, so no precedence rule is relied upon.
    SetOp { op: SetOp, all: bool, left: Box<Body>, right: Box<Body> },
}

#[derive(Clone, Debug, PartialEq, Eq, PartialOrd, Ord, Hash)]
pub enum OrderBy {
    /// 1-based output column number
    Ordinal(usize),
    Expr(Expr),
}
#[derive(Clone, Debug, PartialEq, Eq, PartialOrd, Ord, Hash)]
pub struct OrderKey {
    pub by: OrderBy,
    pub desc: bool,
}
impl OrderKey {
    pub fn asc(e: Expr) -> OrderKey {
        OrderKey { by: OrderBy::Expr(e), desc: false }
    }
    pub fn desc(e: Expr) -> OrderKey {
        OrderKey { by: OrderBy::Expr(e), desc: true }
    }
    pub fn ordinal(n: usize, desc: bool) -> OrderKey {
        OrderKey { by: OrderBy::Ordinal(n), desc }
    }
}

#[derive(Clone, Debug, PartialEq, Eq, PartialOrd, Ord, Hash)]
pub struct Query {
    pub body: Body,
    pub order_by: Vec<OrderKey>,
    pub limit: Option<u64>,
    pub offset: Option<u64>,
}

impl Query {
    /// `SELECT items FROM from`
    pub fn select(items: Vec<SelectItem>, from: From) -> Query {
        Query::from_select(Select { items, from: Some(from), ..Default::default() })
    }
    /// `SELECT * FROM table`
    pub fn star(table: &str) -> Query {
        Query::select(vec![SelectItem::Star(None)], From::table(table))
    }
    /// `SELECT e1, e2, … FROM table`
    pub fn cols(table: &str, exprs: Vec<Expr>) -> Query {
        Query::select(exprs.into_iter().map(SelectItem::expr).collect(), From::table(table))
    }
    pub fn from_select(s: Select) -> Query {
        Query { body: Body::Select(s), order_by: vec![], limit: None, offset: None }
    }
    pub fn set_op(op: SetOp, all: bool, left: Query, right: Query) -> Query {
        // ORDER BY / LIMIT of the operands are not expressible in a compound select: wrap them
        Query { body: Body::SetOp { op, all, left: Box::new(left.into_body()), right: Box::new(right.into_body()) }, order_by: vec![], limit: None, offset: None }
    }
    fn into_body(self) -> Body {
        if self.order_by.is_empty() && self.limit.is_none() && self.offset.is_none() {
            self.body
        } else {
            Body::Select(Select { items: vec![SelectItem::Star(None)], from: Some(From::derived(self, "_w")), ..Default::default() })
        }
    }
    fn select_mut(&mut self) -> &mut Select {
        match &mut self.body {
            Body::Select(s) => s,
            Body::SetOp { .. } => panic!("builder method needs a plain SELECT (wrap the set operation in a derived table)"),
        }
    }
    pub fn distinct(mut self) -> Query {
        self.select_mut().distinct = true;
        self
    }
    pub fn where_(mut self, p: Expr) -> Query {
        self.select_mut().where_ = Some(p);
        self
    }
    pub fn group_by(mut self, g: Vec<Expr>) -> Query {
        self.select_mut().group_by = g;
        self
    }
    pub fn having(mut self, h: Expr) -> Query {
        self.select_mut().having = Some(h);
        self
    }
    pub fn order_by(mut self, keys: Vec<OrderKey>) -> Query {
        self.order_by = keys;
        self
    }
    pub fn limit(mut self, n: u64) -> Query {
        self.limit = Some(n);
        self
    }
    pub fn offset(mut self, n: u64) -> Query {
        self.offset = Some(n);
        self
    }
}

// ---------------------------------------------------------------------------
// SQL text
// ---------------------------------------------------------------------------

impl From {
    pub fn to_sql(&self) -> String {
        match self {
            From::Table { name, alias: None } => name.clone(),
            From::Table { name, alias: Some(a) } => format!("{name} AS {a}"),
            From::Derived { query, alias } => format!("({}) AS {alias}", query.to_sql()),
            From::Join { kind, left, right, on } => {
                // joins are rendered left-deep without parentheses; a join on the right side needs them
                let r = match &**right {
                    From::Join { .. } => format!("({})", right.to_sql()),
                    _ => right.to_sql(),
                };
                match on {
                    Some(e) => format!("{} {} {} ON {}", left.to_sql(), kind.sql(), r, e.to_sql()),
                    None => format!("{} {} {}", left.to_sql(), kind.sql(), r),
                }
            }
        }
    }
}
impl SelectItem {
    pub fn to_sql(&self) -> String {
        match self {
            SelectItem::Expr { expr, alias: None } => expr.to_sql(),
            SelectItem::Expr { expr, alias: Some(a) } => format!("{} AS {a}", expr.to_sql()),
            SelectItem::Star(None) => "*".into(),
            SelectItem::Star(Some(t)) => format!("{t}.*"),
        }
    }
}
impl Select {
    pub fn to_sql(&self) -> String {
        let mut s = String::from("SELECT ");
        if self.distinct {
            s.push_str("DISTINCT ");
        }
        s.push_str(&self.items.iter().map(|i| i.to_sql()).collect::<Vec<_>>().join(", "));
        if let Some(f) = &self.from {
            s.push_str(" FROM ");
            s.push_str(&f.to_sql());
        }
        if let Some(w) = &self.where_ {
            s.push_str(" WHERE ");
            s.push_str(&w.to_sql());
        }
        if !self.group_by.is_empty() {
            s.push_str(" GROUP BY ");
            s.push_str(&self.group_by.iter().map(|e| e.to_sql()).collect::<Vec<_>>().join(", "));
        }
        if let Some(h) = &self.having {
            s.push_str(" HAVING ");
            s.push_str(&h.to_sql());
        }
        s
    }
}
impl Body {
    pub fn to_sql(&self) -> String {
        let mut n = 0;
        self.to_sql_n(&mut n)
    }
    fn to_sql_n(&self, n: &mut usize) -> String {
        match self {
            Body::Select(s) => s.to_sql(),
            Body::SetOp { op, all, left, right } => {
                let mut side = |b: &Body| match b {
                    Body::Select(s) => s.to_sql(),
                    nested => {
                        *n += 1;
                        let k = *n;
                        format!("SELECT * FROM ({}) AS _s{k}", nested.to_sql_n(n))
                    }
                };
                let l = side(left);
                let r = side(right);
                format!("{l} {}{} {r}", op.sql(), if *all { " ALL" } else { "" })
            }
        }
    }
}
impl Query {
    /// Standard SQL text accepted by TurDB's parser and by SQLite.
    pub fn to_sql(&self) -> String {
        let mut s = self.body.to_sql();
        if !self.order_by.is_empty() {
            s.push_str(" ORDER BY ");
            let keys: Vec<String> = self
                .order_by
                .iter()
                .map(|k| {
                    let e = match &k.by {
                        OrderBy::Ordinal(n) => format!("{n}"),
                        OrderBy::Expr(e) => e.to_sql(),
                    };
                    format!("{e} {}", if k.desc { "DESC" } else { "ASC" })
                })
                .collect();
            s.push_str(&keys.join(", "));
        }
        if let Some(l) = self.limit {
            s.push_str(&format!(" LIMIT {l}"));
        }
        if let Some(o) = self.offset {
            if self.limit.is_none() {
                // OFFSET without LIMIT is not portable; an unbounded LIMIT is
                s.push_str(" LIMIT 9223372036854775807");
            }
            s.push_str(&format!(" OFFSET {o}"));
        }
        s
    }
}

// ---------------------------------------------------------------------------
// aggregates
// ---------------------------------------------------------------------------

/// One aggregate over a group.  `has_arg == false` is `COUNT(*)` over `n_rows` rows;
/// otherwise `vals` are the argument values of the group's rows (NULLs are ignored).
/// Empty (or all-NULL) input: COUNT = 0, the others NULL.  SUM: all-integer input ⇒
/// checked i64 sum (`Overflow`), any float ⇒ f64 sum in row order.  AVG: always Float
/// (integer inputs are summed exactly in i128 first).  MIN/MAX by SQL comparison.
pub fn aggregate(f: AggFunc, has_arg: bool, n_rows: usize, vals: &[V]) -> Result<V, EvalErr> {
    if !has_arg {
        return match f {
            AggFunc::Count => Ok(V::Int(n_rows as i64)),
            _ => Err(EvalErr::Unsupported(format!("{}(*)", f.sql()))),
        };
    }
    let nn: Vec<&V> = vals.iter().filter(|v| !v.is_null()).collect();
    match f {
        AggFunc::Count => Ok(V::Int(nn.len() as i64)),
        AggFunc::Sum | AggFunc::Avg => {
            if nn.is_empty() {
                return Ok(V::Null);
            }
            let mut all_int = true;
            let mut isum: i128 = 0;
            let mut fsum: f64 = 0.0;
            for v in &nn {
                match v {
                    V::Int(i) => {
                        isum += *i as i128;
                        fsum += *i as f64;
                    }
                    V::Float(x) => {
                        all_int = false;
                        fsum += *x;
                    }
                    o => return Err(EvalErr::Type(format!("{} of {}", f.sql(), o.show()))),
                }
            }
            if f == AggFunc::Sum {
                if all_int {
                    i64::try_from(isum).map(V::Int).map_err(|_| EvalErr::Overflow)
                } else {
                    Ok(V::Float(fsum))
                }
            } else if all_int {
                Ok(V::Float(isum as f64 / nn.len() as f64))
            } else {
                Ok(V::Float(fsum / nn.len() as f64))
            }
        }
        AggFunc::Min | AggFunc::Max => {
            let mut best: Option<&V> = None;
            for v in nn {
                best = Some(match best {
                    None => v,
                    Some(b) => {
                        let o = super::expr::sql_cmp(v, b)?.unwrap_or(Ordering::Equal);
                        let better = if f == AggFunc::Min { o == Ordering::Less } else { o == Ordering::Greater };
                        if better { v } else { b }
                    }
                });
            }
            Ok(best.cloned().unwrap_or(V::Null))
        }
    }
}

// ---------------------------------------------------------------------------
// result + acceptance helpers
// ---------------------------------------------------------------------------

/// How much freedom ORDER BY / LIMIT / OFFSET leave to a correct implementation.
#[derive(Clone, Copy, Debug, PartialEq, Eq)]
pub enum Window {
    /// the *bag* of returned rows is determined (their order only up to ties under the keys)
    Exact,
    /// a window boundary cuts through a group of rows with equal ORDER BY keys (or there is a
    /// LIMIT/OFFSET without ORDER BY): several bags are correct answers
    TieAmbiguous,
}

#[derive(Clone, Debug, PartialEq)]
pub struct QueryResult {
    pub columns: Vec<String>,
    /// the model's own answer — ONE valid answer; compare through `accepts*`, or as a bag
    /// (`refmodel::val::bag`) when there is neither ORDER BY nor LIMIT/OFFSET
    pub rows: Vec<Row>,
    /// every row before LIMIT/OFFSET, in the model's order (stable sort of the evaluation order)
    pub full: Vec<Row>,
    /// ORDER BY key tuple of each row of `full` (empty tuples without ORDER BY)
    pub keys: Vec<Vec<V>>,
    /// direction of each ORDER BY key (empty = unordered query)
    pub desc: Vec<bool>,
    pub offset: u64,
    pub limit: Option<u64>,
}

/// Compare two key tuples under per-key directions (NULL first ascending, last descending).
pub fn cmp_keys(a: &[V], b: &[V], desc: &[bool]) -> Ordering {
    for (i, (x, y)) in a.iter().zip(b.iter()).enumerate() {
        let mut o = total_cmp(x, y);
        if desc.get(i).copied().unwrap_or(false) {
            o = o.reverse();
        }
        if o != Ordering::Equal {
            return o;
        }
    }
    Ordering::Equal
}

/// Are `rows` sorted under `keys` = (0-based output column, descending?) — adjacent rows
/// never decrease; ties in any order.  Complete ORDER BY check when every key is an output
/// column and the bag has been compared separately.
pub fn order_check(rows: &[Row], keys: &[(usize, bool)]) -> bool {
    let desc: Vec<bool> = keys.iter().map(|k| k.1).collect();
    let key = |r: &Row| -> Vec<V> { keys.iter().map(|k| r.get(k.0).cloned().unwrap_or(V::Null)).collect() };
    rows.windows(2).all(|w| cmp_keys(&key(&w[0]), &key(&w[1]), &desc) != Ordering::Greater)
}

fn window_bounds(n: usize, offset: u64, limit: Option<u64>) -> (usize, usize) {
    let start = (offset.min(n as u64)) as usize;
    let len = match limit {
        None => n - start,
        Some(l) => (l.min((n - start) as u64)) as usize,
    };
    (start, start + len)
}

/// Is the LIMIT/OFFSET window exact or tie-ambiguous?  `sorted_keys` are the key tuples of
/// ALL rows, sorted; with `desc` empty (no ORDER BY) any proper window is ambiguous.
pub fn window_kind(sorted_keys: &[Vec<V>], desc: &[bool], offset: u64, limit: Option<u64>) -> Window {
    let n = sorted_keys.len();
    let (s, e) = window_bounds(n, offset, limit);
    if s == e || (s == 0 && e == n) {
        return Window::Exact;
    }
    if desc.is_empty() {
        return Window::TieAmbiguous;
    }
    let cut = |i: usize| i > 0 && i < n && cmp_keys(&sorted_keys[i - 1], &sorted_keys[i], desc) == Ordering::Equal;
    if cut(s) || cut(e) {
        Window::TieAmbiguous
    } else {
        Window::Exact
    }
}

/// Is `observed` a correct answer, given the bag of all result rows with their ORDER BY key
/// tuples?  Accepts exactly the row lists `R[offset .. offset+limit]` for SOME ordering `R` of
/// the bag that is sorted under the keys (ties in any order); without keys (`desc` empty),
/// any sub-bag of the window's size.  `eq` decides value equality (e.g. `|a,b| a == b` or
/// `loosely_equal`).  `Err` carries a human-readable reason.
pub fn accepts_window(bag: &[(Row, Vec<V>)], desc: &[bool], offset: u64, limit: Option<u64>, observed: &[Row], eq: &dyn Fn(&V, &V) -> bool) -> Result<(), String> {
    let n = bag.len();
    let mut idx: Vec<usize> = (0..n).collect();
    idx.sort_by(|&i, &j| cmp_keys(&bag[i].1, &bag[j].1, desc)); // stable
    let (s, e) = window_bounds(n, offset, limit);
    if observed.len() != e - s {
        return Err(format!("expected {} rows, got {}", e - s, observed.len()));
    }
    let mut used = vec![false; n];
    let row_eq = |a: &Row, b: &Row| a.len() == b.len() && a.iter().zip(b.iter()).all(|(x, y)| eq(x, y));
    for (i, obs) in observed.iter().enumerate() {
        // the key class this position must carry (none without ORDER BY)
        let want: Option<&Vec<V>> = if desc.is_empty() { None } else { Some(&bag[idx[s + i]].1) };
        let found = (0..n).find(|&j| !used[j] && want.map_or(true, |w| cmp_keys(&bag[j].1, w, desc) == Ordering::Equal) && row_eq(&bag[j].0, obs));
        match found {
            Some(j) => used[j] = true,
            None => {
                return Err(match want {
                    Some(w) => format!("row #{i} {} is not an unused result row with sort key {}", crate::val::show_row(obs), crate::val::show_row(w)),
                    None => format!("row #{i} {} is not an unused result row", crate::val::show_row(obs)),
                });
            }
        }
    }
    Ok(())
}

/// Is `observed` a valid ordering of the whole bag under the keys (no window)?
pub fn is_valid_order(bag: &[(Row, Vec<V>)], desc: &[bool], observed: &[Row]) -> bool {
    accepts_window(bag, desc, 0, None, observed, &|a, b| a == b).is_ok()
}

impl QueryResult {
    pub fn is_ordered(&self) -> bool {
        !self.desc.is_empty()
    }
    pub fn window(&self) -> Window {
        window_kind(&self.keys, &self.desc, self.offset, self.limit)
    }
    /// Is `observed` (rows in returned order) a correct answer to the query?  Values must be identical.
    pub fn accepts(&self, observed: &[Row]) -> Result<(), String> {
        self.accepts_by(observed, &|a, b| a == b)
    }
    /// `accepts` modulo `loosely_equal` (`Int(2)` ~ `Float(2.0)`, float round-off 1e-9).
    pub fn accepts_loose(&self, observed: &[Row]) -> Result<(), String> {
        self.accepts_by(observed, &super::expr::loosely_equal)
    }
    pub fn accepts_by(&self, observed: &[Row], eq: &dyn Fn(&V, &V) -> bool) -> Result<(), String> {
        let bag: Vec<(Row, Vec<V>)> = self.full.iter().cloned().zip(self.keys.iter().cloned()).collect();
        accepts_window(&bag, &self.desc, self.offset, self.limit, observed, eq)
    }
}

// ---------------------------------------------------------------------------
// evaluation
// ---------------------------------------------------------------------------

/// key wrapper ordering rows by `total_cmp` (NULLs equal, numbers by value): grouping, DISTINCT, set ops
#[derive(Clone, Debug)]
struct RowKey(Row);
impl PartialEq for RowKey {
    fn eq(&self, o: &RowKey) -> bool {
        total_cmp_rows(&self.0, &o.0) == Ordering::Equal
    }
}
impl Eq for RowKey {}
impl PartialOrd for RowKey {
    fn partial_cmp(&self, o: &RowKey) -> Option<Ordering> {
        Some(self.cmp(o))
    }
}
impl Ord for RowKey {
    fn cmp(&self, o: &RowKey) -> Ordering {
        total_cmp_rows(&self.0, &o.0)
    }
}

fn is_true(v: &V) -> Result<bool, EvalErr> {
    Ok(super::expr::truth(v)? == Some(true))
}

/// rows + per-row ORDER BY keys, before sorting
struct Produced {
    columns: Vec<String>,
    rows: Vec<Row>,
    keys: Vec<Vec<V>>,
}

enum KeySrc {
    Out(usize),
    Expr(Expr),
}

impl Query {
    /// Evaluate on a database (uncorrelated top-level query).
    pub fn eval(&self, db: &Database) -> Result<QueryResult, EvalErr> {
        // names are resolved statically first: an unknown table/column is an error even when no
        // row would ever reach the expression that mentions it
        self.check_names(db, None)?;
        self.eval_in(db, None)
    }

    /// Evaluate as a subquery of the query whose current row is `outer`.
    pub fn eval_in(&self, db: &Database, outer: Option<&Env>) -> Result<QueryResult, EvalErr> {
        let desc: Vec<bool> = self.order_by.iter().map(|k| k.desc).collect();
        let p = match &self.body {
            Body::Select(s) => eval_select(s, &self.order_by, db, outer)?,
            Body::SetOp { .. } => {
                let (columns, rows) = eval_body(&self.body, db, outer)?;
                // keys of a compound select can only name output columns
                let mut srcs = vec![];
                for k in &self.order_by {
                    srcs.push(match &k.by {
                        OrderBy::Ordinal(n) if *n >= 1 && *n <= columns.len() => n - 1,
                        OrderBy::Ordinal(n) => return Err(EvalErr::Unsupported(format!("ORDER BY ordinal {n} out of range"))),
                        OrderBy::Expr(Expr::Col(ColRef { table: None, name })) => match columns.iter().position(|c| c == name) {
                            Some(i) => i,
                            None => return Err(EvalErr::NoSuchColumn(format!("ORDER BY {name} on a set operation"))),
                        },
                        OrderBy::Expr(e) => return Err(EvalErr::Unsupported(format!("ORDER BY {} on a set operation", e.to_sql()))),
                    });
                }
                let keys = rows.iter().map(|r| srcs.iter().map(|&i| r[i].clone()).collect()).collect();
                Produced { columns, rows, keys }
            }
        };
        // stable sort
        let mut idx: Vec<usize> = (0..p.rows.len()).collect();
        if !desc.is_empty() {
            idx.sort_by(|&i, &j| cmp_keys(&p.keys[i], &p.keys[j], &desc));
        }
        let full: Vec<Row> = idx.iter().map(|&i| p.rows[i].clone()).collect();
        let keys: Vec<Vec<V>> = idx.iter().map(|&i| p.keys[i].clone()).collect();
        let offset = self.offset.unwrap_or(0);
        let (s, e) = window_bounds(full.len(), offset, self.limit);
        Ok(QueryResult { columns: p.columns, rows: full[s..e].to_vec(), full, keys, desc, offset, limit: self.limit })
    }
}

fn eval_body(b: &Body, db: &Database, outer: Option<&Env>) -> Result<(Vec<String>, Vec<Row>), EvalErr> {
    match b {
        Body::Select(s) => {
            let p = eval_select(s, &[], db, outer)?;
            Ok((p.columns, p.rows))
        }
        Body::SetOp { op, all, left, right } => {
            let (cols, l) = eval_body(left, db, outer)?;
            let (rcols, r) = eval_body(right, db, outer)?;
            if cols.len() != rcols.len() {
                return Err(EvalErr::Arity(format!("{} of {} and {} columns", op.sql(), cols.len(), rcols.len())));
            }
            Ok((cols, set_op(*op, *all, l, r)))
        }
    }
}

/// Bag/set semantics of the set operations; rows are identified by `total_cmp`
/// (NULL = NULL).  With `all`, multiplicities are m+n / min(m,n) / max(m−n,0);
/// without, the result has each qualifying row once.
pub fn set_op(op: SetOp, all: bool, l: Vec<Row>, r: Vec<Row>) -> Vec<Row> {
    let mut rcount: BTreeMap<RowKey, usize> = BTreeMap::new();
    for row in &r {
        *rcount.entry(RowKey(row.clone())).or_insert(0) += 1;
    }
    match (op, all) {
        (SetOp::Union, true) => l.into_iter().chain(r).collect(),
        (SetOp::Union, false) => distinct(l.into_iter().chain(r).collect()),
        (SetOp::Intersect, false) => distinct(l).into_iter().filter(|row| rcount.contains_key(&RowKey(row.clone()))).collect(),
        (SetOp::Except, false) => distinct(l).into_iter().filter(|row| !rcount.contains_key(&RowKey(row.clone()))).collect(),
        (SetOp::Intersect, true) => {
            // keep a left row while the right side still has an unmatched copy
            let mut out = vec![];
            for row in l {
                if let Some(c) = rcount.get_mut(&RowKey(row.clone())) {
                    if *c > 0 {
                        *c -= 1;
                        out.push(row);
                    }
                }
            }
            out
        }
        (SetOp::Except, true) => {
            // each right copy cancels one left copy
            let mut out = vec![];
            for row in l {
                match rcount.get_mut(&RowKey(row.clone())) {
                    Some(c) if *c > 0 => *c -= 1,
                    _ => out.push(row),
                }
            }
            out
        }
    }
}

/// first occurrence of every distinct row (`total_cmp` identity)
pub fn distinct(rows: Vec<Row>) -> Vec<Row> {
    let mut seen = std::collections::BTreeSet::new();
    rows.into_iter().filter(|r| seen.insert(RowKey(r.clone()))).collect()
}

fn eval_from(f: &From, db: &Database, outer: Option<&Env>) -> Result<(Schema, Vec<Row>), EvalErr> {
    match f {
        From::Table { name, alias } => {
            let t = db.tables.get(name).ok_or_else(|| EvalErr::NoSuchTable(name.clone()))?;
            Ok((t.schema(alias.as_deref().unwrap_or(name)), t.rows.clone()))
        }
        From::Derived { query, alias } => {
            let r = query.eval_in(db, outer)?;
            let schema = Schema { cols: r.columns.iter().map(|c| SchemaCol { table: Some(alias.clone()), name: c.clone(), ty: None }).collect() };
            Ok((schema, r.rows))
        }
        From::Join { kind, left, right, on } => {
            let (ls, lrows) = eval_from(left, db, outer)?;
            let (rs, rrows) = eval_from(right, db, outer)?;
            let schema = Schema { cols: ls.cols.iter().chain(rs.cols.iter()).cloned().collect() };
            if *kind != JoinKind::Cross && on.is_none() {
                return Err(EvalErr::Unsupported(format!("{} without ON", kind.sql())));
            }
            let mut out = vec![];
            let mut rmatched = vec![false; rrows.len()];
            for l in &lrows {
                let mut lmatched = false;
                for (j, r) in rrows.iter().enumerate() {
                    let row: Row = l.iter().chain(r.iter()).cloned().collect();
                    let ok = match on {
                        None => true,
                        Some(e) => is_true(&e.eval_env(&Env { db: Some(db), schema: &schema, row: &row, group: None, outer })?)?,
                    };
                    if ok {
                        lmatched = true;
                        rmatched[j] = true;
                        out.push(row);
                    }
                }
                if !lmatched && matches!(kind, JoinKind::Left | JoinKind::Full) {
                    out.push(l.iter().cloned().chain(std::iter::repeat(V::Null).take(rs.cols.len())).collect());
                }
            }
            if matches!(kind, JoinKind::Right | JoinKind::Full) {
                for (j, r) in rrows.iter().enumerate() {
                    if !rmatched[j] {
                        out.push(std::iter::repeat(V::Null).take(ls.cols.len()).chain(r.iter().cloned()).collect());
                    }
                }
            }
            Ok((schema, out))
        }
    }
}

/// Output column name of a select item: alias, else the bare column name, else the SQL text.
fn item_name(e: &Expr, alias: &Option<String>) -> String {
    match (alias, e) {
        (Some(a), _) => a.clone(),
        (None, Expr::Col(c)) => c.name.clone(),
        (None, e) => e.to_sql(),
    }
}

fn eval_select(s: &Select, order_by: &[OrderKey], db: &Database, outer: Option<&Env>) -> Result<Produced, EvalErr> {
    // FROM
    let (schema, rows) = match &s.from {
        Some(f) => eval_from(f, db, outer)?,
        None => (Schema { cols: vec![] }, vec![vec![]]),
    };
    // WHERE
    let mut kept = vec![];
    for r in rows {
        let ok = match &s.where_ {
            None => true,
            Some(w) => {
                if w.has_agg() {
                    return Err(EvalErr::Unsupported("aggregate in WHERE".into()));
                }
                is_true(&w.eval_env(&Env { db: Some(db), schema: &schema, row: &r, group: None, outer })?)?
            }
        };
        if ok {
            kept.push(r);
        }
    }
    // expand the select list
    let mut items: Vec<(Expr, String)> = vec![];
    let mut explicit: Vec<bool> = vec![]; // item carries an explicit alias
    for it in &s.items {
        match it {
            SelectItem::Expr { expr, alias } => {
                items.push((expr.clone(), item_name(expr, alias)));
                explicit.push(alias.is_some());
            }
            SelectItem::Star(q) => {
                let mut any = false;
                for c in &schema.cols {
                    if q.is_none() || c.table == *q {
                        any = true;
                        items.push((Expr::Col(ColRef { table: c.table.clone(), name: c.name.clone() }), c.name.clone()));
                        explicit.push(false);
                    }
                }
                if !any {
                    return Err(EvalErr::NoSuchTable(format!("{}.*", q.clone().unwrap_or_default())));
                }
            }
        }
    }
    if items.is_empty() {
        return Err(EvalErr::Unsupported("empty select list".into()));
    }
    // ORDER BY key sources
    let mut srcs = vec![];
    for k in order_by {
        srcs.push(match &k.by {
            OrderBy::Ordinal(n) if *n >= 1 && *n <= items.len() => KeySrc::Out(n - 1),
            OrderBy::Ordinal(n) => return Err(EvalErr::Unsupported(format!("ORDER BY ordinal {n} out of range"))),
            OrderBy::Expr(e) => {
                // 1. an explicit alias of the select list; 2. an expression of the select list; 3. any expression over the source row
                let by_alias: Vec<usize> = match e {
                    Expr::Col(ColRef { table: None, name }) => (0..items.len()).filter(|&i| explicit[i] && items[i].1 == *name).collect(),
                    _ => vec![],
                };
                if by_alias.len() > 1 {
                    return Err(EvalErr::AmbiguousColumn(format!("ORDER BY {}", e.to_sql())));
                }
                if let Some(i) = by_alias.first() {
                    KeySrc::Out(*i)
                } else if let Some(i) = items.iter().position(|(ie, _)| ie == e) {
                    KeySrc::Out(i)
                } else if s.distinct {
                    return Err(EvalErr::Unsupported(format!("ORDER BY {} is not in the DISTINCT select list", e.to_sql())));
                } else {
                    KeySrc::Expr(e.clone())
                }
            }
        });
    }

    let aggregated = !s.group_by.is_empty() || s.having.is_some() || items.iter().any(|(e, _)| e.has_agg()) || srcs.iter().any(|k| matches!(k, KeySrc::Expr(e) if e.has_agg()));
    let mut out_rows = vec![];
    let mut out_keys = vec![];
    let null_row: Row = vec![V::Null; schema.cols.len()];

    if aggregated {
        // groups in order of first appearance; NULL keys form one group
        let mut groups: Vec<Vec<Row>> = vec![];
        if s.group_by.is_empty() {
            groups.push(kept);
        } else {
            let mut index: BTreeMap<RowKey, usize> = BTreeMap::new();
            for r in kept {
                let env = Env { db: Some(db), schema: &schema, row: &r, group: None, outer };
                let mut key = vec![];
                for g in &s.group_by {
                    if g.has_agg() {
                        return Err(EvalErr::Unsupported("aggregate in GROUP BY".into()));
                    }
                    key.push(g.eval_env(&env)?);
                }
                let n = groups.len();
                let gi = *index.entry(RowKey(key)).or_insert(n);
                if gi == n {
                    groups.push(vec![]);
                }
                groups[gi].push(r);
            }
        }
        for g in &groups {
            // evaluate an expression for the group: aggregates over the group, other column
            // references must take one value throughout the group
            let eval_g = |e: &Expr| -> Result<V, EvalErr> {
                let first: &Row = g.first().unwrap_or(&null_row);
                let v = e.eval_env(&Env { db: Some(db), schema: &schema, row: first, group: Some(g), outer })?;
                if e.has_bare_col() {
                    for r in g.iter().skip(1) {
                        let w = e.eval_env(&Env { db: Some(db), schema: &schema, row: r, group: Some(g), outer })?;
                        if total_cmp(&v, &w) != Ordering::Equal {
                            return Err(EvalErr::NotGrouped(e.to_sql()));
                        }
                    }
                }
                Ok(v)
            };
            if let Some(h) = &s.having {
                if !is_true(&eval_g(h)?)? {
                    continue;
                }
            }
            let mut row = vec![];
            for (e, _) in &items {
                row.push(eval_g(e)?);
            }
            let mut key = vec![];
            for k in &srcs {
                key.push(match k {
                    KeySrc::Out(i) => row[*i].clone(),
                    KeySrc::Expr(e) => eval_g(e)?,
                });
            }
            out_rows.push(row);
            out_keys.push(key);
        }
    } else {
        for r in &kept {
            let env = Env { db: Some(db), schema: &schema, row: r, group: None, outer };
            let mut row = vec![];
            for (e, _) in &items {
                row.push(e.eval_env(&env)?);
            }
            let mut key = vec![];
            for k in &srcs {
                key.push(match k {
                    KeySrc::Out(i) => row[*i].clone(),
                    KeySrc::Expr(e) => e.eval_env(&env)?,
                });
            }
            out_rows.push(row);
            out_keys.push(key);
        }
    }
    if s.distinct {
        // keys are functions of the output row here (KeySrc::Expr was rejected above)
        let mut seen = std::collections::BTreeSet::new();
        let mut rows2 = vec![];
        let mut keys2 = vec![];
        for (r, k) in out_rows.into_iter().zip(out_keys) {
            if seen.insert(RowKey(r.clone())) {
                rows2.push(r);
                keys2.push(k);
            }
        }
        out_rows = rows2;
        out_keys = keys2;
    }
    Ok(Produced { columns: items.into_iter().map(|(_, n)| n).collect(), rows: out_rows, keys: out_keys })
}

// ---------------------------------------------------------------------------
// static name resolution (no rows involved)
// ---------------------------------------------------------------------------

/// Chain of schemas visible to an expression: the current query's FROM row, then the enclosing queries'.
#[derive(Clone, Copy)]
pub struct Scope<'a> {
    pub schema: &'a Schema,
    pub outer: Option<&'a Scope<'a>>,
}

impl Expr {
    /// Check that every column reference resolves (unambiguously) and every table of every
    /// subquery exists — the errors a SQL engine raises when it prepares the statement.
    pub fn check_names(&self, scope: &Scope, db: &Database) -> Result<(), EvalErr> {
        match self {
            Expr::Col(c) => {
                let mut sc = Some(scope);
                while let Some(s) = sc {
                    match s.schema.resolve(c.table.as_deref(), &c.name) {
                        Err(()) => return Err(EvalErr::AmbiguousColumn(c.to_sql())),
                        Ok(Some(_)) => return Ok(()),
                        Ok(None) => sc = s.outer,
                    }
                }
                Err(EvalErr::NoSuchColumn(c.to_sql()))
            }
            Expr::InSub(a, q, _) => {
                a.check_names(scope, db)?;
                q.check_names(db, Some(scope)).map(|_| ())
            }
            Expr::Exists(q) | Expr::Scalar(q) => q.check_names(db, Some(scope)).map(|_| ()),
            other => {
                for c in other.children() {
                    c.check_names(scope, db)?;
                }
                Ok(())
            }
        }
    }
}

fn from_schema(f: &From, db: &Database, outer: Option<&Scope>) -> Result<Schema, EvalErr> {
    match f {
        From::Table { name, alias } => {
            let t = db.tables.get(name).ok_or_else(|| EvalErr::NoSuchTable(name.clone()))?;
            Ok(t.schema(alias.as_deref().unwrap_or(name)))
        }
        From::Derived { query, alias } => {
            let cols = query.check_names(db, outer)?;
            Ok(Schema { cols: cols.into_iter().map(|c| SchemaCol { table: Some(alias.clone()), name: c, ty: None }).collect() })
        }
        From::Join { left, right, on, .. } => {
            let l = from_schema(left, db, outer)?;
            let r = from_schema(right, db, outer)?;
            let schema = Schema { cols: l.cols.into_iter().chain(r.cols).collect() };
            if let Some(e) = on {
                e.check_names(&Scope { schema: &schema, outer }, db)?;
            }
            Ok(schema)
        }
    }
}

fn body_names(b: &Body, order_by: &[OrderKey], db: &Database, outer: Option<&Scope>) -> Result<Vec<String>, EvalErr> {
    match b {
        Body::Select(s) => {
            let schema = match &s.from {
                Some(f) => from_schema(f, db, outer)?,
                None => Schema::default(),
            };
            let scope = Scope { schema: &schema, outer };
            let mut names = vec![];
            let mut aliases = vec![];
            for it in &s.items {
                match it {
                    SelectItem::Expr { expr, alias } => {
                        expr.check_names(&scope, db)?;
                        names.push(item_name(expr, alias));
                        if let Some(a) = alias {
                            aliases.push(a.clone());
                        }
                    }
                    SelectItem::Star(q) => {
                        let before = names.len();
                        names.extend(schema.cols.iter().filter(|c| q.is_none() || c.table == *q).map(|c| c.name.clone()));
                        if names.len() == before {
                            return Err(EvalErr::NoSuchTable(format!("{}.*", q.clone().unwrap_or_default())));
                        }
                    }
                }
            }
            for e in s.where_.iter().chain(s.group_by.iter()).chain(s.having.iter()) {
                e.check_names(&scope, db)?;
            }
            for k in order_by {
                if let OrderBy::Expr(e) = &k.by {
                    let is_alias = matches!(e, Expr::Col(ColRef { table: None, name }) if aliases.contains(name));
                    if !is_alias {
                        e.check_names(&scope, db)?;
                    }
                }
            }
            Ok(names)
        }
        Body::SetOp { op, left, right, .. } => {
            let l = body_names(left, &[], db, outer)?;
            let r = body_names(right, &[], db, outer)?;
            if l.len() != r.len() {
                return Err(EvalErr::Arity(format!("{} of {} and {} columns", op.sql(), l.len(), r.len())));
            }
            Ok(l)
        }
    }
}

impl Query {
    /// Static check of the whole query (see `Expr::check_names`); returns the output column names.
    pub fn check_names(&self, db: &Database, outer: Option<&Scope>) -> Result<Vec<String>, EvalErr> {
        body_names(&self.body, &self.order_by, db, outer)
    }
}
