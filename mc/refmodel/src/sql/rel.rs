//! Relational DML / DDL / transaction model.
//!
//! Every statement is a value with `to_sql()` and `apply(&mut State)`.  `apply` works on a
//! copy of the whole state, then checks EVERY declared constraint of EVERY table on the
//! result and only then installs the copy — so a failing statement changes nothing
//! (statement atomicity) and "succeeds iff the resulting database satisfies every declared
//! constraint" holds by construction.  Transactions and savepoints keep whole-state copies.
//!
//! Decisions (documented choices; generators should stay clear of the ambiguous ones):
//! * Constraints are checked at END of statement on the resulting state (SQL standard): a
//!   multi-row UPDATE that permutes keys succeeds; a multi-row INSERT with a duplicate inside
//!   the statement fails as a whole.
//! * When several constraints are violated the reported class is the first of
//!   NotNull, Check, ConstraintPK, ConstraintUnique, FK (tables in name order).  Immediate errors
//!   (NoSuchTable, NoSuchColumn, Arity, Type, Eval) are raised while the rows are being built,
//!   in row order, before any constraint is looked at.  Compare only Ok/Err unless exactly one
//!   thing is wrong.
//! * PRIMARY KEY implies NOT NULL.  UNIQUE and unique indexes: a key with a NULL never collides.
//! * CHECK passes unless it evaluates to FALSE (NULL passes).  An evaluation error in a CHECK fails
//!   the statement with `ModelErr::Eval`.
//! * FOREIGN KEY: a child key with any NULL passes; otherwise a parent row with equal values must
//!   exist.  ON DELETE CASCADE removes the referencing rows (transitively), RESTRICT fails the
//!   statement with `FK`.  There are no ON UPDATE actions: changing a referenced key fails with `FK`.
//!   TRUNCATE behaves like DELETE without WHERE (including cascades / restrictions).
//!   DROP TABLE of a table that other tables reference fails with `Dependent`.
//! * AUTO_INCREMENT: an omitted (or explicit NULL) value becomes `auto_high + 1` where `auto_high`
//!   is the largest value the column EVER held (explicit inserts and updates included).  It survives
//!   DELETE, TRUNCATE and ROLLBACK (never restored by a rollback), so generated values are
//!   strictly above everything the column ever held.
//! * Type coercion on store: integers into REAL/FLOAT columns become floats; a float with an
//!   integral value into INT/BIGINT becomes an integer, with a fraction it is `Type` (SQL leaves
//!   rounding vs. truncation open — avoid); INT is 32-bit: out-of-range ⇒ `Type`; everything else
//!   must match exactly.
//! * UPDATE evaluates every SET expression on the OLD row; `count` is the number of rows matched by
//!   WHERE (changed or not).  RETURNING yields the inserted rows / the new rows / the deleted rows.
//!   DELETE/TRUNCATE `count` is the number of rows removed from the named table (cascaded rows
//!   are not counted).
//! * Transactions: BEGIN inside a transaction, COMMIT/ROLLBACK/SAVEPOINT/RELEASE/ROLLBACK TO outside
//!   one and unknown savepoint names are `Txn` errors.  ROLLBACK TO keeps the savepoint, destroys the
//!   later ones; RELEASE destroys the savepoint and the later ones; a repeated name refers to the
//!   most recent.  Snapshots contain the schema too (DDL inside a transaction is undone by ROLLBACK:
//!   whether the subject does that is its own business — keep DDL outside transactions).
//! * DROP COLUMN of a column used by a key, unique constraint, index, CHECK or foreign key (either
//!   side) fails with `Dependent` (dialects differ: avoid).  ADD COLUMN gives existing rows the
//!   declared DEFAULT, NULL if none; RENAME COLUMN rewrites keys, indexes, CHECKs and foreign keys.
use super::expr::{lit_sql, total_cmp, Env, EvalErr, Expr};
use super::query::{Database, Query, QueryResult, Scope, Table};
use super::{Schema, SchemaCol, Ty};
use crate::val::{Row, V};
use std::cmp::Ordering;
use std::collections::BTreeMap;

// ---------------------------------------------------------------------------
// errors / outcome
// ---------------------------------------------------------------------------

#[derive(Clone, Debug, PartialEq, Eq)]
pub enum ModelErr {
    ConstraintPK(String),
    ConstraintUnique(String),
    NotNull(String),
    Check(String),
    FK(String),
    NoSuchTable(String),
    NoSuchColumn(String),
    NoSuchIndex(String),
    TableExists(String),
    ColumnExists(String),
    IndexExists(String),
    /// value of the wrong type for the column (or out of the column's range)
    Type(String),
    /// wrong number of values in an INSERT row
    Arity(String),
    /// DDL refused because something else depends on the object
    Dependent(String),
    /// transaction-control statement in the wrong state / unknown savepoint
    Txn(String),
    /// expression evaluation failed (overflow, division by zero, type error, …)
    Eval(EvalErr),
}
impl ModelErr {
    /// short class name for signatures: "pk" "unique" "notnull" "check" "fk" "nosuchtable" …
    pub fn class(&self) -> &'static str {
        match self {
            ModelErr::ConstraintPK(_) => "pk",
            ModelErr::ConstraintUnique(_) => "unique",
            ModelErr::NotNull(_) => "notnull",
            ModelErr::Check(_) => "check",
            ModelErr::FK(_) => "fk",
            ModelErr::NoSuchTable(_) => "nosuchtable",
            ModelErr::NoSuchColumn(_) => "nosuchcolumn",
            ModelErr::NoSuchIndex(_) => "nosuchindex",
            ModelErr::TableExists(_) => "tableexists",
            ModelErr::ColumnExists(_) => "columnexists",
            ModelErr::IndexExists(_) => "indexexists",
            ModelErr::Type(_) => "type",
            ModelErr::Arity(_) => "arity",
            ModelErr::Dependent(_) => "dependent",
            ModelErr::Txn(_) => "txn",
            ModelErr::Eval(_) => "eval",
        }
    }
    /// is this a constraint violation (as opposed to a malformed statement)?
    pub fn is_constraint(&self) -> bool {
        matches!(self, ModelErr::ConstraintPK(_) | ModelErr::ConstraintUnique(_) | ModelErr::NotNull(_) | ModelErr::Check(_) | ModelErr::FK(_))
    }
}
impl From<EvalErr> for ModelErr {
    fn from(e: EvalErr) -> ModelErr {
        match e {
            EvalErr::NoSuchColumn(c) => ModelErr::NoSuchColumn(c),
            EvalErr::NoSuchTable(t) => ModelErr::NoSuchTable(t),
            o => ModelErr::Eval(o),
        }
    }
}

#[derive(Clone, Debug, PartialEq)]
pub enum Outcome {
    /// INSERT / UPDATE / DELETE / TRUNCATE
    Affected {
        count: usize,
        /// RETURNING rows (in row-processing order), `None` without a RETURNING clause
        returning: Option<Vec<Row>>,
        /// AUTO_INCREMENT values generated by this statement, in row order
        generated: Vec<i64>,
    },
    /// DDL and transaction control
    Done,
    /// `Stmt::Select`
    Rows(QueryResult),
}

// ---------------------------------------------------------------------------
// schema
// ---------------------------------------------------------------------------

#[derive(Clone, Copy, Debug, PartialEq, Eq)]
pub enum OnDelete {
    Restrict,
    Cascade,
}

#[derive(Clone, Debug, PartialEq, Eq)]
pub struct ForeignKey {
    pub columns: Vec<String>,
    pub ref_table: String,
    pub ref_columns: Vec<String>,
    pub on_delete: OnDelete,
}

#[derive(Clone, Debug, PartialEq, Eq)]
pub struct ColumnDef {
    pub name: String,
    pub ty: Ty,
    pub not_null: bool,
    pub default: Option<V>,
    pub auto_increment: bool,
    /// column-level `PRIMARY KEY`
    pub primary_key: bool,
    /// column-level `UNIQUE`
    pub unique: bool,
    /// column-level `CHECK (expr)`
    pub check: Option<Expr>,
    /// column-level `REFERENCES table(column) [ON DELETE …]`
    pub references: Option<(String, String, OnDelete)>,
}
impl ColumnDef {
    pub fn new(name: &str, ty: Ty) -> ColumnDef {
        ColumnDef { name: name.to_string(), ty, not_null: false, default: None, auto_increment: false, primary_key: false, unique: false, check: None, references: None }
    }
    pub fn primary_key(mut self) -> ColumnDef {
        self.primary_key = true;
        self
    }
    pub fn auto_increment(mut self) -> ColumnDef {
        self.auto_increment = true;
        self
    }
    pub fn not_null(mut self) -> ColumnDef {
        self.not_null = true;
        self
    }
    pub fn unique(mut self) -> ColumnDef {
        self.unique = true;
        self
    }
    pub fn default(mut self, v: V) -> ColumnDef {
        self.default = Some(v);
        self
    }
    pub fn check(mut self, e: Expr) -> ColumnDef {
        self.check = Some(e);
        self
    }
    pub fn references(mut self, table: &str, column: &str, on_delete: OnDelete) -> ColumnDef {
        self.references = Some((table.to_string(), column.to_string(), on_delete));
        self
    }
    pub fn to_sql(&self) -> String {
        let mut s = format!("{} {}", self.name, self.ty.sql_name());
        if self.primary_key {
            s.push_str(" PRIMARY KEY");
        }
        if self.auto_increment {
            s.push_str(" AUTO_INCREMENT");
        }
        if self.not_null {
            s.push_str(" NOT NULL");
        }
        if self.unique {
            s.push_str(" UNIQUE");
        }
        if let Some(d) = &self.default {
            s.push_str(&format!(" DEFAULT {}", default_sql(d)));
        }
        if let Some(c) = &self.check {
            s.push_str(&format!(" CHECK {}", paren(c)));
        }
        if let Some((t, c, od)) = &self.references {
            s.push_str(&format!(" REFERENCES {t}({c}){}", on_delete_sql(*od)));
        }
        s
    }
}
fn on_delete_sql(od: OnDelete) -> &'static str {
    match od {
        OnDelete::Restrict => " ON DELETE RESTRICT",
        OnDelete::Cascade => " ON DELETE CASCADE",
    }
}
/// DEFAULT literal: a signed literal without parentheses (`DEFAULT -1`)
fn default_sql(v: &V) -> String {
    match v {
        V::Int(i) if *i < 0 && *i != i64::MIN => format!("{i}"),
        V::Float(f) if f.is_finite() && *f < 0.0 => format!("{f:?}"),
        o => lit_sql(o),
    }
}
/// expression in parentheses exactly once (`to_sql` already parenthesises compound expressions)
fn paren(e: &Expr) -> String {
    let s = e.to_sql();
    match e {
        Expr::Lit(_) | Expr::Col(_) | Expr::Agg(..) => format!("({s})"),
        _ => s,
    }
}

#[derive(Clone, Debug, PartialEq, Eq)]
pub struct TableDef {
    pub name: String,
    pub columns: Vec<ColumnDef>,
    /// table-level `PRIMARY KEY (a, b)` (empty = none; a column-level flag is the alternative)
    pub primary_key: Vec<String>,
    /// table-level `UNIQUE (a, b)`
    pub uniques: Vec<Vec<String>>,
    /// table-level `CHECK (expr)`
    pub checks: Vec<Expr>,
    /// table-level `FOREIGN KEY (a) REFERENCES p(x) [ON DELETE …]`
    pub foreign_keys: Vec<ForeignKey>,
}
impl TableDef {
    pub fn new(name: &str) -> TableDef {
        TableDef { name: name.to_string(), columns: vec![], primary_key: vec![], uniques: vec![], checks: vec![], foreign_keys: vec![] }
    }
    pub fn col(mut self, c: ColumnDef) -> TableDef {
        self.columns.push(c);
        self
    }
    pub fn primary_key(mut self, cols: &[&str]) -> TableDef {
        self.primary_key = cols.iter().map(|s| s.to_string()).collect();
        self
    }
    pub fn unique(mut self, cols: &[&str]) -> TableDef {
        self.uniques.push(cols.iter().map(|s| s.to_string()).collect());
        self
    }
    pub fn check(mut self, e: Expr) -> TableDef {
        self.checks.push(e);
        self
    }
    pub fn foreign_key(mut self, cols: &[&str], ref_table: &str, ref_cols: &[&str], on_delete: OnDelete) -> TableDef {
        self.foreign_keys.push(ForeignKey { columns: cols.iter().map(|s| s.to_string()).collect(), ref_table: ref_table.to_string(), ref_columns: ref_cols.iter().map(|s| s.to_string()).collect(), on_delete });
        self
    }

    pub fn col_index(&self, name: &str) -> Option<usize> {
        self.columns.iter().position(|c| c.name == name)
    }
    /// primary-key columns (table-level declaration, else the column-level flags)
    pub fn pk_cols(&self) -> Vec<String> {
        if !self.primary_key.is_empty() {
            self.primary_key.clone()
        } else {
            self.columns.iter().filter(|c| c.primary_key).map(|c| c.name.clone()).collect()
        }
    }
    /// every UNIQUE column set (column-level and table-level; not the primary key, not indexes)
    pub fn unique_sets(&self) -> Vec<Vec<String>> {
        let mut v: Vec<Vec<String>> = self.columns.iter().filter(|c| c.unique).map(|c| vec![c.name.clone()]).collect();
        v.extend(self.uniques.iter().cloned());
        v
    }
    pub fn all_checks(&self) -> Vec<Expr> {
        let mut v: Vec<Expr> = self.columns.iter().filter_map(|c| c.check.clone()).collect();
        v.extend(self.checks.iter().cloned());
        v
    }
    pub fn all_fks(&self) -> Vec<ForeignKey> {
        let mut v: Vec<ForeignKey> = self
            .columns
            .iter()
            .filter_map(|c| c.references.as_ref().map(|(t, rc, od)| ForeignKey { columns: vec![c.name.clone()], ref_table: t.clone(), ref_columns: vec![rc.clone()], on_delete: *od }))
            .collect();
        v.extend(self.foreign_keys.iter().cloned());
        v
    }
    /// row schema: every column answers to `name` and to `table.name`
    pub fn schema(&self) -> Schema {
        Schema { cols: self.columns.iter().map(|c| SchemaCol { table: Some(self.name.clone()), name: c.name.clone(), ty: Some(c.ty) }).collect() }
    }
    pub fn to_sql(&self, if_not_exists: bool) -> String {
        let mut parts: Vec<String> = self.columns.iter().map(|c| c.to_sql()).collect();
        if !self.primary_key.is_empty() {
            parts.push(format!("PRIMARY KEY ({})", self.primary_key.join(", ")));
        }
        for u in &self.uniques {
            parts.push(format!("UNIQUE ({})", u.join(", ")));
        }
        for c in &self.checks {
            parts.push(format!("CHECK {}", paren(c)));
        }
        for f in &self.foreign_keys {
            parts.push(format!("FOREIGN KEY ({}) REFERENCES {}({}){}", f.columns.join(", "), f.ref_table, f.ref_columns.join(", "), on_delete_sql(f.on_delete)));
        }
        format!("CREATE TABLE {}{} ({})", if if_not_exists { "IF NOT EXISTS " } else { "" }, self.name, parts.join(", "))
    }
}

#[derive(Clone, Debug, PartialEq, Eq)]
pub struct IndexDef {
    pub name: String,
    pub table: String,
    pub columns: Vec<String>,
    pub unique: bool,
}

// ---------------------------------------------------------------------------
// state
// ---------------------------------------------------------------------------

#[derive(Clone, Debug, PartialEq)]
pub struct RelTable {
    pub def: TableDef,
    /// bag of rows in insertion order
    pub rows: Vec<Row>,
    /// largest value the AUTO_INCREMENT column ever held (0 initially); never rolled back
    pub auto_high: i64,
}

#[derive(Clone, Debug, PartialEq, Default)]
struct Snapshot {
    tables: BTreeMap<String, RelTable>,
    indexes: BTreeMap<String, IndexDef>,
}

#[derive(Clone, Debug, PartialEq, Default)]
pub struct State {
    pub tables: BTreeMap<String, RelTable>,
    pub indexes: BTreeMap<String, IndexDef>,
    /// `Some` while a transaction is open: the state at BEGIN and the savepoint stack
    txn: Option<(Snapshot, Vec<(String, Snapshot)>)>,
}

impl State {
    pub fn new() -> State {
        State::default()
    }
    pub fn in_transaction(&self) -> bool {
        self.txn.is_some()
    }
    /// names of the open savepoints, oldest first
    pub fn savepoints(&self) -> Vec<String> {
        self.txn.as_ref().map(|(_, s)| s.iter().map(|(n, _)| n.clone()).collect()).unwrap_or_default()
    }
    /// rows of a table in insertion order (empty if the table does not exist)
    pub fn rows(&self, table: &str) -> Vec<Row> {
        self.tables.get(table).map(|t| t.rows.clone()).unwrap_or_default()
    }
    /// every table as a sorted bag — comparable with `==`
    pub fn observe(&self) -> BTreeMap<String, Vec<Row>> {
        self.tables.iter().map(|(n, t)| (n.clone(), crate::val::bag(&t.rows))).collect()
    }
    /// the data as a `query::Database` (a copy), for `Query::eval`
    pub fn database(&self) -> Database {
        Database { tables: self.tables.iter().map(|(n, t)| (n.clone(), Table { columns: t.def.columns.iter().map(|c| (c.name.clone(), c.ty)).collect(), rows: t.rows.clone() })).collect() }
    }
    /// Does the current state satisfy every declared constraint?  (Always `Ok` for states
    /// produced by `apply`; exposed for checks that evaluate constraints on OBSERVED tables
    /// by loading them into a State.)
    pub fn validate(&self) -> Result<(), ModelErr> {
        self.validate_notnull()?;
        self.validate_checks()?;
        self.validate_keys()?;
        self.validate_fks()
    }

    fn snapshot(&self) -> Snapshot {
        Snapshot { tables: self.tables.clone(), indexes: self.indexes.clone() }
    }
    fn restore(&mut self, s: &Snapshot) {
        let old = std::mem::replace(&mut self.tables, s.tables.clone());
        self.indexes = s.indexes.clone();
        // AUTO_INCREMENT high-water marks are never rolled back
        for (n, t) in self.tables.iter_mut() {
            if let Some(o) = old.get(n) {
                t.auto_high = t.auto_high.max(o.auto_high);
            }
        }
    }
    fn table(&self, name: &str) -> Result<&RelTable, ModelErr> {
        self.tables.get(name).ok_or_else(|| ModelErr::NoSuchTable(name.to_string()))
    }
    fn table_mut(&mut self, name: &str) -> Result<&mut RelTable, ModelErr> {
        self.tables.get_mut(name).ok_or_else(|| ModelErr::NoSuchTable(name.to_string()))
    }

    fn validate_notnull(&self) -> Result<(), ModelErr> {
        for (tn, t) in &self.tables {
            let pk = t.def.pk_cols();
            for (i, c) in t.def.columns.iter().enumerate() {
                if (c.not_null || pk.contains(&c.name)) && t.rows.iter().any(|r| r[i].is_null()) {
                    return Err(ModelErr::NotNull(format!("{tn}.{}", c.name)));
                }
            }
        }
        Ok(())
    }
    fn validate_checks(&self) -> Result<(), ModelErr> {
        let db = self.database();
        for (tn, t) in &self.tables {
            let schema = t.def.schema();
            for chk in t.def.all_checks() {
                for r in &t.rows {
                    let v = chk.eval_env(&Env { db: Some(&db), schema: &schema, row: r, group: None, outer: None })?;
                    if super::expr::truth(&v)? == Some(false) {
                        return Err(ModelErr::Check(format!("{tn}: {}", chk.to_sql())));
                    }
                }
            }
        }
        Ok(())
    }
    fn key_of(def: &TableDef, cols: &[String], row: &Row) -> Result<Vec<V>, ModelErr> {
        cols.iter().map(|c| def.col_index(c).map(|i| row[i].clone()).ok_or_else(|| ModelErr::NoSuchColumn(format!("{}.{c}", def.name)))).collect()
    }
    fn has_duplicate(def: &TableDef, cols: &[String], rows: &[Row]) -> Result<bool, ModelErr> {
        let mut keys: Vec<Vec<V>> = vec![];
        for r in rows {
            let k = State::key_of(def, cols, r)?;
            if k.iter().any(|v| v.is_null()) {
                continue; // SQL NULL rule: never collides
            }
            if keys.iter().any(|o| keys_equal(o, &k)) {
                return Ok(true);
            }
            keys.push(k);
        }
        Ok(false)
    }
    fn validate_keys(&self) -> Result<(), ModelErr> {
        for (tn, t) in &self.tables {
            let pk = t.def.pk_cols();
            if !pk.is_empty() && State::has_duplicate(&t.def, &pk, &t.rows)? {
                return Err(ModelErr::ConstraintPK(tn.clone()));
            }
        }
        for (tn, t) in &self.tables {
            for u in t.def.unique_sets() {
                if State::has_duplicate(&t.def, &u, &t.rows)? {
                    return Err(ModelErr::ConstraintUnique(format!("{tn}({})", u.join(","))));
                }
            }
            for ix in self.indexes.values().filter(|ix| ix.unique && ix.table == *tn) {
                if State::has_duplicate(&t.def, &ix.columns, &t.rows)? {
                    return Err(ModelErr::ConstraintUnique(format!("{tn}({}) [index {}]", ix.columns.join(","), ix.name)));
                }
            }
        }
        Ok(())
    }
    /// child rows (indices) of `child` whose foreign key `fk` has no parent row
    fn dangling(&self, child: &RelTable, fk: &ForeignKey) -> Result<Vec<usize>, ModelErr> {
        let parent = self.table(&fk.ref_table)?;
        let mut out = vec![];
        for (i, r) in child.rows.iter().enumerate() {
            let k = State::key_of(&child.def, &fk.columns, r)?;
            if k.iter().any(|v| v.is_null()) {
                continue;
            }
            let mut found = false;
            for p in &parent.rows {
                if keys_equal(&State::key_of(&parent.def, &fk.ref_columns, p)?, &k) {
                    found = true;
                    break;
                }
            }
            if !found {
                out.push(i);
            }
        }
        Ok(out)
    }
    fn validate_fks(&self) -> Result<(), ModelErr> {
        for (tn, t) in &self.tables {
            for fk in t.def.all_fks() {
                if !self.dangling(t, &fk)?.is_empty() {
                    return Err(ModelErr::FK(format!("{tn}({}) -> {}({})", fk.columns.join(","), fk.ref_table, fk.ref_columns.join(","))));
                }
            }
        }
        Ok(())
    }
    /// ON DELETE CASCADE: remove referencing rows whose parent vanished, transitively
    fn cascade(&mut self) -> Result<(), ModelErr> {
        loop {
            let mut changed = false;
            let names: Vec<String> = self.tables.keys().cloned().collect();
            for tn in names {
                for fk in self.tables[&tn].def.all_fks() {
                    if fk.on_delete != OnDelete::Cascade {
                        continue;
                    }
                    let gone = self.dangling(&self.tables[&tn], &fk)?;
                    if !gone.is_empty() {
                        changed = true;
                        let t = self.tables.get_mut(&tn).unwrap();
                        let mut i = 0;
                        t.rows.retain(|_| {
                            i += 1;
                            !gone.contains(&(i - 1))
                        });
                    }
                }
            }
            if !changed {
                return Ok(());
            }
        }
    }
}

fn keys_equal(a: &[V], b: &[V]) -> bool {
    a.len() == b.len() && a.iter().zip(b).all(|(x, y)| total_cmp(x, y) == Ordering::Equal)
}

/// Value as stored in a column of type `ty` (see the module documentation).
pub fn coerce(v: &V, ty: Ty) -> Result<V, ModelErr> {
    let bad = || ModelErr::Type(format!("{} into {}", v.show(), ty.sql_name()));
    match (v, ty) {
        (V::Null, _) => Ok(V::Null),
        (V::Int(i), Ty::Int) => {
            if *i >= i32::MIN as i64 && *i <= i32::MAX as i64 { Ok(V::Int(*i)) } else { Err(bad()) }
        }
        (V::Int(i), Ty::BigInt) => Ok(V::Int(*i)),
        (V::Float(f), Ty::Int | Ty::BigInt) => {
            if f.fract() == 0.0 && *f >= -9223372036854775808.0 && *f < 9223372036854775808.0 {
                coerce(&V::Int(*f as i64), ty)
            } else {
                Err(bad())
            }
        }
        (V::Int(i), Ty::Real | Ty::Float) => Ok(V::Float(*i as f64)),
        (V::Float(f), Ty::Real | Ty::Float) => Ok(V::Float(*f)),
        (V::Text(_), Ty::Text) | (V::Blob(_), Ty::Blob) | (V::Bool(_), Ty::Bool) => Ok(v.clone()),
        _ => Err(bad()),
    }
}

// ---------------------------------------------------------------------------
// statements
// ---------------------------------------------------------------------------

#[derive(Clone, Debug, PartialEq, Eq)]
pub enum Returning {
    /// `RETURNING *`
    All,
    Exprs(Vec<Expr>),
}
impl Returning {
    fn to_sql(r: &Option<Returning>) -> String {
        match r {
            None => String::new(),
            Some(Returning::All) => " RETURNING *".into(),
            Some(Returning::Exprs(v)) => format!(" RETURNING {}", v.iter().map(|e| e.to_sql()).collect::<Vec<_>>().join(", ")),
        }
    }
}

#[derive(Clone, Debug, PartialEq, Eq)]
pub struct Insert {
    pub table: String,
    /// explicit column list; empty = all columns in table order
    pub columns: Vec<String>,
    /// one `Vec<Expr>` per row (constant expressions; usually literals)
    pub rows: Vec<Vec<Expr>>,
    pub returning: Option<Returning>,
}
impl Insert {
    pub fn values(table: &str, columns: &[&str], rows: Vec<Vec<Expr>>) -> Insert {
        Insert { table: table.to_string(), columns: columns.iter().map(|s| s.to_string()).collect(), rows, returning: None }
    }
    /// rows given as values
    pub fn literals(table: &str, columns: &[&str], rows: Vec<Row>) -> Insert {
        Insert::values(table, columns, rows.into_iter().map(|r| r.into_iter().map(Expr::Lit).collect()).collect())
    }
    pub fn returning_all(mut self) -> Insert {
        self.returning = Some(Returning::All);
        self
    }
    pub fn returning(mut self, exprs: Vec<Expr>) -> Insert {
        self.returning = Some(Returning::Exprs(exprs));
        self
    }
}
#[derive(Clone, Debug, PartialEq, Eq)]
pub struct Update {
    pub table: String,
    pub set: Vec<(String, Expr)>,
    pub where_: Option<Expr>,
    pub returning: Option<Returning>,
}
impl Update {
    pub fn new(table: &str, set: Vec<(&str, Expr)>, where_: Option<Expr>) -> Update {
        Update { table: table.to_string(), set: set.into_iter().map(|(c, e)| (c.to_string(), e)).collect(), where_, returning: None }
    }
    pub fn returning_all(mut self) -> Update {
        self.returning = Some(Returning::All);
        self
    }
    pub fn returning(mut self, exprs: Vec<Expr>) -> Update {
        self.returning = Some(Returning::Exprs(exprs));
        self
    }
}
#[derive(Clone, Debug, PartialEq, Eq)]
pub struct Delete {
    pub table: String,
    pub where_: Option<Expr>,
    pub returning: Option<Returning>,
}
impl Delete {
    pub fn new(table: &str, where_: Option<Expr>) -> Delete {
        Delete { table: table.to_string(), where_, returning: None }
    }
    pub fn returning_all(mut self) -> Delete {
        self.returning = Some(Returning::All);
        self
    }
    pub fn returning(mut self, exprs: Vec<Expr>) -> Delete {
        self.returning = Some(Returning::Exprs(exprs));
        self
    }
}
#[derive(Clone, Debug, PartialEq, Eq)]
pub struct CreateTable {
    pub def: TableDef,
    pub if_not_exists: bool,
}
impl CreateTable {
    pub fn new(def: TableDef) -> CreateTable {
        CreateTable { def, if_not_exists: false }
    }
}
#[derive(Clone, Debug, PartialEq, Eq)]
pub struct CreateIndex {
    pub index: IndexDef,
    pub if_not_exists: bool,
}
impl CreateIndex {
    pub fn new(name: &str, table: &str, columns: &[&str], unique: bool) -> CreateIndex {
        CreateIndex { index: IndexDef { name: name.to_string(), table: table.to_string(), columns: columns.iter().map(|s| s.to_string()).collect(), unique }, if_not_exists: false }
    }
}

#[derive(Clone, Debug, PartialEq, Eq)]
pub enum Stmt {
    Insert(Insert),
    Update(Update),
    Delete(Delete),
    Truncate { table: String },
    Begin,
    Commit,
    Rollback,
    Savepoint(String),
    Release(String),
    RollbackTo(String),
    CreateTable(CreateTable),
    DropTable { table: String, if_exists: bool },
    CreateIndex(CreateIndex),
    DropIndex { index: String, if_exists: bool },
    AddColumn { table: String, column: ColumnDef },
    DropColumn { table: String, column: String },
    RenameColumn { table: String, from: String, to: String },
    Select(Query),
}

impl Stmt {
    /// SQL text accepted by TurDB's parser.
    pub fn to_sql(&self) -> String {
        match self {
            Stmt::Insert(i) => {
                let cols = if i.columns.is_empty() { String::new() } else { format!(" ({})", i.columns.join(", ")) };
                let rows: Vec<String> = i.rows.iter().map(|r| format!("({})", r.iter().map(|e| e.to_sql()).collect::<Vec<_>>().join(", "))).collect();
                format!("INSERT INTO {}{cols} VALUES {}{}", i.table, rows.join(", "), Returning::to_sql(&i.returning))
            }
            Stmt::Update(u) => {
                let set: Vec<String> = u.set.iter().map(|(c, e)| format!("{c} = {}", e.to_sql())).collect();
                let w = u.where_.as_ref().map(|w| format!(" WHERE {}", w.to_sql())).unwrap_or_default();
                format!("UPDATE {} SET {}{w}{}", u.table, set.join(", "), Returning::to_sql(&u.returning))
            }
            Stmt::Delete(d) => {
                let w = d.where_.as_ref().map(|w| format!(" WHERE {}", w.to_sql())).unwrap_or_default();
                format!("DELETE FROM {}{w}{}", d.table, Returning::to_sql(&d.returning))
            }
            Stmt::Truncate { table } => format!("TRUNCATE TABLE {table}"),
            Stmt::Begin => "BEGIN".into(),
            Stmt::Commit => "COMMIT".into(),
            Stmt::Rollback => "ROLLBACK".into(),
            Stmt::Savepoint(s) => format!("SAVEPOINT {s}"),
            Stmt::Release(s) => format!("RELEASE SAVEPOINT {s}"),
            Stmt::RollbackTo(s) => format!("ROLLBACK TO SAVEPOINT {s}"),
            Stmt::CreateTable(c) => c.def.to_sql(c.if_not_exists),
            Stmt::DropTable { table, if_exists } => format!("DROP TABLE {}{table}", if *if_exists { "IF EXISTS " } else { "" }),
            Stmt::CreateIndex(c) => format!(
                "CREATE {}INDEX {}{} ON {} ({})",
                if c.index.unique { "UNIQUE " } else { "" },
                if c.if_not_exists { "IF NOT EXISTS " } else { "" },
                c.index.name,
                c.index.table,
                c.index.columns.join(", ")
            ),
            Stmt::DropIndex { index, if_exists } => format!("DROP INDEX {}{index}", if *if_exists { "IF EXISTS " } else { "" }),
            Stmt::AddColumn { table, column } => format!("ALTER TABLE {table} ADD COLUMN {}", column.to_sql()),
            Stmt::DropColumn { table, column } => format!("ALTER TABLE {table} DROP COLUMN {column}"),
            Stmt::RenameColumn { table, from, to } => format!("ALTER TABLE {table} RENAME COLUMN {from} TO {to}"),
            Stmt::Select(q) => q.to_sql(),
        }
    }

    /// Execute on the model.  On `Err` the state is unchanged.
    pub fn apply(&self, st: &mut State) -> Result<Outcome, ModelErr> {
        match self {
            Stmt::Begin => {
                if st.txn.is_some() {
                    return Err(ModelErr::Txn("BEGIN inside a transaction".into()));
                }
                st.txn = Some((st.snapshot(), vec![]));
                Ok(Outcome::Done)
            }
            Stmt::Commit => match st.txn.take() {
                Some(_) => Ok(Outcome::Done),
                None => Err(ModelErr::Txn("COMMIT without a transaction".into())),
            },
            Stmt::Rollback => match st.txn.take() {
                Some((begin, _)) => {
                    st.restore(&begin);
                    Ok(Outcome::Done)
                }
                None => Err(ModelErr::Txn("ROLLBACK without a transaction".into())),
            },
            Stmt::Savepoint(name) => {
                let snap = st.snapshot();
                match &mut st.txn {
                    Some((_, sps)) => {
                        sps.push((name.clone(), snap));
                        Ok(Outcome::Done)
                    }
                    None => Err(ModelErr::Txn("SAVEPOINT without a transaction".into())),
                }
            }
            Stmt::Release(name) => match &mut st.txn {
                Some((_, sps)) => match sps.iter().rposition(|(n, _)| n == name) {
                    Some(i) => {
                        sps.truncate(i);
                        Ok(Outcome::Done)
                    }
                    None => Err(ModelErr::Txn(format!("no savepoint {name}"))),
                },
                None => Err(ModelErr::Txn("RELEASE without a transaction".into())),
            },
            Stmt::RollbackTo(name) => {
                let snap = match &mut st.txn {
                    Some((_, sps)) => match sps.iter().rposition(|(n, _)| n == name) {
                        Some(i) => {
                            sps.truncate(i + 1);
                            sps[i].1.clone()
                        }
                        None => return Err(ModelErr::Txn(format!("no savepoint {name}"))),
                    },
                    None => return Err(ModelErr::Txn("ROLLBACK TO without a transaction".into())),
                };
                st.restore(&snap);
                Ok(Outcome::Done)
            }
            Stmt::Select(q) => Ok(Outcome::Rows(q.eval(&st.database())?)),
            _ => {
                let mut work = st.clone();
                let out = work.exec(self)?;
                work.validate()?;
                *st = work;
                Ok(out)
            }
        }
    }
}

/// static name check of DML expressions against the target table (errors even when no row is touched)
fn check_exprs<'a>(def: &TableDef, db: &Database, exprs: impl Iterator<Item = &'a Expr>) -> Result<(), ModelErr> {
    let schema = def.schema();
    let scope = Scope { schema: &schema, outer: None };
    for e in exprs {
        e.check_names(&scope, db)?;
    }
    Ok(())
}
fn returning_exprs(r: &Option<Returning>) -> Vec<&Expr> {
    match r {
        Some(Returning::Exprs(v)) => v.iter().collect(),
        _ => vec![],
    }
}

impl State {
    fn eval_returning(&self, def: &TableDef, db: &Database, ret: &Option<Returning>, rows: &[Row]) -> Result<Option<Vec<Row>>, ModelErr> {
        let schema = def.schema();
        Ok(match ret {
            None => None,
            Some(Returning::All) => Some(rows.to_vec()),
            Some(Returning::Exprs(es)) => {
                let mut out = vec![];
                for r in rows {
                    let env = Env { db: Some(db), schema: &schema, row: r, group: None, outer: None };
                    let mut o = vec![];
                    for e in es {
                        o.push(e.eval_env(&env)?);
                    }
                    out.push(o);
                }
                Some(out)
            }
        })
    }

    /// perform a DML/DDL statement on this (working) copy; constraints are validated by the caller
    fn exec(&mut self, s: &Stmt) -> Result<Outcome, ModelErr> {
        match s {
            Stmt::Insert(ins) => {
                let db = self.database();
                let t = self.table_mut(&ins.table)?;
                let def = t.def.clone();
                let targets: Vec<usize> = if ins.columns.is_empty() {
                    (0..def.columns.len()).collect()
                } else {
                    let mut v = vec![];
                    for c in &ins.columns {
                        let i = def.col_index(c).ok_or_else(|| ModelErr::NoSuchColumn(format!("{}.{c}", def.name)))?;
                        if v.contains(&i) {
                            return Err(ModelErr::Arity(format!("column {c} named twice")));
                        }
                        v.push(i);
                    }
                    v
                };
                let empty = Schema::default();
                check_exprs(&def, &db, returning_exprs(&ins.returning).into_iter())?;
                for e in ins.rows.iter().flatten() {
                    e.check_names(&Scope { schema: &empty, outer: None }, &db)?;
                }
                let mut generated = vec![];
                let mut new_rows = vec![];
                for r in &ins.rows {
                    if r.len() != targets.len() {
                        return Err(ModelErr::Arity(format!("{} values for {} columns", r.len(), targets.len())));
                    }
                    // defaults first, then the given values
                    let mut row: Row = def.columns.iter().map(|c| c.default.clone().unwrap_or(V::Null)).collect();
                    for (e, &i) in r.iter().zip(&targets) {
                        let v = e.eval_env(&Env { db: Some(&db), schema: &empty, row: &[], group: None, outer: None })?;
                        row[i] = coerce(&v, def.columns[i].ty)?;
                    }
                    for (i, c) in def.columns.iter().enumerate() {
                        if c.auto_increment {
                            if row[i].is_null() {
                                let next = t.auto_high.checked_add(1).ok_or(ModelErr::Eval(EvalErr::Overflow))?;
                                row[i] = coerce(&V::Int(next), c.ty)?;
                                generated.push(next);
                            }
                            if let V::Int(x) = row[i] {
                                t.auto_high = t.auto_high.max(x);
                            }
                        }
                    }
                    t.rows.push(row.clone());
                    new_rows.push(row);
                }
                let returning = self.eval_returning(&def, &db, &ins.returning, &new_rows)?;
                Ok(Outcome::Affected { count: new_rows.len(), returning, generated })
            }
            Stmt::Update(u) => {
                let db = self.database();
                let t = self.table_mut(&u.table)?;
                let def = t.def.clone();
                let schema = def.schema();
                let mut targets = vec![];
                for (c, _) in &u.set {
                    targets.push(def.col_index(c).ok_or_else(|| ModelErr::NoSuchColumn(format!("{}.{c}", def.name)))?);
                }
                check_exprs(&def, &db, u.set.iter().map(|(_, e)| e).chain(u.where_.iter()).chain(returning_exprs(&u.returning)))?;
                let mut new_rows = vec![];
                let mut count = 0;
                for k in 0..t.rows.len() {
                    let old = t.rows[k].clone();
                    let env = Env { db: Some(&db), schema: &schema, row: &old, group: None, outer: None };
                    let hit = match &u.where_ {
                        None => true,
                        Some(w) => super::expr::truth(&w.eval_env(&env)?).map_err(ModelErr::from)? == Some(true),
                    };
                    if !hit {
                        continue;
                    }
                    let mut row = old.clone();
                    for ((_, e), &i) in u.set.iter().zip(&targets) {
                        row[i] = coerce(&e.eval_env(&env)?, def.columns[i].ty)?;
                        if def.columns[i].auto_increment {
                            if let V::Int(x) = row[i] {
                                t.auto_high = t.auto_high.max(x);
                            }
                        }
                    }
                    t.rows[k] = row.clone();
                    new_rows.push(row);
                    count += 1;
                }
                let returning = self.eval_returning(&def, &db, &u.returning, &new_rows)?;
                Ok(Outcome::Affected { count, returning, generated: vec![] })
            }
            Stmt::Delete(d) => self.delete(&d.table, &d.where_, &d.returning),
            Stmt::Truncate { table } => self.delete(table, &None, &None),
            Stmt::CreateTable(c) => {
                if self.tables.contains_key(&c.def.name) {
                    return if c.if_not_exists { Ok(Outcome::Done) } else { Err(ModelErr::TableExists(c.def.name.clone())) };
                }
                let mut def = c.def.clone();
                let mut seen: Vec<&str> = vec![];
                for col in &def.columns {
                    if seen.contains(&col.name.as_str()) {
                        return Err(ModelErr::ColumnExists(format!("{}.{}", def.name, col.name)));
                    }
                    seen.push(&col.name);
                }
                for col in def.columns.iter_mut() {
                    if let Some(d) = &col.default {
                        col.default = Some(coerce(d, col.ty)?);
                    }
                }
                // every column named by a constraint must exist
                let mut named: Vec<String> = def.pk_cols();
                named.extend(def.unique_sets().into_iter().flatten());
                for fk in def.all_fks() {
                    named.extend(fk.columns.clone());
                    if fk.columns.len() != fk.ref_columns.len() {
                        return Err(ModelErr::Arity(format!("foreign key of {}", def.name)));
                    }
                    let parent = if fk.ref_table == def.name { &def } else { &self.table(&fk.ref_table)?.def };
                    for rc in &fk.ref_columns {
                        if parent.col_index(rc).is_none() {
                            return Err(ModelErr::NoSuchColumn(format!("{}.{rc}", fk.ref_table)));
                        }
                    }
                }
                for n in named {
                    if def.col_index(&n).is_none() {
                        return Err(ModelErr::NoSuchColumn(format!("{}.{n}", def.name)));
                    }
                }
                check_exprs(&def, &self.database(), def.all_checks().iter())?;
                self.tables.insert(def.name.clone(), RelTable { def, rows: vec![], auto_high: 0 });
                Ok(Outcome::Done)
            }
            Stmt::DropTable { table, if_exists } => {
                if !self.tables.contains_key(table) {
                    return if *if_exists { Ok(Outcome::Done) } else { Err(ModelErr::NoSuchTable(table.clone())) };
                }
                for (n, t) in &self.tables {
                    if n != table && t.def.all_fks().iter().any(|f| f.ref_table == *table) {
                        return Err(ModelErr::Dependent(format!("{n} references {table}")));
                    }
                }
                self.tables.remove(table);
                self.indexes.retain(|_, ix| ix.table != *table);
                Ok(Outcome::Done)
            }
            Stmt::CreateIndex(c) => {
                if self.indexes.contains_key(&c.index.name) {
                    return if c.if_not_exists { Ok(Outcome::Done) } else { Err(ModelErr::IndexExists(c.index.name.clone())) };
                }
                let t = self.table(&c.index.table)?;
                for col in &c.index.columns {
                    if t.def.col_index(col).is_none() {
                        return Err(ModelErr::NoSuchColumn(format!("{}.{col}", c.index.table)));
                    }
                }
                self.indexes.insert(c.index.name.clone(), c.index.clone());
                Ok(Outcome::Done)
            }
            Stmt::DropIndex { index, if_exists } => match self.indexes.remove(index) {
                Some(_) => Ok(Outcome::Done),
                None if *if_exists => Ok(Outcome::Done),
                None => Err(ModelErr::NoSuchIndex(index.clone())),
            },
            Stmt::AddColumn { table, column } => {
                let t = self.table_mut(table)?;
                if t.def.col_index(&column.name).is_some() {
                    return Err(ModelErr::ColumnExists(format!("{table}.{}", column.name)));
                }
                let mut column = column.clone();
                if let Some(d) = &column.default {
                    column.default = Some(coerce(d, column.ty)?);
                }
                let fill = column.default.clone().unwrap_or(V::Null);
                for r in t.rows.iter_mut() {
                    r.push(fill.clone());
                }
                t.def.columns.push(column);
                let def = t.def.clone();
                check_exprs(&def, &self.database(), def.all_checks().iter())?;
                Ok(Outcome::Done)
            }
            Stmt::DropColumn { table, column } => {
                let users = self.column_users(table, column)?;
                if let Some(u) = users.first() {
                    return Err(ModelErr::Dependent(format!("{table}.{column} is used by {u}")));
                }
                let t = self.table_mut(table)?;
                let i = t.def.col_index(column).ok_or_else(|| ModelErr::NoSuchColumn(format!("{table}.{column}")))?;
                if t.def.columns.len() == 1 {
                    return Err(ModelErr::Dependent(format!("{table}.{column} is the only column")));
                }
                t.def.columns.remove(i);
                for r in t.rows.iter_mut() {
                    r.remove(i);
                }
                Ok(Outcome::Done)
            }
            Stmt::RenameColumn { table, from, to } => {
                {
                    let t = self.table_mut(table)?;
                    let i = t.def.col_index(from).ok_or_else(|| ModelErr::NoSuchColumn(format!("{table}.{from}")))?;
                    if t.def.col_index(to).is_some() {
                        return Err(ModelErr::ColumnExists(format!("{table}.{to}")));
                    }
                    let ren = |v: &mut Vec<String>| {
                        for c in v.iter_mut() {
                            if c == from {
                                *c = to.clone();
                            }
                        }
                    };
                    t.def.columns[i].name = to.clone();
                    ren(&mut t.def.primary_key);
                    for u in t.def.uniques.iter_mut() {
                        ren(u);
                    }
                    for f in t.def.foreign_keys.iter_mut() {
                        ren(&mut f.columns);
                    }
                    for c in t.def.columns.iter_mut() {
                        if let Some(e) = &mut c.check {
                            e.rename_col(table, from, to);
                        }
                    }
                    for e in t.def.checks.iter_mut() {
                        e.rename_col(table, from, to);
                    }
                }
                for ix in self.indexes.values_mut().filter(|ix| ix.table == *table) {
                    for c in ix.columns.iter_mut() {
                        if c == from {
                            *c = to.clone();
                        }
                    }
                }
                // foreign keys (of any table, including this one) that reference the renamed column
                for t in self.tables.values_mut() {
                    for c in t.def.columns.iter_mut() {
                        if let Some((rt, rc, _)) = &mut c.references {
                            if rt == table && rc == from {
                                *rc = to.clone();
                            }
                        }
                    }
                    for f in t.def.foreign_keys.iter_mut().filter(|f| f.ref_table == *table) {
                        for c in f.ref_columns.iter_mut() {
                            if c == from {
                                *c = to.clone();
                            }
                        }
                    }
                }
                Ok(Outcome::Done)
            }
            Stmt::Begin | Stmt::Commit | Stmt::Rollback | Stmt::Savepoint(_) | Stmt::Release(_) | Stmt::RollbackTo(_) | Stmt::Select(_) => unreachable!("handled by apply"),
        }
    }

    fn delete(&mut self, table: &str, where_: &Option<Expr>, ret: &Option<Returning>) -> Result<Outcome, ModelErr> {
        let db = self.database();
        let t = self.table_mut(table)?;
        let def = t.def.clone();
        let schema = def.schema();
        check_exprs(&def, &db, where_.iter().chain(returning_exprs(ret)))?;
        let mut gone = vec![];
        let mut keep = vec![];
        for r in std::mem::take(&mut t.rows) {
            let hit = match where_ {
                None => true,
                Some(w) => super::expr::truth(&w.eval_env(&Env { db: Some(&db), schema: &schema, row: &r, group: None, outer: None })?).map_err(ModelErr::from)? == Some(true),
            };
            if hit { gone.push(r) } else { keep.push(r) }
        }
        t.rows = keep;
        self.cascade()?;
        let returning = self.eval_returning(&def, &db, ret, &gone)?;
        Ok(Outcome::Affected { count: gone.len(), returning, generated: vec![] })
    }

    /// what depends on column `table.column` (keys, unique sets, checks, indexes, foreign keys)
    fn column_users(&self, table: &str, column: &str) -> Result<Vec<String>, ModelErr> {
        let t = self.table(table)?;
        let col = column.to_string();
        let mut users = vec![];
        if t.def.pk_cols().contains(&col) {
            users.push("the primary key".to_string());
        }
        if t.def.unique_sets().iter().any(|u| u.contains(&col)) {
            users.push("a UNIQUE constraint".to_string());
        }
        if t.def.all_checks().iter().any(|e| e.columns().iter().any(|c| c.name == column)) {
            users.push("a CHECK constraint".to_string());
        }
        if t.def.all_fks().iter().any(|f| f.columns.contains(&col)) {
            users.push("a foreign key".to_string());
        }
        for ix in self.indexes.values() {
            if ix.table == table && ix.columns.contains(&col) {
                users.push(format!("index {}", ix.name));
            }
        }
        for (n, o) in &self.tables {
            if o.def.all_fks().iter().any(|f| f.ref_table == table && f.ref_columns.contains(&col)) {
                users.push(format!("a foreign key of {n}"));
            }
        }
        Ok(users)
    }
}
