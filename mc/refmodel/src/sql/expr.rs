//! Expression AST, SQL text rendering and the three-valued evaluator.
//!
//! Everything here is deliberately naive: one recursive function per concern,
//! no optimisation, no TurDB code.  See `sql/mod.rs` for the API overview and
//! the list of semantic decisions.
use super::query::{self, Database, Query};
use super::{Schema, Ty};
use crate::val::{Row, V};
use std::cmp::Ordering;

// ---------------------------------------------------------------------------
// AST
// ---------------------------------------------------------------------------

#[derive(Clone, Copy, Debug, PartialEq, Eq, PartialOrd, Ord, Hash)]
pub enum CmpOp {
    Eq,
    Ne,
    Lt,
    Le,
    Gt,
    Ge,
}
impl CmpOp {
    pub const ALL: [CmpOp; 6] = [CmpOp::Eq, CmpOp::Ne, CmpOp::Lt, CmpOp::Le, CmpOp::Gt, CmpOp::Ge];
    pub fn sql(self) -> &'static str {
        match self {
            CmpOp::Eq => "=",
            CmpOp::Ne => "<>",
            CmpOp::Lt => "<",
            CmpOp::Le => "<=",
            CmpOp::Gt => ">",
            CmpOp::Ge => ">=",
        }
    }
    /// does an ordering outcome satisfy the operator?
    pub fn holds(self, o: Ordering) -> bool {
        match self {
            CmpOp::Eq => o == Ordering::Equal,
            CmpOp::Ne => o != Ordering::Equal,
            CmpOp::Lt => o == Ordering::Less,
            CmpOp::Le => o != Ordering::Greater,
            CmpOp::Gt => o == Ordering::Greater,
            CmpOp::Ge => o != Ordering::Less,
        }
    }
}

#[derive(Clone, Copy, Debug, PartialEq, Eq, PartialOrd, Ord, Hash)]
pub enum ArithOp {
    Add,
    Sub,
    Mul,
    Div,
    Rem,
}
impl ArithOp {
    pub const ALL: [ArithOp; 5] = [ArithOp::Add, ArithOp::Sub, ArithOp::Mul, ArithOp::Div, ArithOp::Rem];
    pub fn sql(self) -> &'static str {
        match self {
            ArithOp::Add => "+",
            ArithOp::Sub => "-",
            ArithOp::Mul => "*",
            ArithOp::Div => "/",
            ArithOp::Rem => "%",
        }
    }
}

#[derive(Clone, Copy, Debug, PartialEq, Eq, PartialOrd, Ord, Hash)]
pub enum AggFunc {
    /// `COUNT(*)` when the argument is `None`, `COUNT(x)` otherwise
    Count,
    Sum,
    Avg,
    Min,
    Max,
}
impl AggFunc {
    pub fn sql(self) -> &'static str {
        match self {
            AggFunc::Count => "COUNT",
            AggFunc::Sum => "SUM",
            AggFunc::Avg => "AVG",
            AggFunc::Min => "MIN",
            AggFunc::Max => "MAX",
        }
    }
}

/// Column reference: `name` or `table.name` (table = table name or alias).
#[derive(Clone, Debug, PartialEq, Eq, PartialOrd, Ord, Hash)]
pub struct ColRef {
    pub table: Option<String>,
    pub name: String,
}

#[derive(Clone, Debug, PartialEq, Eq, PartialOrd, Ord, Hash)]
pub enum Expr {
    Lit(V),
    Col(ColRef),
    Cmp(CmpOp, Box<Expr>, Box<Expr>),
    And(Box<Expr>, Box<Expr>),
    Or(Box<Expr>, Box<Expr>),
    Not(Box<Expr>),
    IsNull(Box<Expr>),
    IsNotNull(Box<Expr>),
    /// `x [NOT] IN (list)`; the bool is `negated`
    In(Box<Expr>, Vec<Expr>, bool),
    /// `x [NOT] BETWEEN lo AND hi`; the bool is `negated`
    Between(Box<Expr>, Box<Expr>, Box<Expr>, bool),
    /// `x [NOT] LIKE pattern` (`%` any sequence, `_` one character, no escape, case sensitive)
    Like(Box<Expr>, Box<Expr>, bool),
    Arith(ArithOp, Box<Expr>, Box<Expr>),
    Neg(Box<Expr>),
    // ---- only meaningful inside a `Query` (plain `Expr::eval` returns NeedsQueryContext) ----
    /// aggregate call; `None` argument = `COUNT(*)` (only valid with `AggFunc::Count`)
    Agg(AggFunc, Option<Box<Expr>>),
    /// `x [NOT] IN (SELECT …)`; the bool is `negated`
    InSub(Box<Expr>, Box<Query>, bool),
    /// `EXISTS (SELECT …)`; `Not(Exists(..))` renders as `NOT EXISTS (…)`
    Exists(Box<Query>),
    /// scalar subquery `(SELECT …)`: 0 rows ⇒ NULL, 1 row ⇒ its value, more ⇒ error
    Scalar(Box<Query>),
}

#[derive(Clone, Debug, PartialEq, Eq)]
pub enum EvalErr {
    /// checked i64 arithmetic (also SUM) left the i64 range
    Overflow,
    /// `/` or `%` by zero (integer or float).  Callers accept NULL or an error from the subject.
    DivZero,
    /// operand types that SQL does not let meet (text vs number, arithmetic on text, non-boolean under AND …)
    Type(String),
    NoSuchColumn(String),
    AmbiguousColumn(String),
    NoSuchTable(String),
    /// scalar subquery returned more than one row
    ScalarSubqueryRows,
    /// scalar / IN subquery with a column count other than 1; set operation arity mismatch
    Arity(String),
    /// aggregate or subquery evaluated through the context-free `Expr::eval`, aggregate outside a grouped query
    NeedsQueryContext(String),
    /// a column that is neither grouped nor aggregated takes several values inside one group
    NotGrouped(String),
    /// construct outside the modelled subset (e.g. ORDER BY an expression that is not in a DISTINCT select list)
    Unsupported(String),
}
impl std::fmt::Display for EvalErr {
    fn fmt(&self, f: &mut std::fmt::Formatter<'_>) -> std::fmt::Result {
        write!(f, "{self:?}")
    }
}

// ---------------------------------------------------------------------------
// constructors (free functions so that they do not collide with std traits)
// ---------------------------------------------------------------------------

fn bx(e: Expr) -> Box<Expr> {
    Box::new(e)
}
/// unqualified column, or `"t.a"` (split at the first dot) for a qualified one
pub fn col(name: &str) -> Expr {
    match name.split_once('.') {
        Some((t, c)) => qcol(t, c),
        None => Expr::Col(ColRef { table: None, name: name.to_string() }),
    }
}
pub fn qcol(table: &str, name: &str) -> Expr {
    Expr::Col(ColRef { table: Some(table.to_string()), name: name.to_string() })
}
pub fn lit(v: V) -> Expr {
    Expr::Lit(v)
}
pub fn int(i: i64) -> Expr {
    Expr::Lit(V::Int(i))
}
pub fn float(f: f64) -> Expr {
    Expr::Lit(V::Float(f))
}
pub fn text(s: &str) -> Expr {
    Expr::Lit(V::Text(s.to_string()))
}
pub fn boolean(b: bool) -> Expr {
    Expr::Lit(V::Bool(b))
}
pub fn null() -> Expr {
    Expr::Lit(V::Null)
}
pub fn cmp(op: CmpOp, a: Expr, b: Expr) -> Expr {
    Expr::Cmp(op, bx(a), bx(b))
}
pub fn eq(a: Expr, b: Expr) -> Expr {
    cmp(CmpOp::Eq, a, b)
}
pub fn ne(a: Expr, b: Expr) -> Expr {
    cmp(CmpOp::Ne, a, b)
}
pub fn lt(a: Expr, b: Expr) -> Expr {
    cmp(CmpOp::Lt, a, b)
}
pub fn le(a: Expr, b: Expr) -> Expr {
    cmp(CmpOp::Le, a, b)
}
pub fn gt(a: Expr, b: Expr) -> Expr {
    cmp(CmpOp::Gt, a, b)
}
pub fn ge(a: Expr, b: Expr) -> Expr {
    cmp(CmpOp::Ge, a, b)
}
pub fn and(a: Expr, b: Expr) -> Expr {
    Expr::And(bx(a), bx(b))
}
pub fn or(a: Expr, b: Expr) -> Expr {
    Expr::Or(bx(a), bx(b))
}
pub fn not(a: Expr) -> Expr {
    Expr::Not(bx(a))
}
pub fn is_null(a: Expr) -> Expr {
    Expr::IsNull(bx(a))
}
pub fn is_not_null(a: Expr) -> Expr {
    Expr::IsNotNull(bx(a))
}
pub fn in_list(a: Expr, list: Vec<Expr>) -> Expr {
    Expr::In(bx(a), list, false)
}
pub fn not_in_list(a: Expr, list: Vec<Expr>) -> Expr {
    Expr::In(bx(a), list, true)
}
pub fn between(a: Expr, lo: Expr, hi: Expr) -> Expr {
    Expr::Between(bx(a), bx(lo), bx(hi), false)
}
pub fn not_between(a: Expr, lo: Expr, hi: Expr) -> Expr {
    Expr::Between(bx(a), bx(lo), bx(hi), true)
}
pub fn like(a: Expr, pat: Expr) -> Expr {
    Expr::Like(bx(a), bx(pat), false)
}
pub fn not_like(a: Expr, pat: Expr) -> Expr {
    Expr::Like(bx(a), bx(pat), true)
}
pub fn arith(op: ArithOp, a: Expr, b: Expr) -> Expr {
    Expr::Arith(op, bx(a), bx(b))
}
pub fn add(a: Expr, b: Expr) -> Expr {
    arith(ArithOp::Add, a, b)
}
pub fn sub(a: Expr, b: Expr) -> Expr {
    arith(ArithOp::Sub, a, b)
}
pub fn mul(a: Expr, b: Expr) -> Expr {
    arith(ArithOp::Mul, a, b)
}
pub fn div(a: Expr, b: Expr) -> Expr {
    arith(ArithOp::Div, a, b)
}
pub fn rem(a: Expr, b: Expr) -> Expr {
    arith(ArithOp::Rem, a, b)
}
pub fn neg(a: Expr) -> Expr {
    Expr::Neg(bx(a))
}
pub fn count_star() -> Expr {
    Expr::Agg(AggFunc::Count, None)
}
pub fn agg(f: AggFunc, arg: Expr) -> Expr {
    Expr::Agg(f, Some(bx(arg)))
}
pub fn count(arg: Expr) -> Expr {
    agg(AggFunc::Count, arg)
}
pub fn sum(arg: Expr) -> Expr {
    agg(AggFunc::Sum, arg)
}
pub fn avg(arg: Expr) -> Expr {
    agg(AggFunc::Avg, arg)
}
pub fn min(arg: Expr) -> Expr {
    agg(AggFunc::Min, arg)
}
pub fn max(arg: Expr) -> Expr {
    agg(AggFunc::Max, arg)
}
pub fn in_sub(a: Expr, q: Query) -> Expr {
    Expr::InSub(bx(a), Box::new(q), false)
}
pub fn not_in_sub(a: Expr, q: Query) -> Expr {
    Expr::InSub(bx(a), Box::new(q), true)
}
pub fn exists(q: Query) -> Expr {
    Expr::Exists(Box::new(q))
}
pub fn not_exists(q: Query) -> Expr {
    not(exists(q))
}
pub fn scalar(q: Query) -> Expr {
    Expr::Scalar(Box::new(q))
}

// ---------------------------------------------------------------------------
// SQL text
// ---------------------------------------------------------------------------

/// SQL literal for a value (negative numbers are parenthesised; `i64::MIN` is
/// spelled as a subtraction because TurDB reads `-9223372036854775808` as NULL).
pub fn lit_sql(v: &V) -> String {
    match v {
        V::Null => "NULL".into(),
        V::Bool(true) => "TRUE".into(),
        V::Bool(false) => "FALSE".into(),
        V::Int(i) => {
            if *i == i64::MIN {
                "(-9223372036854775807 - 1)".into()
            } else if *i < 0 {
                format!("({i})")
            } else {
                format!("{i}")
            }
        }
        V::Float(f) => {
            if f.is_nan() {
                "(0.0 / 0.0)".into() // no portable literal; not used by the enumerators
            } else if f.is_infinite() {
                if *f > 0.0 { "1e999".into() } else { "(-1e999)".into() }
            } else if *f < 0.0 || (*f == 0.0 && f.is_sign_negative()) {
                format!("({f:?})")
            } else {
                format!("{f:?}")
            }
        }
        V::Text(s) => format!("'{}'", s.replace('\'', "''")),
        V::Blob(b) => format!("x'{}'", b.iter().map(|x| format!("{x:02x}")).collect::<String>()),
        V::Other(s) => s.clone(),
    }
}

impl ColRef {
    pub fn to_sql(&self) -> String {
        match &self.table {
            Some(t) => format!("{t}.{}", self.name),
            None => self.name.clone(),
        }
    }
}

fn list_sql(list: &[Expr]) -> String {
    list.iter().map(|e| e.to_sql()).collect::<Vec<_>>().join(", ")
}

impl Expr {
    /// Fully parenthesised SQL text (accepted by TurDB's parser and by SQLite).
    pub fn to_sql(&self) -> String {
        match self {
            Expr::Lit(v) => lit_sql(v),
            Expr::Col(c) => c.to_sql(),
            Expr::Cmp(op, a, b) => format!("({} {} {})", a.to_sql(), op.sql(), b.to_sql()),
            Expr::And(a, b) => format!("({} AND {})", a.to_sql(), b.to_sql()),
            Expr::Or(a, b) => format!("({} OR {})", a.to_sql(), b.to_sql()),
            Expr::Not(a) => match &**a {
                Expr::Exists(q) => format!("(NOT EXISTS ({}))", q.to_sql()),
                _ => format!("(NOT {})", a.to_sql()),
            },
            Expr::IsNull(a) => format!("({} IS NULL)", a.to_sql()),
            Expr::IsNotNull(a) => format!("({} IS NOT NULL)", a.to_sql()),
            Expr::In(a, list, n) => format!("({} {}IN ({}))", a.to_sql(), if *n { "NOT " } else { "" }, list_sql(list)),
            Expr::Between(a, lo, hi, n) => {
                format!("({} {}BETWEEN {} AND {})", a.to_sql(), if *n { "NOT " } else { "" }, lo.to_sql(), hi.to_sql())
            }
            Expr::Like(a, p, n) => format!("({} {}LIKE {})", a.to_sql(), if *n { "NOT " } else { "" }, p.to_sql()),
            Expr::Arith(op, a, b) => format!("({} {} {})", a.to_sql(), op.sql(), b.to_sql()),
            Expr::Neg(a) => format!("(-{})", a.to_sql()),
            Expr::Agg(f, None) => format!("{}(*)", f.sql()),
            Expr::Agg(f, Some(a)) => format!("{}({})", f.sql(), a.to_sql()),
            Expr::InSub(a, q, n) => format!("({} {}IN ({}))", a.to_sql(), if *n { "NOT " } else { "" }, q.to_sql()),
            Expr::Exists(q) => format!("(EXISTS ({}))", q.to_sql()),
            Expr::Scalar(q) => format!("({})", q.to_sql()),
        }
    }

    /// Direct sub-expressions (not descending into subqueries); for blame assignment.
    pub fn children(&self) -> Vec<&Expr> {
        match self {
            Expr::Lit(_) | Expr::Col(_) | Expr::Exists(_) | Expr::Scalar(_) | Expr::Agg(_, None) => vec![],
            Expr::Cmp(_, a, b) | Expr::And(a, b) | Expr::Or(a, b) | Expr::Like(a, b, _) | Expr::Arith(_, a, b) => vec![a, b],
            Expr::Not(a) | Expr::IsNull(a) | Expr::IsNotNull(a) | Expr::Neg(a) | Expr::InSub(a, _, _) | Expr::Agg(_, Some(a)) => vec![a],
            Expr::In(a, list, _) => {
                let mut v: Vec<&Expr> = vec![a];
                v.extend(list.iter());
                v
            }
            Expr::Between(a, lo, hi, _) => vec![a, lo, hi],
        }
    }
    /// Nesting depth counting only NOT / AND / OR (an atom has depth 0).
    pub fn bool_depth(&self) -> usize {
        match self {
            Expr::Not(a) => 1 + a.bool_depth(),
            Expr::And(a, b) | Expr::Or(a, b) => 1 + a.bool_depth().max(b.bool_depth()),
            _ => 0,
        }
    }
    /// contains an aggregate call (not looking into subqueries)
    pub fn has_agg(&self) -> bool {
        matches!(self, Expr::Agg(..)) || self.children().iter().any(|c| c.has_agg())
    }
    /// contains a column reference outside of aggregate arguments (not looking into subqueries,
    /// whose correlated references are conservatively reported by `has_subquery`)
    pub(crate) fn has_bare_col(&self) -> bool {
        match self {
            Expr::Col(_) => true,
            Expr::Agg(..) => false,
            // a correlated subquery may read the current row: treat as a bare reference
            Expr::Exists(_) | Expr::Scalar(_) | Expr::InSub(..) => true,
            _ => self.children().iter().any(|c| c.has_bare_col()),
        }
    }
    /// rename every reference to column `old` (unqualified, or qualified by `table`) to `new`
    pub fn rename_col(&mut self, table: &str, old: &str, new: &str) {
        match self {
            Expr::Col(c) => {
                if c.name == old && c.table.as_deref().map_or(true, |t| t == table) {
                    c.name = new.to_string();
                }
            }
            Expr::Lit(_) | Expr::Exists(_) | Expr::Scalar(_) | Expr::Agg(_, None) => {}
            Expr::Cmp(_, a, b) | Expr::And(a, b) | Expr::Or(a, b) | Expr::Like(a, b, _) | Expr::Arith(_, a, b) => {
                a.rename_col(table, old, new);
                b.rename_col(table, old, new);
            }
            Expr::Not(a) | Expr::IsNull(a) | Expr::IsNotNull(a) | Expr::Neg(a) | Expr::InSub(a, _, _) | Expr::Agg(_, Some(a)) => a.rename_col(table, old, new),
            Expr::In(a, list, _) => {
                a.rename_col(table, old, new);
                for e in list {
                    e.rename_col(table, old, new);
                }
            }
            Expr::Between(a, lo, hi, _) => {
                a.rename_col(table, old, new);
                lo.rename_col(table, old, new);
                hi.rename_col(table, old, new);
            }
        }
    }
    /// names of the columns referenced (not looking into subqueries)
    pub fn columns(&self) -> Vec<&ColRef> {
        let mut out = vec![];
        fn walk<'a>(e: &'a Expr, out: &mut Vec<&'a ColRef>) {
            if let Expr::Col(c) = e {
                out.push(c);
            }
            for c in e.children() {
                walk(c, out);
            }
        }
        walk(self, &mut out);
        out
    }
}

// ---------------------------------------------------------------------------
// value-level SQL semantics
// ---------------------------------------------------------------------------

/// Exact comparison of an integer with a float (no rounding through f64).
fn cmp_int_float(i: i64, f: f64) -> Option<Ordering> {
    if f.is_nan() {
        return None;
    }
    if f >= 9223372036854775808.0 {
        return Some(Ordering::Less);
    }
    if f < -9223372036854775808.0 {
        return Some(Ordering::Greater);
    }
    let t = f.trunc(); // |t| < 2^63, so the cast below is exact
    let ti = t as i64;
    Some(match i.cmp(&ti) {
        Ordering::Equal => {
            let frac = f - t;
            if frac > 0.0 {
                Ordering::Less
            } else if frac < 0.0 {
                Ordering::Greater
            } else {
                Ordering::Equal
            }
        }
        o => o,
    })
}

/// SQL comparison of two values.  `Ok(None)` = UNKNOWN (a NULL operand, or a NaN).
/// Numbers compare by value across Int/Float, text and blobs bytewise, FALSE < TRUE.
/// Operands of different type classes are a type error.
pub fn sql_cmp(a: &V, b: &V) -> Result<Option<Ordering>, EvalErr> {
    Ok(match (a, b) {
        (V::Null, _) | (_, V::Null) => None,
        (V::Int(x), V::Int(y)) => Some(x.cmp(y)),
        (V::Float(x), V::Float(y)) => x.partial_cmp(y),
        (V::Int(x), V::Float(y)) => cmp_int_float(*x, *y),
        (V::Float(x), V::Int(y)) => cmp_int_float(*y, *x).map(|o| o.reverse()),
        (V::Text(x), V::Text(y)) => Some(x.as_bytes().cmp(y.as_bytes())),
        (V::Blob(x), V::Blob(y)) => Some(x.cmp(y)),
        (V::Bool(x), V::Bool(y)) => Some(x.cmp(y)),
        (V::Other(x), V::Other(y)) => Some(x.cmp(y)),
        _ => return Err(EvalErr::Type(format!("cannot compare {} with {}", a.show(), b.show()))),
    })
}

fn class_rank(v: &V) -> u8 {
    match v {
        V::Null => 0,
        V::Bool(_) => 1,
        V::Int(_) | V::Float(_) => 2,
        V::Text(_) => 3,
        V::Blob(_) => 4,
        V::Other(_) => 5,
    }
}

/// Total order used for ORDER BY, GROUP BY, DISTINCT and the set operations:
/// NULL equals NULL and sorts before every non-NULL value; numbers by value
/// (`Int(1)` equals `Float(1.0)`; NaN after every number); text/blob bytewise.
/// Values of different type classes (never produced by well-typed queries) are
/// ordered NULL < bool < number < text < blob < other.
pub fn total_cmp(a: &V, b: &V) -> Ordering {
    let (ra, rb) = (class_rank(a), class_rank(b));
    if ra != rb {
        return ra.cmp(&rb);
    }
    match sql_cmp(a, b) {
        Ok(Some(o)) => o,
        // both NULL, or NaN involved
        _ => match (a, b) {
            (V::Float(x), V::Float(y)) => x.is_nan().cmp(&y.is_nan()),
            (V::Float(x), _) => {
                if x.is_nan() { Ordering::Greater } else { Ordering::Equal }
            }
            (_, V::Float(y)) => {
                if y.is_nan() { Ordering::Less } else { Ordering::Equal }
            }
            _ => Ordering::Equal,
        },
    }
}
/// `total_cmp` lifted to rows (lexicographic; shorter row first on a common prefix).
pub fn total_cmp_rows(a: &[V], b: &[V]) -> Ordering {
    for (x, y) in a.iter().zip(b.iter()) {
        let o = total_cmp(x, y);
        if o != Ordering::Equal {
            return o;
        }
    }
    a.len().cmp(&b.len())
}

/// SQL LIKE: `%` matches any sequence of characters (also empty), `_` exactly one
/// character (a Unicode scalar value); everything else matches itself, case sensitively.
pub fn like_match(text: &str, pattern: &str) -> bool {
    let t: Vec<char> = text.chars().collect();
    let p: Vec<char> = pattern.chars().collect();
    fn m(t: &[char], p: &[char]) -> bool {
        match p.first() {
            None => t.is_empty(),
            Some('%') => (0..=t.len()).any(|k| m(&t[k..], &p[1..])),
            Some('_') => !t.is_empty() && m(&t[1..], &p[1..]),
            Some(c) => t.first() == Some(c) && m(&t[1..], &p[1..]),
        }
    }
    m(&t, &p)
}

/// Truth value of a V: `Some(true/false)` for Bool, `None` for NULL; anything else is a type error.
pub fn truth(v: &V) -> Result<Option<bool>, EvalErr> {
    match v {
        V::Null => Ok(None),
        V::Bool(b) => Ok(Some(*b)),
        o => Err(EvalErr::Type(format!("{} is not a truth value", o.show()))),
    }
}
fn tv(t: Option<bool>) -> V {
    match t {
        None => V::Null,
        Some(b) => V::Bool(b),
    }
}
/// Kleene AND / OR / NOT on `Option<bool>` (None = UNKNOWN).
pub fn and3(a: Option<bool>, b: Option<bool>) -> Option<bool> {
    match (a, b) {
        (Some(false), _) | (_, Some(false)) => Some(false),
        (Some(true), Some(true)) => Some(true),
        _ => None,
    }
}
pub fn or3(a: Option<bool>, b: Option<bool>) -> Option<bool> {
    match (a, b) {
        (Some(true), _) | (_, Some(true)) => Some(true),
        (Some(false), Some(false)) => Some(false),
        _ => None,
    }
}
pub fn not3(a: Option<bool>) -> Option<bool> {
    a.map(|b| !b)
}

/// `a op b` as a three-valued truth value.
pub fn cmp3(op: CmpOp, a: &V, b: &V) -> Result<Option<bool>, EvalErr> {
    Ok(sql_cmp(a, b)?.map(|o| op.holds(o)))
}

/// `x IN (items)`: TRUE if some item equals x, else UNKNOWN if x or some item is NULL
/// (and the list is not empty), else FALSE.  (= OR over `x = item`.)
pub fn in3(x: &V, items: &[V]) -> Result<Option<bool>, EvalErr> {
    let mut acc = Some(false);
    for it in items {
        acc = or3(acc, cmp3(CmpOp::Eq, x, it)?);
    }
    Ok(acc)
}

/// Binary arithmetic on values.  NULL operand ⇒ NULL; Int∘Int checked (`/` truncates
/// toward zero, `%` takes the sign of the dividend); any Float operand ⇒ f64 arithmetic;
/// a zero divisor (either type) ⇒ `DivZero`.
pub fn arith_v(op: ArithOp, a: &V, b: &V) -> Result<V, EvalErr> {
    match (a, b) {
        (V::Null, V::Null | V::Int(_) | V::Float(_)) | (V::Int(_) | V::Float(_), V::Null) => Ok(V::Null),
        (V::Int(x), V::Int(y)) => {
            let (x, y) = (*x, *y);
            let r = match op {
                ArithOp::Add => x.checked_add(y),
                ArithOp::Sub => x.checked_sub(y),
                ArithOp::Mul => x.checked_mul(y),
                ArithOp::Div => {
                    if y == 0 {
                        return Err(EvalErr::DivZero);
                    }
                    x.checked_div(y)
                }
                ArithOp::Rem => {
                    if y == 0 {
                        return Err(EvalErr::DivZero);
                    }
                    // i64::MIN % -1 is 0 mathematically (checked_rem reports overflow)
                    if y == -1 { Some(0) } else { x.checked_rem(y) }
                }
            };
            r.map(V::Int).ok_or(EvalErr::Overflow)
        }
        (V::Int(_) | V::Float(_), V::Int(_) | V::Float(_)) => {
            let (x, y) = (a.as_f64().unwrap(), b.as_f64().unwrap());
            Ok(V::Float(match op {
                ArithOp::Add => x + y,
                ArithOp::Sub => x - y,
                ArithOp::Mul => x * y,
                ArithOp::Div => {
                    if y == 0.0 {
                        return Err(EvalErr::DivZero);
                    }
                    x / y
                }
                ArithOp::Rem => {
                    if y == 0.0 {
                        return Err(EvalErr::DivZero);
                    }
                    x % y
                }
            }))
        }
        _ => Err(EvalErr::Type(format!("arithmetic {} on {} and {}", op.sql(), a.show(), b.show()))),
    }
}

// ---------------------------------------------------------------------------
// evaluation
// ---------------------------------------------------------------------------

/// Evaluation environment: the current row with its schema, optionally the rows
/// of the current group (aggregates), the database (subqueries) and the
/// environment of the enclosing query (correlated references).
#[derive(Clone, Copy)]
pub struct Env<'a> {
    pub db: Option<&'a Database>,
    pub schema: &'a Schema,
    pub row: &'a [V],
    pub group: Option<&'a [Row]>,
    pub outer: Option<&'a Env<'a>>,
}

impl<'a> Env<'a> {
    pub fn plain(schema: &'a Schema, row: &'a [V]) -> Env<'a> {
        Env { db: None, schema, row, group: None, outer: None }
    }
    fn lookup(&self, c: &ColRef) -> Result<V, EvalErr> {
        let mut e = Some(self);
        while let Some(env) = e {
            match env.schema.resolve(c.table.as_deref(), &c.name) {
                Err(()) => return Err(EvalErr::AmbiguousColumn(c.to_sql())),
                Ok(Some(i)) => {
                    return env.row.get(i).cloned().ok_or_else(|| EvalErr::NoSuchColumn(format!("{} (row shorter than schema)", c.to_sql())));
                }
                Ok(None) => e = env.outer,
            }
        }
        Err(EvalErr::NoSuchColumn(c.to_sql()))
    }
}

impl Expr {
    /// Evaluate against one row.  Aggregates and subqueries need a query (`Query::eval`).
    pub fn eval(&self, row: &[V], schema: &Schema) -> Result<V, EvalErr> {
        self.eval_env(&Env::plain(schema, row))
    }

    /// Evaluate as a predicate: `Some(true)`, `Some(false)` or `None` (UNKNOWN).
    pub fn eval_truth(&self, row: &[V], schema: &Schema) -> Result<Option<bool>, EvalErr> {
        truth(&self.eval(row, schema)?)
    }

    /// Full evaluator.  Every operand is evaluated (no short circuit): an `Err`
    /// means that *some* evaluation order raises it.
    pub fn eval_env(&self, env: &Env) -> Result<V, EvalErr> {
        match self {
            Expr::Lit(v) => Ok(v.clone()),
            Expr::Col(c) => env.lookup(c),
            Expr::Cmp(op, a, b) => {
                let (x, y) = (a.eval_env(env)?, b.eval_env(env)?);
                Ok(tv(cmp3(*op, &x, &y)?))
            }
            Expr::And(a, b) => {
                let (x, y) = (truth(&a.eval_env(env)?)?, truth(&b.eval_env(env)?)?);
                Ok(tv(and3(x, y)))
            }
            Expr::Or(a, b) => {
                let (x, y) = (truth(&a.eval_env(env)?)?, truth(&b.eval_env(env)?)?);
                Ok(tv(or3(x, y)))
            }
            Expr::Not(a) => Ok(tv(not3(truth(&a.eval_env(env)?)?))),
            Expr::IsNull(a) => Ok(V::Bool(a.eval_env(env)?.is_null())),
            Expr::IsNotNull(a) => Ok(V::Bool(!a.eval_env(env)?.is_null())),
            Expr::In(a, list, negated) => {
                let x = a.eval_env(env)?;
                let mut items = Vec::with_capacity(list.len());
                for e in list {
                    items.push(e.eval_env(env)?);
                }
                let r = in3(&x, &items)?;
                Ok(tv(if *negated { not3(r) } else { r }))
            }
            Expr::Between(a, lo, hi, negated) => {
                let (x, l, h) = (a.eval_env(env)?, lo.eval_env(env)?, hi.eval_env(env)?);
                let r = and3(cmp3(CmpOp::Ge, &x, &l)?, cmp3(CmpOp::Le, &x, &h)?);
                Ok(tv(if *negated { not3(r) } else { r }))
            }
            Expr::Like(a, p, negated) => {
                let (x, pat) = (a.eval_env(env)?, p.eval_env(env)?);
                let r = match (&x, &pat) {
                    (V::Null, V::Null | V::Text(_)) | (V::Text(_), V::Null) => None,
                    (V::Text(s), V::Text(p)) => Some(like_match(s, p)),
                    _ => return Err(EvalErr::Type(format!("LIKE on {} and {}", x.show(), pat.show()))),
                };
                Ok(tv(if *negated { not3(r) } else { r }))
            }
            Expr::Arith(op, a, b) => {
                let (x, y) = (a.eval_env(env)?, b.eval_env(env)?);
                arith_v(*op, &x, &y)
            }
            Expr::Neg(a) => match a.eval_env(env)? {
                V::Null => Ok(V::Null),
                V::Int(i) => i.checked_neg().map(V::Int).ok_or(EvalErr::Overflow),
                V::Float(f) => Ok(V::Float(-f)),
                o => Err(EvalErr::Type(format!("unary minus on {}", o.show()))),
            },
            Expr::Agg(f, arg) => {
                let Some(group) = env.group else {
                    return Err(EvalErr::NeedsQueryContext(format!("aggregate {} outside a grouped query", self.to_sql())));
                };
                let mut vals = Vec::with_capacity(group.len());
                if let Some(arg) = arg {
                    for r in group {
                        let inner = Env { db: env.db, schema: env.schema, row: r, group: None, outer: env.outer };
                        vals.push(arg.eval_env(&inner)?);
                    }
                }
                query::aggregate(*f, arg.is_some(), group.len(), &vals)
            }
            Expr::InSub(a, q, negated) => {
                let x = a.eval_env(env)?;
                let db = env.db.ok_or_else(|| EvalErr::NeedsQueryContext("IN (subquery)".into()))?;
                let res = q.eval_in(db, Some(env))?;
                if res.columns.len() != 1 {
                    return Err(EvalErr::Arity(format!("IN subquery returns {} columns", res.columns.len())));
                }
                let items: Vec<V> = res.rows.into_iter().map(|mut r| r.remove(0)).collect();
                let r = in3(&x, &items)?;
                Ok(tv(if *negated { not3(r) } else { r }))
            }
            Expr::Exists(q) => {
                let db = env.db.ok_or_else(|| EvalErr::NeedsQueryContext("EXISTS".into()))?;
                Ok(V::Bool(!q.eval_in(db, Some(env))?.rows.is_empty()))
            }
            Expr::Scalar(q) => {
                let db = env.db.ok_or_else(|| EvalErr::NeedsQueryContext("scalar subquery".into()))?;
                let res = q.eval_in(db, Some(env))?;
                if res.columns.len() != 1 {
                    return Err(EvalErr::Arity(format!("scalar subquery returns {} columns", res.columns.len())));
                }
                match res.rows.len() {
                    0 => Ok(V::Null),
                    1 => Ok(res.rows[0][0].clone()),
                    _ => Err(EvalErr::ScalarSubqueryRows),
                }
            }
        }
    }
}

// ---------------------------------------------------------------------------
// result-type tolerance helpers
// ---------------------------------------------------------------------------

/// Equality modulo the result-type choices SQL leaves open: identical values, or two
/// numbers with the same value (`Int(2)` ~ `Float(2.0)`), or two floats within a
/// relative 1e-9 (summation order of AVG / float SUM).  NULL ~ NULL.
pub fn loosely_equal(a: &V, b: &V) -> bool {
    if a == b {
        return true;
    }
    match (a, b) {
        (V::Int(_), V::Float(_)) | (V::Float(_), V::Int(_)) => sql_cmp(a, b) == Ok(Some(Ordering::Equal)),
        (V::Float(x), V::Float(y)) => {
            if x.is_nan() || y.is_nan() || x.is_infinite() || y.is_infinite() {
                return x == y || (x.is_nan() && y.is_nan());
            }
            (x - y).abs() <= 1e-9 * x.abs().max(y.abs()).max(1.0)
        }
        _ => false,
    }
}
/// `loosely_equal`, additionally identifying truth values with 0/1 (`Bool(true)` ~ `Int(1)`):
/// TurDB reports some predicates in the select list as integers.
pub fn loosely_equal_bool(a: &V, b: &V) -> bool {
    fn unbool(v: &V) -> V {
        match v {
            V::Bool(b) => V::Int(*b as i64),
            o => o.clone(),
        }
    }
    loosely_equal(a, b) || loosely_equal(&unbool(a), &unbool(b))
}
pub fn rows_loosely_equal(a: &[V], b: &[V]) -> bool {
    a.len() == b.len() && a.iter().zip(b).all(|(x, y)| loosely_equal(x, y))
}
/// Canonical representative for loose comparison of bags: truth values become 0/1 when
/// `bools` is set, floats with an integral value in the i64 range become Int.  (Does not
/// absorb the 1e-9 float tolerance: use `bags_loosely_equal` for that.)
pub fn canon(v: &V, bools: bool) -> V {
    match v {
        V::Bool(b) if bools => V::Int(*b as i64),
        V::Float(f) if f.fract() == 0.0 && *f >= -9223372036854775808.0 && *f < 9223372036854775808.0 => V::Int(*f as i64),
        o => o.clone(),
    }
}
/// Are the two bags of rows equal up to `eq` on values?  (Greedy matching after an exact
/// pass; `eq` must be an equivalence on the values that actually occur.)
pub fn bags_equal_by(a: &[Row], b: &[Row], eq: &dyn Fn(&V, &V) -> bool) -> bool {
    if a.len() != b.len() {
        return false;
    }
    let mut used = vec![false; b.len()];
    'next: for ra in a {
        for (j, rb) in b.iter().enumerate() {
            if !used[j] && ra.len() == rb.len() && ra.iter().zip(rb).all(|(x, y)| eq(x, y)) {
                used[j] = true;
                continue 'next;
            }
        }
        return false;
    }
    true
}
pub fn bags_loosely_equal(a: &[Row], b: &[Row]) -> bool {
    bags_equal_by(a, b, &loosely_equal)
}

// ---------------------------------------------------------------------------
// enumerators
// ---------------------------------------------------------------------------

/// Constants offered to `atoms`: per type class.  `like` are LIKE patterns.
#[derive(Clone, Debug, Default)]
pub struct Consts {
    pub ints: Vec<i64>,
    pub floats: Vec<f64>,
    pub texts: Vec<String>,
    pub like: Vec<String>,
}
impl Consts {
    /// the constants of DESIGN C14's table (a∈{-1,0,1,2}, b∈{-1.0,0.5,1.0,2.0}, c∈{'','a','ab','b'})
    pub fn c14() -> Consts {
        Consts {
            ints: vec![0, 1, 2],
            floats: vec![0.5, 1.0],
            texts: vec!["a".into(), "ab".into()],
            like: vec!["a%".into(), "_b".into(), "a_".into(), "%".into(), "a".into()],
        }
    }
}

#[derive(Clone, Copy, PartialEq, Eq)]
enum Class {
    Num,
    Text,
    Other,
}
fn class_of(t: Ty) -> Class {
    match t {
        Ty::Int | Ty::BigInt | Ty::Real | Ty::Float => Class::Num,
        Ty::Text => Class::Text,
        Ty::Blob | Ty::Bool => Class::Other,
    }
}
fn consts_of(class: Class, k: &Consts) -> Vec<Expr> {
    match class {
        Class::Num => k.ints.iter().map(|i| int(*i)).chain(k.floats.iter().map(|f| float(*f))).collect(),
        Class::Text => k.texts.iter().map(|s| text(s)).collect(),
        Class::Other => vec![],
    }
}

/// All type-compatible atomic predicates over the columns of `schema` (columns of
/// numeric and text types only) and the given constants, as in DESIGN C14:
/// `x cmp y` for y another compatible column (each unordered pair once), a constant
/// or NULL, plus the reversed form `k cmp x` for the first constant; `x IS [NOT] NULL`;
/// `x [NOT] IN (k1, k2)` and `(k1, NULL)`; `x [NOT] BETWEEN k1 AND k2`, `NULL AND k2`;
/// `c [NOT] LIKE pattern` and `LIKE NULL` for text columns.  Numbers only meet
/// numbers and text only meets text.  Deterministic order, no duplicates.
pub fn atoms(schema: &Schema, k: &Consts) -> Vec<Expr> {
    let cols: Vec<(Expr, Class)> = schema
        .cols
        .iter()
        .filter_map(|c| {
            let cl = class_of(c.ty?);
            if cl == Class::Other {
                return None;
            }
            let e = match &c.table {
                Some(t) => qcol(t, &c.name),
                None => col(&c.name),
            };
            Some((e, cl))
        })
        .collect();
    let mut out: Vec<Expr> = vec![];
    for (i, (x, cl)) in cols.iter().enumerate() {
        let ks = consts_of(*cl, k);
        // comparisons
        let mut rhs: Vec<Expr> = cols.iter().skip(i + 1).filter(|(_, c2)| c2 == cl).map(|(y, _)| y.clone()).collect();
        rhs.extend(ks.iter().cloned());
        rhs.push(null());
        for y in &rhs {
            for op in CmpOp::ALL {
                out.push(cmp(op, x.clone(), y.clone()));
            }
        }
        if let Some(k0) = ks.first() {
            for op in CmpOp::ALL {
                out.push(cmp(op, k0.clone(), x.clone()));
            }
        }
        out.push(is_null(x.clone()));
        out.push(is_not_null(x.clone()));
        if ks.len() >= 2 {
            let (k1, k2) = (ks[0].clone(), ks[ks.len() - 1].clone());
            for negated in [false, true] {
                out.push(Expr::In(bx(x.clone()), vec![k1.clone(), k2.clone()], negated));
                out.push(Expr::In(bx(x.clone()), vec![k1.clone(), null()], negated));
                out.push(Expr::Between(bx(x.clone()), bx(k1.clone()), bx(k2.clone()), negated));
                out.push(Expr::Between(bx(x.clone()), bx(null()), bx(k2.clone()), negated));
            }
        } else if let Some(k1) = ks.first() {
            for negated in [false, true] {
                out.push(Expr::In(bx(x.clone()), vec![k1.clone()], negated));
                out.push(Expr::In(bx(x.clone()), vec![k1.clone(), null()], negated));
            }
        }
        if *cl == Class::Text {
            for negated in [false, true] {
                for p in &k.like {
                    out.push(Expr::Like(bx(x.clone()), bx(text(p)), negated));
                }
                out.push(Expr::Like(bx(x.clone()), bx(null()), negated));
            }
        }
    }
    dedup(out)
}

/// A small core of `atoms`: one atom per operator and NULL-involvement class
/// (column–constant, column–NULL literal, column–column for each comparison
/// operator; IS [NOT] NULL; [NOT] IN with and without NULL; [NOT] BETWEEN with and
/// without a NULL bound; [NOT] LIKE with a pattern and with NULL), rotating through the
/// columns so that every column type takes part.  About 40 atoms for C14's table.
pub fn core_atoms(schema: &Schema, k: &Consts) -> Vec<Expr> {
    let all = atoms(schema, k);
    // classify every atom; keep the first `per` atoms of every class, taking columns in rotation
    fn shape(e: &Expr) -> String {
        fn kind(e: &Expr) -> &'static str {
            match e {
                Expr::Lit(V::Null) => "null",
                Expr::Lit(_) => "const",
                Expr::Col(_) => "col",
                _ => "expr",
            }
        }
        match e {
            Expr::Cmp(op, a, b) => format!("cmp{}:{}:{}", op.sql(), kind(a), kind(b)),
            Expr::IsNull(_) => "isnull".into(),
            Expr::IsNotNull(_) => "isnotnull".into(),
            Expr::In(_, l, n) => format!("in:{}:{}", n, l.iter().any(|x| matches!(x, Expr::Lit(V::Null)))),
            Expr::Between(_, lo, _, n) => format!("between:{}:{}", n, kind(lo)),
            Expr::Like(_, p, n) => format!("like:{}:{}", n, kind(p)),
            _ => "other".into(),
        }
    }
    fn first_col(e: &Expr) -> String {
        e.columns().first().map(|c| c.to_sql()).unwrap_or_default()
    }
    let mut classes: Vec<(String, Vec<Expr>)> = vec![];
    for a in all {
        let s = shape(&a);
        match classes.iter_mut().find(|(k, _)| *k == s) {
            Some((_, v)) => v.push(a),
            None => classes.push((s, vec![a])),
        }
    }
    // rotate: class number n prefers the atom whose leading column is column (n mod #cols)
    let colnames: Vec<String> = {
        let mut v: Vec<String> = vec![];
        for (_, members) in &classes {
            for m in members {
                let c = first_col(m);
                if !v.contains(&c) {
                    v.push(c);
                }
            }
        }
        v
    };
    let mut out = vec![];
    for (n, (_, members)) in classes.iter().enumerate() {
        let mut pick = None;
        for off in 0..colnames.len().max(1) {
            let want = &colnames[(n + off) % colnames.len().max(1)];
            if let Some(m) = members.iter().find(|m| &first_col(m) == want) {
                pick = Some(m.clone());
                break;
            }
        }
        out.push(pick.unwrap_or_else(|| members[0].clone()));
    }
    dedup(out)
}

fn dedup(v: Vec<Expr>) -> Vec<Expr> {
    let mut seen = std::collections::BTreeSet::new();
    let mut out = vec![];
    for e in v {
        if seen.insert(e.clone()) {
            out.push(e);
        }
    }
    out
}

/// Iterator over all NOT / AND / OR trees over `atoms` with `bool_depth() <= depth`,
/// simplest first: all trees of depth 0 (the atoms), then depth 1, … .  Within one depth:
/// `NOT t`, then `l AND r`, then `l OR r` (ordered pairs: both `x AND y` and `y AND x`).
/// Trees of the last depth are produced lazily; the lower depths are materialised
/// (`trees_count` tells how many there are: 40 atoms give 40 / 3 280 / 21 523 360 trees
/// for depth ≤ 0 / 1 / 2).
pub fn trees(atoms: &[Expr], depth: usize) -> Trees {
    Trees { levels: vec![atoms.to_vec()], max_depth: depth, cur_depth: 0, pos: 0, done: atoms.is_empty() }
}
/// Number of trees `trees(atoms, depth)` yields for `n` atoms.
pub fn trees_count(n: u128, depth: usize) -> u128 {
    let mut upto_prev: u128 = 0; // trees of depth < d
    let mut exact: u128 = n; // trees of depth exactly d
    for _ in 0..depth {
        let upto = upto_prev + exact;
        // depth d+1: NOT over exact; AND/OR with max(child depth) == d
        let next = exact + 2 * (upto * upto - upto_prev * upto_prev);
        upto_prev = upto;
        exact = next;
    }
    upto_prev + exact
}

pub struct Trees {
    /// levels[d] = all trees of depth exactly d, for d < cur_depth (and d == 0)
    levels: Vec<Vec<Expr>>,
    max_depth: usize,
    cur_depth: usize,
    pos: u128,
    done: bool,
}
impl Trees {
    fn lower_total(&self, below: usize) -> usize {
        self.levels[..below].iter().map(|l| l.len()).sum()
    }
    fn nth_lower(&self, below: usize, mut i: usize) -> &Expr {
        for l in &self.levels[..below] {
            if i < l.len() {
                return &l[i];
            }
            i -= l.len();
        }
        unreachable!()
    }
    /// the `pos`-th tree of depth exactly `d` (d ≥ 1), or None past the end
    fn make(&self, d: usize, pos: u128) -> Option<Expr> {
        let top = &self.levels[d - 1]; // depth exactly d-1
        let nt = top.len() as u128;
        let nl = self.lower_total(d - 1) as u128; // depth < d-1
        let all = nt + nl; // depth <= d-1, ordered: lower levels first, then top
        if pos < nt {
            return Some(not(top[pos as usize].clone()));
        }
        let mut p = pos - nt;
        // pairs (l, r) over `all` × `all` with at least one of them in `top`:
        //   block A: l in top, r in all      (nt * all)
        //   block B: l in lower, r in top    (nl * nt)
        let per_op = nt * all + nl * nt;
        let op = p / per_op;
        if op >= 2 {
            return None;
        }
        p %= per_op;
        let pick_all = |i: u128| -> Expr {
            if i < nl { self.nth_lower(d - 1, i as usize).clone() } else { top[(i - nl) as usize].clone() }
        };
        let (l, r) = if p < nt * all {
            (top[(p / all) as usize].clone(), pick_all(p % all))
        } else {
            let q = p - nt * all;
            (self.nth_lower(d - 1, (q / nt) as usize).clone(), top[(q % nt) as usize].clone())
        };
        Some(if op == 0 { and(l, r) } else { or(l, r) })
    }
}
impl Iterator for Trees {
    type Item = Expr;
    fn next(&mut self) -> Option<Expr> {
        loop {
            if self.done {
                return None;
            }
            if self.cur_depth == 0 {
                if (self.pos as usize) < self.levels[0].len() {
                    let e = self.levels[0][self.pos as usize].clone();
                    self.pos += 1;
                    return Some(e);
                }
            } else if let Some(e) = self.make(self.cur_depth, self.pos) {
                self.pos += 1;
                return Some(e);
            }
            // level exhausted
            if self.cur_depth == self.max_depth {
                self.done = true;
                return None;
            }
            // materialise the level just finished (if it was generated lazily) so the next can build on it
            if self.cur_depth >= 1 {
                let d = self.cur_depth;
                let mut v = vec![];
                let mut p = 0u128;
                while let Some(e) = self.make(d, p) {
                    v.push(e);
                    p += 1;
                }
                self.levels.push(v);
            }
            self.cur_depth += 1;
            self.pos = 0;
        }
    }
}
