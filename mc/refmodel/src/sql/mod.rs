//! SQL reference model: three-valued expression evaluator (`expr`), bag-semantics
//! SELECT evaluator (`query`) and a relational DML/DDL engine (`rel`).
//! Boring on purpose (nested loops, whole-state copies), contains NO TurDB code and is
//! cross-checked against SQLite by `tests/sqlite_crosscheck.rs` (bounded-exhaustive).
//!
//! # API in one page
//!
//! ```text
//! Ty            Int | BigInt | Real | Float | Text | Blob | Bool      (.sql_name())
//! Schema        list of SchemaCol{table: Option<String>, name, ty: Option<Ty>}
//!               Schema::of(&[("a",Ty::Int),..])  Schema::of_table("t", &[..])  Schema::names(&["a",..])
//!
//! expr::Expr    Lit Col Cmp And Or Not IsNull IsNotNull In Between Like Arith Neg
//!               | Agg InSub Exists Scalar            (these four only inside a Query)
//!   constructors (free fns): col("a") col("t.a") qcol int float text boolean null lit(V)
//!               eq ne lt le gt ge cmp(op,..) and or not is_null is_not_null in_list not_in_list
//!               between not_between like not_like add sub mul div rem neg
//!               count_star count sum avg min max in_sub not_in_sub exists not_exists scalar
//!   e.to_sql() -> String                      fully parenthesised, TurDB + SQLite compatible
//!   e.eval(&row, &schema) -> Result<V, EvalErr>          truth values are V::Bool / V::Null
//!   e.eval_truth(&row, &schema) -> Result<Option<bool>, EvalErr>
//!   e.eval_env(&Env{db, schema, row, group, outer})      the full evaluator (subqueries, aggregates)
//!   e.check_names(&Scope{schema, outer}, &db)            static name resolution (what "prepare" reports)
//!   e.children() / e.bool_depth() / e.columns() / e.has_agg() / e.rename_col(table, old, new)
//!   value level: sql_cmp total_cmp total_cmp_rows like_match and3 or3 not3 cmp3 in3 arith_v truth
//!   tolerances : loosely_equal loosely_equal_bool rows_loosely_equal bags_loosely_equal bags_equal_by canon
//!   enumerators: atoms(&schema,&Consts) core_atoms(&schema,&Consts) trees(&atoms,depth) trees_count(n,depth)
//!
//! query::Query  {body: Body::Select(Select) | Body::SetOp{op,all,left,right}, order_by, limit, offset}
//!   Select{distinct, items: Vec<SelectItem>, from: Option<From>, where_, group_by, having}
//!   SelectItem::{Expr{expr,alias}, Star(Option<table>)}   From::{Table, Derived, Join{kind,left,right,on}}
//!   builders: Query::star("t") Query::cols("t", vec![..]) Query::select(items, from) Query::from_select(s)
//!             Query::set_op(op, all, l, r)  .distinct() .where_(p) .group_by(v) .having(p)
//!             .order_by(vec![OrderKey::asc(e), OrderKey::ordinal(2,true)]) .limit(n) .offset(n)
//!             From::table("t") From::table_as("t","x") From::derived(q,"d") f.join(kind, g, Some(on))
//!   q.to_sql() -> String
//!   q.eval(&Database) -> Result<QueryResult, EvalErr>     (resolves all names first: q.check_names(&db, None))
//!   Database{tables: BTreeMap<String, Table{columns: Vec<(String,Ty)>, rows: Vec<Row>}>}
//!   QueryResult{columns, rows (ONE valid answer), full, keys, desc, offset, limit}
//!     .accepts(&observed) / .accepts_loose(&observed) / .accepts_by(&observed, eq) -> Result<(), String>
//!     .window() -> Window::{Exact, TieAmbiguous}   .is_ordered()
//!   free helpers: order_check(rows, &[(col,desc)])  is_valid_order(bag_with_keys, desc, observed)
//!                 accepts_window(..)  window_kind(..)  cmp_keys  aggregate  set_op  distinct
//!
//! rel::State    tables + indexes + transaction stack; State::new(), .database() (view for Query::eval),
//!               .rows("t"), .observe() (sorted bags of every table)
//! rel::Stmt     Insert Update Delete Truncate Begin Commit Rollback Savepoint Release RollbackTo
//!               CreateTable DropTable CreateIndex DropIndex AddColumn DropColumn RenameColumn Select
//!   s.to_sql() -> String
//!   s.apply(&mut State) -> Result<Outcome, ModelErr>
//!   Outcome::{Affected{count, returning: Option<Vec<Row>>, generated: Vec<i64>}, Done, Rows(QueryResult)}
//!   ModelErr::{ConstraintPK, ConstraintUnique, NotNull, Check, FK, NoSuchTable, NoSuchColumn, NoSuchIndex,
//!              TableExists, ColumnExists, IndexExists, Type, Arity, Dependent, Txn, Eval(EvalErr)}
//! ```
//!
//! # Examples
//!
//! ```
//! use refmodel::sql::{expr::*, query::*, rel::*, Schema, Ty};
//! use refmodel::val::V;
//!
//! // --- expr: a predicate, its SQL text and its three-valued value on one row
//! let schema = Schema::of(&[("a", Ty::Int), ("c", Ty::Text)]);
//! let p = or(gt(col("a"), int(0)), not(like(col("c"), text("a%"))));
//! assert_eq!(p.to_sql(), "((a > 0) OR (NOT (c LIKE 'a%')))");
//! assert_eq!(p.eval(&[V::Null, V::Text("ab".into())], &schema), Ok(V::Null));     // UNKNOWN OR FALSE
//! assert_eq!(p.eval_truth(&[V::Int(1), V::Null], &schema), Ok(Some(true)));
//! // all NOT/AND/OR trees of depth <= 1 over the C14 atom core, simplest first
//! let t = Schema::of(&[("a", Ty::Int), ("b", Ty::Real), ("c", Ty::Text)]);
//! let core = core_atoms(&t, &Consts::c14());
//! assert_eq!(trees(&core, 1).count() as u128, trees_count(core.len() as u128, 1));
//!
//! // --- query: evaluate on a Database, accept any correct ordering of ties
//! let db = Database::new().with("t", Table::new(&[("a", Ty::Int), ("c", Ty::Text)],
//!     vec![vec![V::Int(2), V::Text("x".into())], vec![V::Null, V::Text("y".into())], vec![V::Int(2), V::Text("z".into())]]));
//! let q = Query::cols("t", vec![col("a"), col("c")]).order_by(vec![OrderKey::asc(col("a"))]).limit(2);
//! assert_eq!(q.to_sql(), "SELECT a, c FROM t ORDER BY a ASC LIMIT 2");
//! let r = q.eval(&db).unwrap();
//! assert_eq!(r.window(), Window::TieAmbiguous);                       // the two a=2 rows tie at the cut
//! assert!(r.accepts(&[vec![V::Null, V::Text("y".into())], vec![V::Int(2), V::Text("z".into())]]).is_ok());
//! assert!(r.accepts(&[vec![V::Int(2), V::Text("x".into())], vec![V::Null, V::Text("y".into())]]).is_err()); // NULL first
//! let g = Query::cols("t", vec![col("a"), count_star(), sum(col("a"))]).group_by(vec![col("a")]);
//! assert_eq!(refmodel::val::bag(&g.eval(&db).unwrap().rows),
//!            vec![vec![V::Null, V::Int(1), V::Null], vec![V::Int(2), V::Int(2), V::Int(4)]]);
//!
//! // --- rel: statements are values; apply() mutates the State or fails atomically
//! let mut st = State::new();
//! Stmt::CreateTable(CreateTable::new(TableDef::new("t")
//!     .col(ColumnDef::new("id", Ty::Int).primary_key())
//!     .col(ColumnDef::new("v", Ty::Int).check(gt(col("v"), int(0)))))).apply(&mut st).unwrap();
//! let ins = Stmt::Insert(Insert::values("t", &[], vec![vec![int(1), int(5)], vec![int(1), int(6)]]));
//! assert_eq!(ins.to_sql(), "INSERT INTO t VALUES (1, 5), (1, 6)");
//! assert_eq!(ins.apply(&mut st), Err(ModelErr::ConstraintPK("t".into())));
//! assert!(st.rows("t").is_empty());                                    // statement-atomic: nothing applied
//! let ins = Stmt::Insert(Insert::values("t", &["id", "v"], vec![vec![int(1), int(5)]]).returning_all());
//! assert_eq!(ins.apply(&mut st), Ok(Outcome::Affected { count: 1, returning: Some(vec![vec![V::Int(1), V::Int(5)]]), generated: vec![] }));
//! ```
//!
//! # Semantic decisions (every one is a documented choice; the callers' tolerances follow from them)
//!
//! * Truth values are `V::Bool` / `V::Null`.  TurDB reports some predicates in a select list as
//!   integers 0/1: compare with `loosely_equal_bool`.
//! * Comparison: NULL operand ⇒ NULL; Int↔Float exactly by value; text and blobs bytewise; FALSE < TRUE;
//!   a NaN operand ⇒ UNKNOWN.  Operands of different type classes (text vs number …) ⇒ `EvalErr::Type`
//!   (the enumerators never build them).
//! * AND/OR/NOT: Kleene.  No short circuit: every operand is evaluated, so an `Err` means "some
//!   evaluation order raises"; a subject that short-circuits may legitimately return a value.
//! * `x IN (list)` = OR of `x = item` (so: TRUE if any equal, else NULL if x or an item is NULL, else
//!   FALSE; an empty list / empty subquery gives FALSE even for NULL x).  NOT IN = NOT of that.
//! * BETWEEN = `x >= lo AND x <= hi`; NOT BETWEEN its negation.
//! * LIKE: `%` / `_` (one Unicode scalar), case SENSITIVE (as TurDB; SQLite needs
//!   `PRAGMA case_sensitive_like=ON`), no ESCAPE; NULL operand ⇒ NULL.
//! * Arithmetic: NULL operand ⇒ NULL; Int∘Int checked (`Overflow`); `/` on integers truncates toward zero,
//!   `%` has the sign of the dividend (README silent; TurDB, SQLite and PostgreSQL agree); Int∘Float ⇒ Float;
//!   zero divisor ⇒ `DivZero` for integers AND floats (callers accept NULL or an error);
//!   `i64::MIN % -1` = 0; `-i64::MIN` and `i64::MIN / -1` ⇒ `Overflow`.
//! * Aggregates ignore NULLs except COUNT(*); empty/all-NULL input: COUNT 0, others NULL.  SUM of integers is
//!   Int (checked), SUM with any float is Float; AVG is always Float (use `loosely_equal`); MIN/MAX by SQL comparison.
//! * GROUP BY / DISTINCT / UNION / INTERSECT / EXCEPT identify rows by `total_cmp` (NULL = NULL, `1` = `1.0`).
//!   A non-aggregated expression in a grouped query must take one value per group, else `NotGrouped`.
//!   An aggregate query without GROUP BY has exactly one group (also on empty input).
//! * Set operations: UNION ALL m+n, INTERSECT ALL min(m,n), EXCEPT ALL max(m−n,0); without ALL each row once.
//!   Column names come from the left operand.  ORDER BY on a set operation may only use ordinals or output names.
//! * Joins: INNER/LEFT/RIGHT/FULL need ON (TRUE keeps the pair, NULL does not); unmatched rows are NULL-padded.
//! * Subqueries: correlated references resolve innermost scope first; an unqualified name matching two columns
//!   of one scope ⇒ `AmbiguousColumn`.  Scalar subquery: 0 rows ⇒ NULL, > 1 row ⇒ `ScalarSubqueryRows`.
//! * ORDER BY: NULL first ascending, last descending (TurDB's documented placement); stable; a key is (1) an
//!   explicit select-list alias, (2) an expression equal to a select-list expression, (3) any expression over
//!   the source row (not with DISTINCT).  The model's `rows` are ONE valid answer; `accepts*` decides validity
//!   of any observed list (ties in any order, tie-cutting windows, LIMIT without ORDER BY = any sub-bag).
//! * Names are resolved statically before any row is looked at (`check_names`): an unknown table or column
//!   is an error even on an empty table, in queries and in DML (WHERE, SET, RETURNING, CHECK).
//! * `rel`: see the module documentation of `rel` (constraint timing, error classification order,
//!   AUTO_INCREMENT, TRUNCATE, DDL dependencies, type coercion).
//!
//! # What `to_sql` avoids because of TurDB's parser / front end (probed with `probe`)
//!
//! Every construct above is accepted by TurDB's parser in the spelling `to_sql` emits (the catalogue is
//! `tests/sql_unit.rs::dump_sql_catalogue`).  Spellings chosen on purpose:
//! * `-9223372036854775808` reads as NULL ⇒ `i64::MIN` is rendered `(-9223372036854775807 - 1)`; other
//!   negative literals are rendered `(-1)`, except `DEFAULT -1` (a parenthesised default is accepted but
//!   ignored; note that TurDB at this commit also reads NULL for a negative DEFAULT).
//! * `NOT (EXISTS (…))` trips the known NOT defect ⇒ `Not(Exists(q))` is rendered `(NOT EXISTS (…))`.
//! * `x IN ()` does not parse ⇒ never build an empty IN list for TurDB.
//! * `OFFSET n` without LIMIT is not portable ⇒ rendered `LIMIT 9223372036854775807 OFFSET n`.
//! * The operands of a set operation cannot be parenthesised (SQLite) and precedence differs between
//!   dialects ⇒ a nested set operation is rendered as `SELECT * FROM (…) AS _sN`.
//! * `INSERT … VALUES` accepts only literals in TurDB ("expected literal expression") ⇒ use
//!   `Insert::literals`; the keyword `DEFAULT` inside VALUES is not accepted either (omit the column).
//! * An integer literal stored into a REAL/FLOAT column is stored as raw bits by TurDB (`5` reads back as
//!   `2.5e-323`) ⇒ render float-column values as `V::Float` (the model's `coerce` does this on its side).
//! * `SAVEPOINT` outside a transaction is an error in TurDB too ("no transaction in progress").
pub mod expr;
pub mod query;
pub mod rel;

pub use expr::{loosely_equal, loosely_equal_bool, EvalErr, Expr};
pub use query::{Database, Query, QueryResult, Table};

/// Column types of the model.  `Real` and `Float` both hold f64 values (use values exactly
/// representable in f32 for `Real` if the subject stores 32 bits).
#[derive(Clone, Copy, Debug, PartialEq, Eq, PartialOrd, Ord, Hash)]
pub enum Ty {
    /// 32-bit signed integer (`INT`)
    Int,
    /// 64-bit signed integer (`BIGINT`)
    BigInt,
    /// `REAL`
    Real,
    /// `FLOAT`
    Float,
    Text,
    Blob,
    /// `BOOLEAN`
    Bool,
}
impl Ty {
    pub fn sql_name(self) -> &'static str {
        match self {
            Ty::Int => "INT",
            Ty::BigInt => "BIGINT",
            Ty::Real => "REAL",
            Ty::Float => "FLOAT",
            Ty::Text => "TEXT",
            Ty::Blob => "BLOB",
            Ty::Bool => "BOOLEAN",
        }
    }
}

#[derive(Clone, Debug, PartialEq, Eq, PartialOrd, Ord, Hash)]
pub struct SchemaCol {
    /// qualifier (table name or alias) under which `table.name` finds the column
    pub table: Option<String>,
    pub name: String,
    /// known for base-table columns; `None` for computed columns
    pub ty: Option<Ty>,
}

/// Names (and types) of the columns of a row, for name resolution.
#[derive(Clone, Debug, PartialEq, Eq, PartialOrd, Ord, Hash, Default)]
pub struct Schema {
    pub cols: Vec<SchemaCol>,
}
impl Schema {
    /// unqualified typed columns
    pub fn of(cols: &[(&str, Ty)]) -> Schema {
        Schema { cols: cols.iter().map(|(n, t)| SchemaCol { table: None, name: n.to_string(), ty: Some(*t) }).collect() }
    }
    /// typed columns that also answer to `table.name`
    pub fn of_table(table: &str, cols: &[(&str, Ty)]) -> Schema {
        Schema { cols: cols.iter().map(|(n, t)| SchemaCol { table: Some(table.to_string()), name: n.to_string(), ty: Some(*t) }).collect() }
    }
    /// untyped, unqualified columns
    pub fn names(names: &[&str]) -> Schema {
        Schema { cols: names.iter().map(|n| SchemaCol { table: None, name: n.to_string(), ty: None }).collect() }
    }
    /// Index of the column `name` / `table.name`: `Ok(None)` if absent, `Err(())` if ambiguous.
    /// Names are compared exactly (case sensitive).
    pub fn resolve(&self, table: Option<&str>, name: &str) -> Result<Option<usize>, ()> {
        let mut found = None;
        for (i, c) in self.cols.iter().enumerate() {
            if c.name == name && table.map_or(true, |t| c.table.as_deref() == Some(t)) {
                if found.is_some() {
                    return Err(());
                }
                found = Some(i);
            }
        }
        Ok(found)
    }
}
