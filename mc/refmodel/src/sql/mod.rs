//! SQL reference model (relational engine + three-valued expression evaluator).
//! Owned by the refmodel-sql work package; no TurDB code here.
