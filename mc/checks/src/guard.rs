//! Guard-paged buffers: the bytes handed to a decoder end exactly at a
//! PROT_NONE page, so any read past the input is a SIGSEGV (a verdict for
//! `crash_is_verdict` checks) instead of a silent over-read.
pub struct GuardBuf {
    base: *mut u8,
    cap: usize, // usable bytes before the guard page
    total: usize,
}
unsafe impl Send for GuardBuf {}

impl GuardBuf {
    pub fn new(cap_bytes: usize) -> GuardBuf {
        let page = 4096usize;
        let cap = (cap_bytes + page - 1) / page * page;
        let total = cap + page;
        unsafe {
            let p = libc::mmap(std::ptr::null_mut(), total, libc::PROT_READ | libc::PROT_WRITE, libc::MAP_PRIVATE | libc::MAP_ANONYMOUS, -1, 0);
            assert!(p != libc::MAP_FAILED, "mmap guard buffer");
            let r = libc::mprotect((p as *mut u8).add(cap) as *mut libc::c_void, page, libc::PROT_NONE);
            assert_eq!(r, 0, "mprotect guard page");
            GuardBuf { base: p as *mut u8, cap, total }
        }
    }
    /// Copy `bytes` so that they END at the guard page; returns the slice.
    pub fn place<'a>(&'a mut self, bytes: &[u8]) -> &'a mut [u8] {
        assert!(bytes.len() <= self.cap);
        unsafe {
            let start = self.base.add(self.cap - bytes.len());
            std::ptr::copy_nonoverlapping(bytes.as_ptr(), start, bytes.len());
            std::slice::from_raw_parts_mut(start, bytes.len())
        }
    }
    /// A zeroed writable slice of `len` bytes ending at the guard page.
    pub fn tail<'a>(&'a mut self, len: usize) -> &'a mut [u8] {
        assert!(len <= self.cap);
        unsafe {
            let start = self.base.add(self.cap - len);
            std::ptr::write_bytes(start, 0, len);
            std::slice::from_raw_parts_mut(start, len)
        }
    }
}
impl Drop for GuardBuf {
    fn drop(&mut self) {
        unsafe {
            libc::munmap(self.base as *mut libc::c_void, self.total);
        }
    }
}
