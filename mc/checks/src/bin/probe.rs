//! Scratch probe: `probe "<sql>; <sql>; ..."` runs statements on a fresh database and prints results.
use checks::sqlh::*;
fn main() {
    vcore::quiet_panics();
    let base = std::path::PathBuf::from(format!("/dev/shm/turdb_verif/probe_{}", std::process::id()));
    let mut t = TestDb::create(&base, "db").expect("create");
    for arg in std::env::args().skip(1) {
        for stmt in arg.split(";;") {
            let s = stmt.trim();
            if s.is_empty() { continue; }
            if s == "@reopen" { println!("reopen: {:?}", t.reopen()); continue; }
            if s == "@close_reopen" { println!("close_reopen: {:?}", t.close_reopen()); continue; }
            println!("{s}\n    => {}", t.exec(s).show());
        }
    }
    drop(t);
    let _ = std::fs::remove_dir_all(&base);
}
