//! C43 — Bulk-load APIs equal row-at-a-time INSERT (SQLH engine, differential, model_checking).
//!
//! A case is one fixed-structure history applied to TWIN databases: twin A loads every batch through
//! the bulk API under test, twin B through one `INSERT INTO t VALUES (k, v)` statement per row (the
//! reference: no model of SQL semantics is needed).  Every other statement is the same SQL text on
//! both twins.  History:
//!   setup   CREATE TABLE (table kind) [+ CREATE INDEX]; api `insert_cached`: plan warmed by one sentinel row
//!   pre     none | two ordinary INSERTs (keys 1, 5) | reopen of the empty table | two INSERTs + reopen
//!   bulk    the batch under test
//!   after   INSERT (7,70); UPDATE … WHERE k = <loaded key>; DELETE … WHERE k = <loaded key>   (ordinary DML)
//!   bulk2   a second batch [(8,80),(9,90)] through the same API (bulk call after ordinary DML)
//!   probes  a following INSERT of every key of the domain (uniqueness behaviour), then
//!           `INSERT INTO t (v) VALUES (777)` (next AUTO_INCREMENT value)
//! After EVERY step the twins are compared, first difference reported, history stopped:
//!   error-class  Ok/Err class of the step (bulk steps: see below), affected counts of the DML steps
//!   rows         `SELECT * FROM t` as bags            count   `SELECT COUNT(*)`
//!   pk-lookup / index-lookup / key-lookup   `WHERE k = x` for every key of the domain and `WHERE k IS NULL`
//!                (named after the access path the table kind offers: primary key / UNIQUE or secondary
//!                index / scan)
//!   following-insert, autoinc   the probe steps (class, then the state layers above)
//!
//! Bulk steps and partial failure.  `insert_cached` / prepared execution are row-at-a-time: call i
//! is compared with INSERT i (class), the batch continues after a failing row on both twins.
//! `insert_batch[_into_schema]` take the whole batch and nothing documents what a failing row
//! leaves behind; B's per-row INSERTs decide: all succeed -> the call must return Ok and the states
//! must be equal; all fail -> Err and equal (unchanged) states; mixed -> only "the call returns Err
//! and the table holds the old rows plus a (possibly empty) prefix of the batch" is demanded and the
//! history ends there (counted `mixed-batch`).  `bulk_insert` (FastLoader) documents "the caller
//! MUST ensure no duplicate keys / NOT NULL / types": batches with a row that INSERT rejects are
//! outside its contract and not judged (counted `out-of-contract`).
//!
//! Reopen and the row-id counter.  The database-wide row-id counter restarts at 1 on every open
//! (KF-C04-01), so after a reopen an INSERT into a table that holds rows fails with the B-tree message
//! "key already exists" (one id burnt per attempt).  So that twin B really holds "the rows inserted one
//! by one", histories with a reopen repeat an INSERT statement (on both twins) and a row-at-a-time API
//! call (the same code path) over exactly that message; whole-batch API calls are never repeated.
//!
//! Second look.  When a history diverges at a step that is a recorded step-level defect of the API
//! (DELETE after insert_batch; any INSERT statement after bulk_insert) the same case is run once more
//! with those steps left out (`skip`), so that the steps behind them are compared too.
//!
//! Enumeration (simplest first; one worker owns an (api, kind, placement) group): EVERY sequence of <= L rows over
//! the row alphabet {(1,10),(2,20),(2,21),(NULL,30),(1,NULL)} (duplicate keys inside the batch, with
//! the pre rows, NULL key, NULL value) x placement x table kind x API (L = 1 quick / 3 thorough; one
//! row more without the dimensions that repeat a covered code path: reopening placements, BIGINT key,
//! schema table, insert_batch_into_schema = the body of insert_batch); then generated batches of the
//! sizes {0,1,2,63,64,65,700[,5000]} in sequential / reverse / duplicate-bearing order (keys 1001..).
//!
//! Long runs.  ONE prepared `INSERT INTO t VALUES (?, ?)` is executed n times with increasing keys (the only
//! key order the cached path handles at all, see KF-C43-09) on a PRIMARY KEY / UNIQUE table, key shapes INT,
//! BIGINT, 200-byte TEXT, 60-byte TEXT (wide keys: an index leaf holds a few dozen entries, so the index
//! root splits and the new right-most leaf fills again and again within a few hundred executions); twin B
//! gets one INSERT statement per row.  Compared: class of every execution, COUNT(*), scan count, SELECT *,
//! `WHERE k = <key>` for EVERY key (plus one absent key below and above), duplicate-key probes through the
//! statement and through INSERT for old and recent keys.  Quick: TEXT200 x 400 and INT x 2000 through
//! prepared-execute; thorough: {prepared-execute, insert_cached} x {pk, unique} x 4 shapes at 3000 / 3000 /
//! 600 / 1500 executions.  Signature C43/long-run/<api>/<kind>/<shape>:seq-size>=N/<layer>, N = the smallest
//! length of the shape's ladder that still fails.
//!
//! Signature = C43/<api>/<table kind>/<placement>:<batch class>[@<step>]/<layer> of the MINIMAL case
//! (placement fresh|after-dml|after-reopen|after-reopen-rows; class = first of empty, null-key,
//! dup-in-batch, dup-with-existing, null-value, plain, or <order>-size>=N); the minimal case is found
//! by delta-debugging (drop batch rows / simpler row / next smaller size / simpler order / simpler
//! placement, while the same layer fails at the same step) and IS the recorded case.
use checks::sqlh::*;
use refmodel::val::{bag, show_rows, Row, V};
use std::collections::BTreeMap;
use std::path::Path;
use turdb::database::prepared::CachedInsertPlan;
use turdb::{OwnedValue, PreparedStatement};
use vcore::{json, Check, Ctx, Reporter, Spec, Value};

type R2 = (Option<i64>, Option<i64>);

// ---------------------------------------------------------------------------
// dimensions
// ---------------------------------------------------------------------------
#[derive(Clone, Copy, PartialEq, Eq, Hash, Debug, PartialOrd, Ord)]
enum Api {
    Batch,
    BatchSchema,
    Prepared,
    Cached,
    Bulk,
}
const APIS: [Api; 5] = [Api::Batch, Api::BatchSchema, Api::Prepared, Api::Cached, Api::Bulk];
impl Api {
    fn name(self) -> &'static str {
        match self {
            Api::Batch => "insert_batch",
            Api::BatchSchema => "insert_batch_into_schema",
            Api::Prepared => "prepared-execute",
            Api::Cached => "insert_cached",
            Api::Bulk => "bulk_insert",
        }
    }
    fn parse(s: &str) -> Option<Api> {
        APIS.iter().copied().find(|a| a.name() == s)
    }
    fn row_at_a_time(self) -> bool {
        matches!(self, Api::Prepared | Api::Cached)
    }
    /// steps left out by the `skip` variant of a case: exactly the steps behind which a recorded finding hides
    /// everything else (KF-C43-07: DELETE of a row loaded by insert_batch fails; KF-C43-02: every INSERT
    /// statement after a bulk_insert collides with its row ids)
    fn skipped(self) -> &'static [&'static str] {
        match self {
            Api::Batch | Api::BatchSchema => &["delete-after"],
            Api::Bulk => &["insert-after", "following-insert", "autoinc-probe"],
            Api::Prepared | Api::Cached => &[],
        }
    }
}

#[derive(Clone, Copy, PartialEq, Eq, Hash, Debug, PartialOrd, Ord)]
enum Kind {
    Plain,
    Pk,
    BigPk,
    Unique,
    SecIdx,
    NotNull,
    AutoInc,
    InSchema,
}
const KINDS: [Kind; 8] = [Kind::Plain, Kind::Pk, Kind::BigPk, Kind::Unique, Kind::SecIdx, Kind::NotNull, Kind::AutoInc, Kind::InSchema];
impl Kind {
    fn name(self) -> &'static str {
        match self {
            Kind::Plain => "plain",
            Kind::Pk => "pk",
            Kind::BigPk => "bigint-pk",
            Kind::Unique => "unique",
            Kind::SecIdx => "secondary-index",
            Kind::NotNull => "not-null",
            Kind::AutoInc => "auto-increment",
            Kind::InSchema => "pk-in-schema",
        }
    }
    fn parse(s: &str) -> Option<Kind> {
        KINDS.iter().copied().find(|a| a.name() == s)
    }
    fn table(self) -> &'static str {
        if self == Kind::InSchema {
            "s.t"
        } else {
            "t"
        }
    }
    fn ddl(self) -> Vec<&'static str> {
        match self {
            Kind::Plain => vec!["CREATE TABLE t (k INT, v INT)"],
            Kind::Pk => vec!["CREATE TABLE t (k INT PRIMARY KEY, v INT)"],
            Kind::BigPk => vec!["CREATE TABLE t (k BIGINT PRIMARY KEY, v INT)"],
            Kind::Unique => vec!["CREATE TABLE t (k INT UNIQUE, v INT)"],
            Kind::SecIdx => vec!["CREATE TABLE t (k INT, v INT)", "CREATE INDEX ik ON t (k)"],
            Kind::NotNull => vec!["CREATE TABLE t (k INT NOT NULL, v INT)"],
            Kind::AutoInc => vec!["CREATE TABLE t (k INT PRIMARY KEY AUTO_INCREMENT, v INT)"],
            Kind::InSchema => vec!["CREATE SCHEMA s", "CREATE TABLE s.t (k INT PRIMARY KEY, v INT)"],
        }
    }
    fn lookup_layer(self) -> &'static str {
        match self {
            Kind::Pk | Kind::BigPk | Kind::AutoInc | Kind::InSchema => "pk-lookup",
            Kind::Unique | Kind::SecIdx => "index-lookup",
            Kind::Plain | Kind::NotNull => "key-lookup",
        }
    }
}

#[derive(Clone, Copy, PartialEq, Eq, Hash, Debug, PartialOrd, Ord)]
enum Pre {
    None,
    Rows,
    ReopenEmpty,
    RowsReopen,
}
const PRES: [Pre; 4] = [Pre::None, Pre::Rows, Pre::ReopenEmpty, Pre::RowsReopen];
impl Pre {
    fn name(self) -> &'static str {
        match self {
            Pre::None => "none",
            Pre::Rows => "rows",
            Pre::ReopenEmpty => "reopen-empty",
            Pre::RowsReopen => "rows-reopen",
        }
    }
    fn parse(s: &str) -> Option<Pre> {
        PRES.iter().copied().find(|a| a.name() == s)
    }
    fn has_rows(self) -> bool {
        matches!(self, Pre::Rows | Pre::RowsReopen)
    }
    fn reopens(self) -> bool {
        matches!(self, Pre::ReopenEmpty | Pre::RowsReopen)
    }
}

#[derive(Clone, Copy, PartialEq, Eq, Hash, Debug, PartialOrd, Ord)]
enum Order {
    Seq,
    Rev,
    DupLast,
}
impl Order {
    fn name(self) -> &'static str {
        match self {
            Order::Seq => "seq",
            Order::Rev => "rev",
            Order::DupLast => "dup",
        }
    }
    fn parse(s: &str) -> Option<Order> {
        [Order::Seq, Order::Rev, Order::DupLast].into_iter().find(|o| o.name() == s)
    }
}

const ALPHA: [R2; 5] = [(Some(1), Some(10)), (Some(2), Some(20)), (Some(2), Some(21)), (None, Some(30)), (Some(1), None)];
const PRE_ROWS: [R2; 2] = [(Some(1), Some(11)), (Some(5), Some(55))];
const BATCH2: [R2; 2] = [(Some(8), Some(80)), (Some(9), Some(90))];
const SENTINEL: R2 = (Some(900), Some(9000));
const GEN_BASE: i64 = 1000;

#[derive(Clone, PartialEq, Eq, Hash, Debug, PartialOrd, Ord)]
enum BatchSpec {
    /// letters of ALPHA
    Explicit(Vec<u8>),
    Gen { order: Order, n: usize },
}
impl BatchSpec {
    fn rows(&self) -> Vec<R2> {
        match self {
            BatchSpec::Explicit(v) => v.iter().map(|&i| ALPHA[i as usize]).collect(),
            BatchSpec::Gen { order, n } => {
                let n = *n as i64;
                let seq = |i: i64| (Some(GEN_BASE + i), Some(i * 10));
                match order {
                    Order::Seq => (1..=n).map(seq).collect(),
                    Order::Rev => (1..=n).rev().map(seq).collect(),
                    Order::DupLast => {
                        let mut v: Vec<R2> = (1..n).map(seq).collect();
                        if n >= 1 {
                            // the last row repeats the first key (for n = 1 there is nothing to repeat)
                            v.push(if n >= 2 { (Some(GEN_BASE + 1), Some(5)) } else { seq(1) });
                        }
                        v
                    }
                }
            }
        }
    }
    fn json(&self) -> Value {
        match self {
            BatchSpec::Explicit(v) => json!({"explicit": v}),
            BatchSpec::Gen { order, n } => json!({"gen": order.name(), "n": n}),
        }
    }
    fn from_json(v: &Value) -> Option<BatchSpec> {
        if let Some(a) = v["explicit"].as_array() {
            return Some(BatchSpec::Explicit(a.iter().filter_map(|x| x.as_u64()).filter(|x| (*x as usize) < ALPHA.len()).map(|x| x as u8).collect()));
        }
        Some(BatchSpec::Gen { order: Order::parse(v["gen"].as_str()?)?, n: v["n"].as_u64()? as usize })
    }
}

#[derive(Clone, PartialEq, Eq, Hash, Debug, PartialOrd, Ord)]
struct Case {
    api: Api,
    kind: Kind,
    pre: Pre,
    batch: BatchSpec,
    /// second look behind a known defect: the history leaves out the steps that are known to diverge for this
    /// API (`Api::skipped`), so that the steps behind them are compared too
    skip: bool,
}
impl Case {
    fn json(&self) -> Value {
        json!({"api": self.api.name(), "kind": self.kind.name(), "pre": self.pre.name(), "batch": self.batch.json(), "skip": self.skip,
               "skipped-steps": if self.skip { self.api.skipped().to_vec() } else { vec![] },
               "rows": self.batch.rows().iter().take(8).map(|r| show_r2(r)).collect::<Vec<_>>(), "ddl": self.kind.ddl()})
    }
    fn from_json(v: &Value) -> Option<Case> {
        Some(Case { api: Api::parse(v["api"].as_str()?)?, kind: Kind::parse(v["kind"].as_str()?)?, pre: Pre::parse(v["pre"].as_str()?)?, batch: BatchSpec::from_json(&v["batch"])?, skip: v["skip"].as_bool().unwrap_or(false) })
    }
}
fn show_r2(r: &R2) -> String {
    let f = |x: &Option<i64>| x.map(|i| i.to_string()).unwrap_or_else(|| "NULL".into());
    format!("({},{})", f(&r.0), f(&r.1))
}
fn ov(x: Option<i64>) -> OwnedValue {
    match x {
        Some(i) => OwnedValue::Int(i),
        None => OwnedValue::Null,
    }
}
fn ovrow(r: &R2) -> Vec<OwnedValue> {
    vec![ov(r.0), ov(r.1)]
}
fn sql_lit(x: Option<i64>) -> String {
    x.map(|i| i.to_string()).unwrap_or_else(|| "NULL".into())
}
fn insert_sql(table: &str, r: &R2) -> String {
    format!("INSERT INTO {table} VALUES ({}, {})", sql_lit(r.0), sql_lit(r.1))
}

// ---------------------------------------------------------------------------
// twins
// ---------------------------------------------------------------------------
/// result class of one call
#[derive(Clone, Debug, PartialEq)]
enum Cls {
    Ok(u64),
    Err(String),
    Panic(String),
}
impl Cls {
    fn name(&self) -> &'static str {
        match self {
            Cls::Ok(_) => "ok",
            Cls::Err(_) => "err",
            Cls::Panic(_) => "panic",
        }
    }
    fn show(&self) -> String {
        match self {
            Cls::Ok(n) => format!("Ok({n})"),
            Cls::Err(e) => format!("Err({})", vcore::util::clip(e, 200)),
            Cls::Panic(e) => format!("PANIC({})", vcore::util::clip(e, 200)),
        }
    }
}
fn cls_of_res(r: &Res) -> Cls {
    match r {
        Res::Affected(n, _) => Cls::Ok(*n as u64),
        Res::Err(e) => Cls::Err(e.clone()),
        Res::Panic(p) => Cls::Panic(p.clone()),
        _ => Cls::Ok(0),
    }
}
fn call<T>(f: impl FnOnce() -> eyre::Result<T>, n: impl Fn(T) -> u64) -> Cls {
    match vcore::catch(|| f().map_err(|e| format!("{e:#}"))) {
        Ok(Ok(v)) => Cls::Ok(n(v)),
        Ok(Err(e)) => Cls::Err(e),
        Err(p) => Cls::Panic(p),
    }
}

/// Ordinary INSERT statement of the history.  `retry`: the history reopened the database, so the row-id
/// counter restarted at 1 (KF-C04-01) and an INSERT into a table that holds rows fails with the B-tree
/// message "key already exists" (not a constraint message), burning one id per attempt: repeat the
/// statement until it gets a free id, so that the reference twin really holds "the rows inserted one by one".
fn exec_insert(db: &turdb::Database, sql: &str, retry: bool, st: &mut Stats) -> Res {
    let mut r = exec(db, sql);
    let mut tries = 0;
    while retry && tries < 64 && matches!(&r, Res::Err(e) if e.contains("key already exists")) {
        tries += 1;
        st.rowid_retries += 1;
        r = exec(db, sql);
    }
    r
}

struct TwinA {
    t: TestDb,
    prep: Option<PreparedStatement>,
    plan: Option<CachedInsertPlan>,
}
#[derive(Default)]
struct Stats {
    api_calls: u64,
    cached_calls: u64,
    uncached_calls: u64,
    rows_loaded: u64,
    index_plans: u64,
    probes: u64,
    rowid_retries: u64,
    errs: BTreeMap<String, u64>,
}

impl TwinA {
    fn prepare(&mut self, kind: Kind) {
        self.plan = None;
        self.prep = match vcore::catch(|| self.t.db().prepare(&format!("INSERT INTO {} VALUES (?, ?)", kind.table())).map_err(|e| format!("{e:#}"))) {
            Ok(Ok(p)) => Some(p),
            _ => None,
        };
    }
    /// one row through the prepared statement (`direct`: call the pub `insert_cached` with the cached plan when
    /// there is one).  `retry`: the same repetition over row-id collisions as `exec_insert` (the call IS a
    /// row-at-a-time insert and hits KF-C04-01 exactly like the INSERT statement).
    fn prepared_row(&mut self, r: &R2, direct: bool, retry: bool, st: &mut Stats) -> Cls {
        let mut c = self.prepared_row_once(r, direct, st);
        let mut tries = 0;
        while retry && tries < 64 && matches!(&c, Cls::Err(e) if e.contains("key already exists")) {
            tries += 1;
            st.rowid_retries += 1;
            c = self.prepared_row_once(r, direct, st);
        }
        c
    }
    fn prepared_row_once(&mut self, r: &R2, direct: bool, st: &mut Stats) -> Cls {
        let Some(p) = &self.prep else { return Cls::Err("prepare failed".into()) };
        st.api_calls += 1;
        if direct {
            if self.plan.is_none() {
                self.plan = p.cached_insert_plan();
            }
            if let Some(plan) = &self.plan {
                st.cached_calls += 1;
                let params = ovrow(r);
                let db = self.t.db();
                return call(|| db.insert_cached(plan, &params), |n| n as u64);
            }
        }
        if p.cached_insert_plan().is_some() {
            st.cached_calls += 1;
        } else {
            st.uncached_calls += 1;
        }
        let db = self.t.db();
        call(
            || p.bind(ov(r.0)).bind(ov(r.1)).execute(db),
            |x| match x {
                turdb::ExecuteResult::Insert { rows_affected, .. } => rows_affected as u64,
                _ => 0,
            },
        )
    }
    /// the batch through the API: one class per call
    fn bulk(&mut self, api: Api, kind: Kind, rows: &[R2], retry: bool, st: &mut Stats) -> Vec<Cls> {
        let table = kind.table();
        let data: Vec<Vec<OwnedValue>> = rows.iter().map(ovrow).collect();
        match api {
            Api::Batch => {
                st.api_calls += 1;
                let db = self.t.db();
                vec![call(|| db.insert_batch(table, &data), |n| n as u64)]
            }
            Api::BatchSchema => {
                st.api_calls += 1;
                let (s, t) = table.split_once('.').unwrap_or(("root", table));
                let db = self.t.db();
                vec![call(|| db.insert_batch_into_schema(s, t, &data), |n| n as u64)]
            }
            Api::Bulk => {
                st.api_calls += 1;
                let db = self.t.db();
                vec![call(|| db.bulk_insert(table, data), |n| n)]
            }
            Api::Prepared => rows.iter().map(|r| self.prepared_row(r, false, retry, st)).collect(),
            Api::Cached => rows.iter().map(|r| self.prepared_row(r, true, retry, st)).collect(),
        }
    }
}

#[derive(Clone, Debug)]
struct Viol {
    step: &'static str,
    layer: String,
    expected: String,
    observed: String,
}

fn norm_rows(r: Res) -> Res {
    match r {
        Res::Rows(rows) => Res::Rows(bag(&rows)),
        Res::Err(_) => Res::Err(String::new()),
        o => o,
    }
}
fn same(a: &Res, b: &Res) -> bool {
    match (a, b) {
        (Res::Panic(_), _) | (_, Res::Panic(_)) => false,
        _ => a == b,
    }
}

/// planted perturbation (harness self-test): twin A silently loses / corrupts something after a bulk step
#[derive(Clone, Copy, PartialEq, Eq, Debug)]
enum Plant {
    None,
    /// after the bulk step twin A deletes the row with the largest key of the batch (api prepared-execute, kind plain)
    LoseRow,
    /// observation-level plant: after a bulk step that loaded key 2 (api prepared-execute, kind plain) twin A's
    /// lookups `WHERE k = 2` return nothing
    HideLookup,
}
impl Plant {
    fn from_ctx(ctx: &Ctx) -> Plant {
        match ctx.opt("plant") {
            Some("lose-row") => Plant::LoseRow,
            Some("hide-lookup") => Plant::HideLookup,
            _ => Plant::None,
        }
    }
}

struct Twins {
    a: TwinA,
    b: TestDb,
    kind: Kind,
    api: Api,
    keys: Vec<Option<i64>>,
    plant: Plant,
    planted: bool,
    /// the history contains a reopen: SQL INSERTs are repeated over row-id collisions (see `exec_insert`)
    retry: bool,
}

impl Twins {
    fn compare(&self, step: &'static str, st: &mut Stats) -> Option<Viol> {
        let table = self.kind.table();
        let (da, db) = (self.a.t.db(), self.b.db());
        let mut qs: Vec<(String, &str)> = vec![(format!("SELECT * FROM {table}"), "rows"), (format!("SELECT COUNT(*) FROM {table}"), "count")];
        let ll = self.kind.lookup_layer();
        for k in &self.keys {
            qs.push((
                match k {
                    Some(k) => format!("SELECT * FROM {table} WHERE k = {k}"),
                    None => format!("SELECT * FROM {table} WHERE k IS NULL"),
                },
                ll,
            ));
        }
        if let Some(k) = self.keys.iter().flatten().next() {
            if let Some(p) = explain(da, &format!("SELECT * FROM {table} WHERE k = {k}")) {
                if p.contains("IndexScan") {
                    st.index_plans += 1;
                }
            }
        }
        for (q, layer) in qs {
            st.probes += 1;
            let mut ra = norm_rows(exec(da, &q));
            let rb = norm_rows(exec(db, &q));
            if self.planted && self.plant == Plant::HideLookup && layer == ll && q.ends_with("k = 2") {
                ra = Res::Rows(vec![]);
            }
            if !same(&ra, &rb) {
                return Some(Viol { step, layer: layer.to_string(), expected: format!("{q} on the INSERT twin = {}", rb.show()), observed: ra.show() });
            }
        }
        None
    }
    /// the same SQL on both twins: class + affected count, then the state
    fn both(&mut self, step: &'static str, layer: &str, sql: &str, st: &mut Stats) -> Option<Viol> {
        let ins = sql.starts_with("INSERT");
        let ra = if ins { exec_insert(self.a.t.db(), sql, self.retry, st) } else { self.a.t.exec(sql) };
        let rb = if ins { exec_insert(self.b.db(), sql, self.retry, st) } else { self.b.exec(sql) };
        let (ca, cb) = (cls_of_res(&ra), cls_of_res(&rb));
        if let Cls::Err(e) = &cb {
            *st.errs.entry(err_class(e).to_string()).or_insert(0) += 1;
        }
        let ok = match (&ca, &cb) {
            (Cls::Ok(x), Cls::Ok(y)) => x == y,
            (Cls::Err(_), Cls::Err(_)) => true,
            _ => false,
        };
        if !ok {
            return Some(Viol { step, layer: layer.to_string(), expected: format!("{sql} on the INSERT twin: {}", cb.show()), observed: ca.show() });
        }
        self.compare(step, st)
    }
    fn reopen(&mut self, st: &mut Stats) -> Option<Viol> {
        self.a.prep = None;
        self.a.plan = None;
        let ra = self.a.t.reopen();
        let rb = self.b.reopen();
        match (&ra, &rb) {
            (Ok(()), Ok(())) => {}
            (Err(_), Err(_)) => {
                // the reference twin cannot be reopened either: nothing to compare (e.g. KF-C21-05 for schemas)
                return Some(Viol { step: "reopen", layer: "unjudged".into(), expected: String::new(), observed: String::new() });
            }
            _ => return Some(Viol { step: "reopen", layer: "error-class".into(), expected: format!("reopen of the INSERT twin: {rb:?}"), observed: format!("{ra:?}") }),
        }
        if self.api.row_at_a_time() {
            self.a.prepare(self.kind);
        }
        self.compare("reopen", st)
    }
    /// one bulk step; Ok(true) = fully compared and equal, Ok(false) = history ends here without a verdict
    fn bulk_step(&mut self, step: &'static str, rows: &[R2], st: &mut Stats, note: &mut Vec<&'static str>) -> Result<bool, Viol> {
        let table = self.kind.table();
        // state before (for the prefix rule)
        let before = match exec(self.b.db(), &format!("SELECT * FROM {table}")) {
            Res::Rows(r) => Some(r),
            _ => None,
        };
        if self.api.row_at_a_time() {
            // call i against INSERT i
            let ca = self.a.bulk(self.api, self.kind, rows, self.retry, st);
            for (i, r) in rows.iter().enumerate() {
                let cb = cls_of_res(&exec_insert(self.b.db(), &insert_sql(table, r), self.retry, st));
                if let Cls::Ok(_) = cb {
                    st.rows_loaded += 1;
                }
                if let Cls::Err(e) = &cb {
                    *st.errs.entry(err_class(e).to_string()).or_insert(0) += 1;
                }
                let same = matches!((&ca[i], &cb), (Cls::Ok(_), Cls::Ok(_)) | (Cls::Err(_), Cls::Err(_)));
                if !same {
                    return Err(Viol { step, layer: "error-class".into(), expected: format!("row {} {}: {} like {}", i + 1, show_r2(r), cb.show(), insert_sql(table, r)), observed: ca[i].show() });
                }
            }
            self.after_bulk(rows);
            return match self.compare(step, st) {
                Some(v) => Err(v),
                None => Ok(true),
            };
        }
        // whole-batch APIs: the reference decides what may be demanded
        let cbs: Vec<Cls> = rows.iter().map(|r| cls_of_res(&exec_insert(self.b.db(), &insert_sql(table, r), self.retry, st))).collect();
        let n_ok = cbs.iter().filter(|c| matches!(c, Cls::Ok(_))).count();
        for c in &cbs {
            if let Cls::Err(e) = c {
                *st.errs.entry(err_class(e).to_string()).or_insert(0) += 1;
            }
        }
        st.rows_loaded += n_ok as u64;
        let all_ok = n_ok == rows.len();
        let all_err = n_ok == 0 && !rows.is_empty();
        if self.api == Api::Bulk && !all_ok {
            note.push("out-of-contract");
            return Ok(false);
        }
        let ca = self.a.bulk(self.api, self.kind, rows, self.retry, st).pop().unwrap();
        if let Cls::Panic(_) = ca {
            return Err(Viol { step, layer: "error-class".into(), expected: format!("{}({} rows) returns Ok or Err", self.api.name(), rows.len()), observed: ca.show() });
        }
        if all_ok {
            match &ca {
                Cls::Ok(n) if *n as usize == rows.len() => {}
                _ => return Err(Viol { step, layer: "error-class".into(), expected: format!("{}({} rows) returns Ok({}): every row is accepted by INSERT", self.api.name(), rows.len(), rows.len()), observed: ca.show() }),
            }
            self.after_bulk(rows);
            return match self.compare(step, st) {
                Some(v) => Err(v),
                None => Ok(true),
            };
        }
        // some row is rejected by INSERT: the call must fail
        let first_bad = cbs.iter().position(|c| !matches!(c, Cls::Ok(_))).unwrap();
        if let Cls::Ok(_) = ca {
            return Err(Viol {
                step,
                layer: "error-class".into(),
                expected: format!("{}({} rows) returns Err: INSERT rejects row {} {}: {}", self.api.name(), rows.len(), first_bad + 1, show_r2(&rows[first_bad]), cbs[first_bad].show()),
                observed: ca.show(),
            });
        }
        if all_err {
            return match self.compare(step, st) {
                Some(v) => Err(v),
                None => Ok(true),
            };
        }
        // mixed: old rows + a prefix of the batch (up to the first rejected row)
        note.push("mixed-batch");
        if let (Some(before), Res::Rows(now)) = (before, exec(self.a.t.db(), &format!("SELECT * FROM {table}"))) {
            let now = bag(&now);
            let mut okay = false;
            for p in 0..=first_bad {
                let mut want = before.clone();
                want.extend(rows[..p].iter().map(|r| vec![r.0.map(V::Int).unwrap_or(V::Null), r.1.map(V::Int).unwrap_or(V::Null)]));
                if bag(&want) == now {
                    okay = true;
                    break;
                }
            }
            if !okay {
                return Err(Viol { step, layer: "rows".into(), expected: format!("after the failed call the table holds the old rows {} plus a prefix of the batch's first {} rows", show_rows(&bag(&before)), first_bad), observed: show_rows(&now) });
            }
        }
        Ok(false)
    }
    fn after_bulk(&mut self, rows: &[R2]) {
        if self.plant == Plant::None || self.planted {
            return;
        }
        match self.plant {
            Plant::LoseRow if self.api == Api::Prepared && self.kind == Kind::Plain => {
                if let Some(k) = rows.iter().filter_map(|r| r.0).max() {
                    let _ = self.a.t.exec(&format!("DELETE FROM {} WHERE k = {k}", self.kind.table()));
                    self.planted = true;
                }
            }
            Plant::HideLookup if self.api == Api::Prepared && self.kind == Kind::Plain && rows.iter().any(|r| r.0 == Some(2)) => {
                self.planted = true;
            }
            _ => {}
        }
    }
}

fn err_class(msg: &str) -> &'static str {
    let m = msg.to_ascii_lowercase();
    if m.contains("primary key") {
        "primary-key"
    } else if m.contains("unique") {
        "unique"
    } else if m.contains("not null") || m.contains("null") {
        "not-null"
    } else if m.contains("key already exists") {
        "key-already-exists"
    } else if m.contains("not found") {
        "not-found"
    } else if m.contains("out of bounds") || m.contains("out of range") {
        "out-of-bounds"
    } else {
        "other"
    }
}

struct Out {
    viol: Option<Viol>,
    notes: Vec<&'static str>,
    stats: Stats,
    /// steps completed with a full comparison
    steps: u64,
}

fn run_case(scratch: &Path, c: &Case, plant: Plant) -> Out {
    let mut out = Out { viol: None, notes: vec![], stats: Stats::default(), steps: 0 };
    let ta = match TestDb::create(scratch, "A") {
        Ok(t) => t,
        Err(e) => {
            out.viol = Some(Viol { step: "setup", layer: "harness".into(), expected: "create".into(), observed: e });
            return out;
        }
    };
    let tb = match TestDb::create(scratch, "B") {
        Ok(t) => t,
        Err(e) => {
            out.viol = Some(Viol { step: "setup", layer: "harness".into(), expected: "create".into(), observed: e });
            return out;
        }
    };
    let rows = c.batch.rows();
    // key domain of the lookups
    let mut keys: Vec<Option<i64>> = vec![];
    match &c.batch {
        BatchSpec::Explicit(_) => keys.extend([Some(1), Some(2), Some(3)]),
        BatchSpec::Gen { n, .. } => {
            let n = *n as i64;
            for k in [1, 2, n / 2, n - 1, n, n + 1] {
                if k >= 1 {
                    keys.push(Some(GEN_BASE + k));
                }
            }
            keys.push(Some(1));
        }
    }
    keys.extend([Some(5), Some(7), Some(8), Some(9), None]);
    keys.sort();
    keys.dedup();
    let mut tw = Twins { a: TwinA { t: ta, prep: None, plan: None }, b: tb, kind: c.kind, api: c.api, keys, plant, planted: false, retry: c.pre.reopens() };
    let st = &mut out.stats;
    let table = c.kind.table();
    macro_rules! step {
        ($e:expr) => {
            if let Some(v) = $e {
                if v.layer != "unjudged" {
                    out.viol = Some(v);
                } else {
                    out.notes.push("reference twin cannot reopen");
                }
                return out;
            }
            out.steps += 1;
        };
    }
    // setup
    for d in c.kind.ddl() {
        let (ra, rb) = (tw.a.t.exec(d), tw.b.exec(d));
        if !ra.ok() || !rb.ok() {
            out.viol = Some(Viol { step: "setup", layer: "harness".into(), expected: format!("{d} succeeds on both twins"), observed: format!("{} / {}", ra.show(), rb.show()) });
            return out;
        }
    }
    if c.api.row_at_a_time() {
        tw.a.prepare(c.kind);
    }
    if c.api == Api::Cached {
        // warm the plan: sentinel row through the prepared statement on A, through INSERT on B
        let ca = tw.a.prepared_row(&SENTINEL, false, false, st);
        let cb = cls_of_res(&tw.b.exec(&insert_sql(table, &SENTINEL)));
        if ca.name() != cb.name() {
            out.viol = Some(Viol { step: "warm-up", layer: "error-class".into(), expected: format!("{}: {}", insert_sql(table, &SENTINEL), cb.show()), observed: ca.show() });
            return out;
        }
        step!(tw.compare("warm-up", st));
    }
    // pre
    if c.pre.has_rows() {
        for r in &PRE_ROWS {
            step!(tw.both("pre", "error-class", &insert_sql(table, r), st));
        }
    }
    if c.pre.reopens() {
        step!(tw.reopen(st));
    }
    // bulk
    match tw.bulk_step("bulk", &rows, st, &mut out.notes) {
        Err(v) => {
            out.viol = Some(v);
            return out;
        }
        Ok(false) => return out,
        Ok(true) => out.steps += 1,
    }
    // ordinary DML after the bulk call
    let (ku, kd) = match &c.batch {
        BatchSpec::Explicit(_) => (2, 1),
        BatchSpec::Gen { .. } => (GEN_BASE + 2, GEN_BASE + 1),
    };
    let on = |step: &str| !(c.skip && c.api.skipped().contains(&step));
    if on("insert-after") {
        step!(tw.both("insert-after", "error-class", &format!("INSERT INTO {table} VALUES (7, 70)"), st));
    }
    if on("update-after") {
        step!(tw.both("update-after", "error-class", &format!("UPDATE {table} SET v = 99 WHERE k = {ku}"), st));
    }
    if on("delete-after") {
        step!(tw.both("delete-after", "error-class", &format!("DELETE FROM {table} WHERE k = {kd}"), st));
    }
    // second bulk call after ordinary DML
    match tw.bulk_step("second-bulk", &BATCH2, st, &mut out.notes) {
        Err(v) => {
            out.viol = Some(v);
            return out;
        }
        Ok(false) => return out,
        Ok(true) => out.steps += 1,
    }
    // following insert of every key
    if on("following-insert") {
        for k in [Some(1), Some(2), Some(3), Some(8), None] {
            step!(tw.both("following-insert", "following-insert", &format!("INSERT INTO {table} VALUES ({}, 1)", sql_lit(k)), st));
        }
    }
    // next AUTO_INCREMENT value
    if on("autoinc-probe") {
        step!(tw.both("autoinc-probe", "autoinc", &format!("INSERT INTO {table} (v) VALUES (777)"), st));
    }
    out
}

// ---------------------------------------------------------------------------
// long run: the SAME prepared INSERT executed hundreds / thousands of times
// ---------------------------------------------------------------------------
/// Key shapes of the long run.  The wide TEXT keys make an index leaf hold only a few dozen entries, so
/// that the index root splits and the new right-most leaf fills up again (several times) within a few
/// hundred executions; the INT shapes need > 1000 executions for the same.
#[derive(Clone, Copy, PartialEq, Eq, Hash, Debug, PartialOrd, Ord)]
enum Shape {
    Int,
    BigInt,
    Text200,
    Text60,
}
const SHAPES: [Shape; 4] = [Shape::Int, Shape::BigInt, Shape::Text200, Shape::Text60];
impl Shape {
    fn name(self) -> &'static str {
        match self {
            Shape::Int => "int-key",
            Shape::BigInt => "bigint-key",
            Shape::Text200 => "text200-key",
            Shape::Text60 => "text60-key",
        }
    }
    fn parse(s: &str) -> Option<Shape> {
        SHAPES.iter().copied().find(|a| a.name() == s)
    }
    fn sql_type(self) -> &'static str {
        match self {
            Shape::Int => "INT",
            Shape::BigInt => "BIGINT",
            Shape::Text200 | Shape::Text60 => "TEXT",
        }
    }
    /// the i-th key (i = 1..): strictly increasing in the index order
    fn key(self, i: usize) -> OwnedValue {
        match self {
            Shape::Int => OwnedValue::Int(1000 + i as i64),
            Shape::BigInt => OwnedValue::Int(5_000_000_000 + i as i64),
            Shape::Text200 => OwnedValue::Text(format!("k{:0>199}", i)),
            Shape::Text60 => OwnedValue::Text(format!("k{:0>59}", i)),
        }
    }
    fn key_lit(self, i: usize) -> String {
        match self.key(i) {
            OwnedValue::Int(k) => k.to_string(),
            OwnedValue::Text(t) => format!("'{t}'"),
            _ => unreachable!(),
        }
    }
    /// run lengths tried (ascending) when a failing long run is minimised; the last one is the thorough length
    fn ladder(self) -> &'static [usize] {
        match self {
            Shape::Int | Shape::BigInt => &[2, 64, 300, 700, 1100, 1500, 2000, 3000],
            Shape::Text200 => &[2, 30, 60, 90, 130, 200, 300, 400, 600],
            Shape::Text60 => &[2, 64, 150, 250, 400, 600, 900, 1500],
        }
    }
}

/// One long run: twin A executes ONE prepared `INSERT INTO t VALUES (?, ?)` n times with increasing keys
/// (api prepared-execute: bind + execute; api insert_cached: first execution through the statement, the
/// rest through `insert_cached` with the statement's cached plan), twin B one INSERT statement per row.
/// Increasing keys only: any other order already fails at two rows (KF-C43-09).
#[derive(Clone, PartialEq, Eq, Hash, Debug, PartialOrd, Ord)]
struct LongCase {
    api: Api,
    /// Pk | Unique (SecIdx is accepted by replay only)
    kind: Kind,
    shape: Shape,
    n: usize,
}
impl LongCase {
    fn ddl(&self) -> Vec<String> {
        let ty = self.shape.sql_type();
        match self.kind {
            Kind::Unique => vec![format!("CREATE TABLE t (k {ty} UNIQUE, v INT)")],
            Kind::SecIdx => vec![format!("CREATE TABLE t (k {ty}, v INT)"), "CREATE INDEX ik ON t (k)".to_string()],
            _ => vec![format!("CREATE TABLE t (k {ty} PRIMARY KEY, v INT)")],
        }
    }
    fn json(&self) -> Value {
        json!({"long-run": true, "api": self.api.name(), "kind": self.kind.name(), "shape": self.shape.name(), "n": self.n, "ddl": self.ddl(),
               "history": format!("prepare INSERT INTO t VALUES (?, ?); execute it {} times with keys {} .. (twin B: one INSERT statement per row); compare COUNT(*), scan count, SELECT *, `WHERE k = <key>` for EVERY key, duplicate-key probes", self.n, self.shape.key_lit(1))})
    }
    fn from_json(v: &Value) -> Option<LongCase> {
        Some(LongCase { api: Api::parse(v["api"].as_str()?)?, kind: Kind::parse(v["kind"].as_str()?)?, shape: Shape::parse(v["shape"].as_str()?)?, n: v["n"].as_u64()? as usize })
    }
}

struct LongOut {
    viol: Option<Viol>,
    execs: u64,
    cached_execs: u64,
    lookups: u64,
    index_plan: bool,
    rows_loaded: u64,
}

fn run_long(scratch: &Path, c: &LongCase) -> LongOut {
    let mut out = LongOut { viol: None, execs: 0, cached_execs: 0, lookups: 0, index_plan: false, rows_loaded: 0 };
    let harness = |e: String| Viol { step: "setup", layer: "harness".into(), expected: "setup succeeds".into(), observed: e };
    let (ta, tb) = match (TestDb::create(scratch, "LA"), TestDb::create(scratch, "LB")) {
        (Ok(a), Ok(b)) => (a, b),
        _ => {
            out.viol = Some(harness("create failed".into()));
            return out;
        }
    };
    for d in c.ddl() {
        let (ra, rb) = (ta.exec(&d), tb.exec(&d));
        if !ra.ok() || !rb.ok() {
            out.viol = Some(harness(format!("{d}: {} / {}", ra.show(), rb.show())));
            return out;
        }
    }
    let (da, db) = (ta.db(), tb.db());
    let stmt = match vcore::catch(|| da.prepare("INSERT INTO t VALUES (?, ?)").map_err(|e| format!("{e:#}"))) {
        Ok(Ok(p)) => p,
        o => {
            out.viol = Some(harness(format!("prepare: {o:?}")));
            return out;
        }
    };
    let exec_a = |i: usize, v: i64, out: &mut LongOut| -> Cls {
        out.execs += 1;
        let plan = vcore::catch(|| stmt.cached_insert_plan()).unwrap_or(None);
        if plan.is_some() {
            out.cached_execs += 1;
        }
        if let (Api::Cached, Some(plan)) = (c.api, &plan) {
            let params = vec![c.shape.key(i), OwnedValue::Int(v)];
            return call(|| da.insert_cached(plan, &params), |n| n as u64);
        }
        call(
            || stmt.bind(c.shape.key(i)).bind(OwnedValue::Int(v)).execute(da),
            |x| match x {
                turdb::ExecuteResult::Insert { rows_affected, .. } => rows_affected as u64,
                _ => 0,
            },
        )
    };
    // load
    for i in 1..=c.n {
        let v = i as i64 * 3;
        let ca = exec_a(i, v, &mut out);
        let sql = format!("INSERT INTO t VALUES ({}, {v})", c.shape.key_lit(i));
        let cb = cls_of_res(&exec(db, &sql));
        if let Cls::Ok(_) = cb {
            out.rows_loaded += 1;
        }
        if ca.name() != cb.name() {
            out.viol = Some(Viol { step: "long-run", layer: "error-class".into(), expected: format!("execution {i} of the prepared INSERT: {} like INSERT INTO t VALUES (<key {i}>, {v})", cb.show()), observed: ca.show() });
            return out;
        }
    }
    // state
    let cmp = |q: &str, layer: &str| -> Option<Viol> {
        let (ra, rb) = (norm_rows(exec(da, q)), norm_rows(exec(db, q)));
        if same(&ra, &rb) {
            None
        } else {
            Some(Viol { step: "long-run", layer: layer.to_string(), expected: format!("{} on the INSERT twin = {}", vcore::util::clip(q, 120), vcore::util::clip(&rb.show(), 300)), observed: vcore::util::clip(&ra.show(), 300) })
        }
    };
    let ll = c.kind.lookup_layer();
    for (q, layer) in [("SELECT COUNT(*) FROM t", "count"), ("SELECT COUNT(*) FROM t WHERE v >= 0", "scan-count"), ("SELECT * FROM t", "rows")] {
        if let Some(v) = cmp(q, layer) {
            out.viol = Some(v);
            return out;
        }
    }
    if let Some(p) = explain(da, &format!("SELECT * FROM t WHERE k = {}", c.shape.key_lit(1))) {
        out.index_plan = p.contains("IndexScan");
    }
    // EVERY key through the index
    for i in 0..=c.n + 1 {
        out.lookups += 1;
        if let Some(mut v) = cmp(&format!("SELECT * FROM t WHERE k = {}", c.shape.key_lit(i)), ll) {
            v.expected = format!("key {i} of {}: {}", c.n, v.expected);
            out.viol = Some(v);
            return out;
        }
    }
    // uniqueness still enforced for old and recent keys, by both paths
    let mut probes = vec![1, c.n / 4, c.n / 2, c.n * 3 / 4, c.n.saturating_sub(1), c.n];
    probes.retain(|i| *i >= 1);
    probes.dedup();
    for i in probes {
        let ca = exec_a(i, 0, &mut out);
        let sql = format!("INSERT INTO t VALUES ({}, 0)", c.shape.key_lit(i));
        let cb = cls_of_res(&exec(db, &sql));
        let ca2 = cls_of_res(&exec(da, &sql));
        if ca.name() != cb.name() || ca2.name() != cb.name() {
            out.viol = Some(Viol { step: "dup-probe", layer: "following-insert".into(), expected: format!("a second row with key {i} of {}: {} like on the INSERT twin", c.n, cb.show()), observed: format!("prepared: {} / INSERT statement: {}", ca.show(), ca2.show()) });
            return out;
        }
    }
    for (q, layer) in [("SELECT COUNT(*) FROM t", "count"), ("SELECT COUNT(*) FROM t WHERE v >= 0", "scan-count")] {
        if let Some(mut v) = cmp(q, layer) {
            v.step = "dup-probe";
            out.viol = Some(v);
            return out;
        }
    }
    out
}

fn long_signature(c: &LongCase, v: &Viol) -> String {
    let step = if v.step != "long-run" { format!("@{}", v.step) } else { String::new() };
    format!("C43/long-run/{}/{}/{}:seq-size>={}{}/{}", c.api.name(), c.kind.name(), c.shape.name(), c.n, step, v.layer)
}

/// smallest run length of the shape's ladder that fails in the same (step, layer)
fn shrink_long(scratch: &Path, c: &LongCase, v: &Viol) -> (LongCase, Viol) {
    for &n in c.shape.ladder().iter().filter(|n| **n < c.n) {
        let cand = LongCase { n, ..c.clone() };
        if let Some(v2) = run_long(scratch, &cand).viol {
            if v2.step == v.step && v2.layer == v.layer {
                return (cand, v2);
            }
        }
    }
    (c.clone(), v.clone())
}

fn long_cases(ctx: &Ctx) -> Vec<LongCase> {
    let mut v = vec![];
    if ctx.quick() {
        v.push(LongCase { api: Api::Prepared, kind: Kind::Pk, shape: Shape::Text200, n: 400 });
        v.push(LongCase { api: Api::Prepared, kind: Kind::Pk, shape: Shape::Int, n: 2000 });
    } else {
        for api in [Api::Prepared, Api::Cached] {
            // not the secondary index: its entries written through the cached plan are unfindable from the 2nd
            // row on (KF-C43-09, exercised by the short histories), a long run adds nothing behind that
            for kind in [Kind::Pk, Kind::Unique] {
                for shape in SHAPES {
                    v.push(LongCase { api, kind, shape, n: *shape.ladder().last().unwrap() });
                }
            }
        }
    }
    let only_api = ctx.opt("api").and_then(Api::parse);
    let only_kind = ctx.opt("kind").and_then(Kind::parse);
    v.retain(|c| only_api.map(|a| a == c.api).unwrap_or(true) && only_kind.map(|k| k == c.kind).unwrap_or(true));
    v
}

fn run_long_cases(ctx: &Ctx, rep: &mut Reporter) {
    for (i, c) in long_cases(ctx).iter().enumerate() {
        if !ctx.mine(7_000 + i as u64) {
            continue;
        }
        if ctx.expired() {
            rep.capped("deadline reached in the long runs");
            return;
        }
        let o = run_long(&ctx.scratch, c);
        rep.case(vcore::util::hash_of(&("long-run", c)), true);
        rep.add_transitions(o.execs + 1);
        rep.add_traces_validated(1);
        rep.count("long-run histories", 1);
        rep.count("long-run prepared executions", o.execs);
        rep.count("long-run executions on the cached plan", o.cached_execs);
        rep.count("long-run key lookups compared", o.lookups);
        rep.count("rows_loaded", o.rows_loaded);
        if o.index_plan {
            rep.count("long-run lookups planned as IndexScan", 1);
        }
        rep.sample(|| c.json());
        match &o.viol {
            None => {
                rep.add_states(o.execs);
                rep.outcome(&format!("long-run/{}/{}/{}: equal", c.api.name(), c.kind.name(), c.shape.name()));
            }
            Some(v) if v.layer == "harness" => rep.note(&format!("harness problem in long run {:?}: {}", c, v.observed)),
            Some(v) => {
                rep.pruned(1);
                rep.outcome(&format!("long-run/{}/{}/{}: differs at {} ({})", c.api.name(), c.kind.name(), c.shape.name(), v.step, v.layer));
                let (mc, mv) = shrink_long(&ctx.scratch, c, v);
                let sig = long_signature(&mc, &mv);
                rep.violation("C43", &mv.layer, &sig, || mc.json(), &mv.expected, &mv.observed);
            }
        }
    }
}

// ---------------------------------------------------------------------------
// shrinking + signature
// ---------------------------------------------------------------------------
/// `<placement>:<batch class>[@<step>]` of a (minimal) case; one class only: the first that applies of
/// empty, null-key, dup-in-batch, dup-with-existing, null-value, plain (batches of generated size > 2:
/// `<order>-size>=N`, N = the smallest size of the list that still fails).
fn shape(c: &Case, v: &Viol, sizes: &[usize]) -> String {
    let placement = match c.pre {
        Pre::None => "fresh",
        Pre::Rows => "after-dml",
        Pre::ReopenEmpty => "after-reopen",
        Pre::RowsReopen => "after-reopen-rows",
    };
    let rows = c.batch.rows();
    let small = match &c.batch {
        BatchSpec::Explicit(_) => true,
        BatchSpec::Gen { n, .. } => *n <= 2,
    };
    let class = if small {
        let keys: Vec<i64> = rows.iter().filter_map(|r| r.0).collect();
        let mut s = keys.clone();
        s.sort();
        s.dedup();
        if rows.is_empty() {
            "empty".to_string()
        } else if rows.iter().any(|r| r.0.is_none()) {
            "null-key".to_string()
        } else if s.len() < keys.len() {
            "dup-in-batch".to_string()
        } else if c.pre.has_rows() && keys.iter().any(|k| PRE_ROWS.iter().any(|p| p.0 == Some(*k))) {
            "dup-with-existing".to_string()
        } else if rows.iter().any(|r| r.1.is_none()) {
            "null-value".to_string()
        } else {
            "plain".to_string()
        }
    } else if let BatchSpec::Gen { order, n } = &c.batch {
        let _ = sizes;
        format!("{}-size>={}", order.name(), n)
    } else {
        unreachable!()
    };
    let step = if v.step != "bulk" { format!("@{}", v.step) } else { String::new() };
    format!("{placement}:{class}{step}")
}
fn signature(c: &Case, v: &Viol, sizes: &[usize]) -> String {
    format!("C43/{}/{}/{}/{}", c.api.name(), c.kind.name(), shape(c, v, sizes), v.layer)
}

struct Shrinker<'a> {
    scratch: &'a Path,
    plant: Plant,
    sizes: Vec<usize>,
    cache: BTreeMap<Case, Option<Viol>>,
    runs: u64,
}
impl<'a> Shrinker<'a> {
    fn probe(&mut self, c: &Case) -> Option<(&'static str, String)> {
        self.probe_full(c).map(|v| (v.step, v.layer))
    }
    fn probe_full(&mut self, c: &Case) -> Option<Viol> {
        if let Some(r) = self.cache.get(c) {
            return r.clone();
        }
        self.runs += 1;
        let o = run_case(self.scratch, c, self.plant);
        if self.cache.len() < 200_000 {
            self.cache.insert(c.clone(), o.viol.clone());
        }
        o.viol
    }
    fn candidates(&self, c: &Case) -> Vec<Case> {
        let mut v = vec![];
        let simpler_pre: &[Pre] = match c.pre {
            Pre::None => &[],
            Pre::Rows => &[Pre::None],
            Pre::ReopenEmpty => &[Pre::None],
            Pre::RowsReopen => &[Pre::Rows, Pre::ReopenEmpty],
        };
        for p in simpler_pre {
            v.push(Case { pre: *p, ..c.clone() });
        }
        match &c.batch {
            BatchSpec::Explicit(b) => {
                for i in 0..b.len() {
                    let mut nb = b.clone();
                    nb.remove(i);
                    v.push(Case { batch: BatchSpec::Explicit(nb), ..c.clone() });
                }
                // a simpler letter in place of a special one: (2,20) has no NULL and no twin among the pre rows
                for i in 0..b.len() {
                    for simple in [1u8, 0u8] {
                        if b[i] > simple && !(simple == 0 && b[i] == 1) {
                            let mut nb = b.clone();
                            nb[i] = simple;
                            v.push(Case { batch: BatchSpec::Explicit(nb), ..c.clone() });
                        }
                    }
                }
            }
            BatchSpec::Gen { order, n } => {
                if *order != Order::Seq {
                    v.push(Case { batch: BatchSpec::Gen { order: Order::Seq, n: *n }, ..c.clone() });
                }
                if let Some(m) = self.sizes.iter().copied().filter(|m| m < n).max() {
                    v.push(Case { batch: BatchSpec::Gen { order: *order, n: m }, ..c.clone() });
                }
            }
        }
        v
    }
    fn shrink(&mut self, c: &Case, v: &Viol) -> Case {
        let mut cur = c.clone();
        let want = (v.step, v.layer.clone());
        // jump first: most defects already show on the simplest cases (cached after their first run)
        let simplest = [
            Case { pre: Pre::None, batch: BatchSpec::Explicit(vec![]), ..c.clone() },
            Case { pre: Pre::None, batch: BatchSpec::Explicit(vec![1]), ..c.clone() },
            Case { batch: BatchSpec::Explicit(vec![]), ..c.clone() },
            Case { batch: BatchSpec::Explicit(vec![1]), ..c.clone() },
        ];
        for cand in simplest {
            if cand != *c && combos_allowed(cand.kind, cand.pre) && self.probe(&cand) == Some(want.clone()) {
                cur = cand;
                break;
            }
        }
        loop {
            let mut changed = false;
            for cand in self.candidates(&cur) {
                if self.probe(&cand) == Some(want.clone()) {
                    cur = cand;
                    changed = true;
                    break;
                }
            }
            if !changed {
                return cur;
            }
        }
    }
}

// ---------------------------------------------------------------------------
// enumeration
// ---------------------------------------------------------------------------
fn explicit_batches(max_len: usize) -> Vec<Vec<u8>> {
    let mut all = vec![vec![]];
    let mut level: Vec<Vec<u8>> = vec![vec![]];
    for _ in 0..max_len {
        let mut next = vec![];
        for b in &level {
            for i in 0..ALPHA.len() as u8 {
                let mut nb = b.clone();
                nb.push(i);
                next.push(nb);
            }
        }
        all.extend(next.iter().cloned());
        level = next;
    }
    all
}
fn apis_for(kind: Kind) -> Vec<Api> {
    let _ = kind;
    APIS.to_vec()
}
fn combos_allowed(kind: Kind, pre: Pre) -> bool {
    // a user schema cannot be reopened at all (KF-C21-05): both twins fail to open, nothing to compare
    !(kind == Kind::InSchema && pre.reopens())
}

fn sizes(ctx: &Ctx) -> Vec<usize> {
    let mut v = vec![0, 1, 2, 63, 64, 65, 700];
    if !ctx.quick() {
        v.push(5000);
    }
    if let Some(m) = ctx.opt("maxsize").and_then(|s| s.parse::<usize>().ok()) {
        v.retain(|n| *n <= m);
    }
    v
}

fn enumerate(ctx: &Ctx) -> Vec<Case> {
    let mut v = vec![];
    // explicit batches: every dimension up to `full_len`; up to `deep_len` without the dimensions that repeat a
    // code path already covered (reopening placements, BIGINT key, schema table, insert_batch_into_schema =
    // the body of insert_batch)
    let mut full_len = ctx.tier.pick(1, 3);
    let mut deep_len = ctx.tier.pick(2, 4);
    if let Some(l) = ctx.opt("len").and_then(|s| s.parse::<usize>().ok()) {
        full_len = l;
        deep_len = l;
    }
    let only_api = ctx.opt("api").and_then(Api::parse);
    let only_kind = ctx.opt("kind").and_then(Kind::parse);
    let quick = ctx.quick();
    let mut push = |c: Case| {
        if only_api.map(|a| a == c.api).unwrap_or(true) && only_kind.map(|k| k == c.kind).unwrap_or(true) && combos_allowed(c.kind, c.pre) {
            v.push(c);
        }
    };
    for b in explicit_batches(deep_len) {
        let deep = b.len() > full_len;
        let pres: &[Pre] = if deep { &[Pre::None, Pre::Rows] } else { &PRES };
        for &pre in pres {
            // quick tier, deep level: with existing rows only the batches that can collide with them (key 1)
            if quick && deep && pre == Pre::Rows && !b.iter().any(|l| ALPHA[*l as usize].0 == Some(1)) {
                continue;
            }
            for kind in KINDS {
                if deep && matches!(kind, Kind::BigPk | Kind::InSchema) {
                    continue;
                }
                for api in apis_for(kind) {
                    if deep && api == Api::BatchSchema {
                        continue;
                    }
                    push(Case { api, kind, pre, batch: BatchSpec::Explicit(b.clone()), skip: false });
                }
            }
        }
    }
    for n in sizes(ctx) {
        for order in [Order::Seq, Order::Rev, Order::DupLast] {
            if n <= 1 && order != Order::Seq {
                continue;
            }
            for pre in PRES {
                for kind in KINDS {
                    for api in apis_for(kind) {
                        let keep = if quick {
                            // the quick tier keeps one representative per code path at every size
                            let core_kind = matches!(kind, Kind::Plain | Kind::Pk | Kind::Unique | Kind::SecIdx | Kind::AutoInc);
                            api != Api::BatchSchema
                                && match n {
                                    0 | 1 => !pre.reopens(),
                                    2 => pre.reopens() && order != Order::Rev,
                                    63 | 65 => core_kind && !pre.reopens() && order != Order::DupLast,
                                    64 => core_kind && pre != Pre::ReopenEmpty && order != Order::Rev,
                                    _ => matches!(kind, Kind::Plain | Kind::Pk | Kind::SecIdx) && !pre.reopens() && order != Order::Rev,
                                }
                        } else {
                            (!pre.reopens() || matches!(n, 2 | 64 | 700)) && (n < 5000 || !matches!(kind, Kind::BigPk | Kind::InSchema | Kind::NotNull))
                        };
                        if keep {
                            push(Case { api, kind, pre, batch: BatchSpec::Gen { order, n }, skip: false });
                        }
                    }
                }
            }
        }
    }
    v
}

/// shrink, re-run the minimal case for its own expected/observed texts, record the violation
fn report(sh: &mut Shrinker, c: &Case, v: &Viol, szs: &[usize], rep: &mut Reporter) {
    let min = sh.shrink(c, v);
    let (mc, mv) = if &min == c {
        (c.clone(), v.clone())
    } else {
        match sh.probe_full(&min) {
            Some(mv) if mv.step == v.step && mv.layer == v.layer => (min, mv),
            _ => (c.clone(), v.clone()),
        }
    };
    let sig = signature(&mc, &mv, szs);
    rep.violation("C43", &mv.layer, &sig, || mc.json(), &mv.expected, &mv.observed);
}

struct C43;
impl Check for C43 {
    fn specs(&self) -> Vec<Spec> {
        let mut s = Spec::new(
            "C43",
            "model_checking",
            "a case is (API, table kind, placement, batch): twin databases run the same history (setup, optional ordinary INSERTs and/or reopen, the batch, INSERT / UPDATE / DELETE of loaded keys, a second batch, a following INSERT of every key, an AUTO_INCREMENT probe), twin A loading the batches through insert_batch / insert_batch_into_schema / prepared execute (insert_cached inside) / insert_cached with a warmed plan / bulk_insert, twin B through one INSERT per row; the twins are compared after every step (Ok/Err class, SELECT * bag, COUNT(*), key lookups through the primary key / index / scan). Batches: EVERY sequence of <= L rows over a 5-letter row alphabet (duplicate keys, duplicate with existing rows, NULL key, NULL value) and generated batches of sizes 0,1,2,63,64,65,700(,5000) in sequential / reverse / duplicate-bearing order; 8 table kinds (plain, INT / BIGINT primary key, UNIQUE, secondary index, NOT NULL, AUTO_INCREMENT, table in a user schema) x 4 placements. Long runs: one prepared INSERT executed 400 (200-byte TEXT keys) / 2000 (INT keys) times with increasing keys on a PRIMARY KEY table (thorough: prepared-execute and insert_cached x PRIMARY KEY / UNIQUE x INT, BIGINT, 200-byte and 60-byte TEXT keys at 3000/3000/600/1500 executions), so that index root and leaf splits happen while the plan stays cached; every key is then looked up through the index on both twins, scan counts and duplicate-key rejection are compared. Distinct = distinct case; non-trivial = a non-empty batch.",
        );
        s.assumptions = &[
            "reference = the row-at-a-time INSERT twin (its own defects, e.g. the row-id counter restarting on open, show up as differences and are listed as findings with that root cause)",
            "partial failure of whole-batch APIs is unspecified: a batch with accepted and rejected rows only has to fail and to leave a prefix; bulk_insert documents that the caller guarantees the constraints, batches violating them are not judged",
        ];
        s.cap_quick_s = 100;
        s.cap_thorough_s = 1500;
        vec![s]
    }

    fn run(&self, ctx: &Ctx, rep: &mut Reporter) {
        let cases = enumerate(ctx);
        let plant = Plant::from_ctx(ctx);
        let szs = sizes(ctx);
        rep.bound("explicit batch length (every dimension / without reopening placements, BIGINT key, schema table, insert_batch_into_schema)", json!([ctx.tier.pick(1, 3), ctx.tier.pick(2, 4)]));
        rep.bound("row alphabet", json!(ALPHA.iter().map(show_r2).collect::<Vec<_>>()));
        rep.bound("pre rows", json!(PRE_ROWS.iter().map(show_r2).collect::<Vec<_>>()));
        rep.bound("generated sizes", json!(szs));
        rep.bound("apis", json!(APIS.iter().map(|a| a.name()).collect::<Vec<_>>()));
        rep.bound("table kinds", json!(KINDS.iter().map(|k| k.ddl()).collect::<Vec<_>>()));
        rep.bound("cases", json!(cases.len()));
        for c in ["rows_loaded", "plan:index", "api-calls:cached-plan", "fully-compared histories", "second-look histories fully compared", "err:primary-key", "err:unique", "err:not-null", "long-run histories", "long-run executions on the cached plan", "long-run key lookups compared", "long-run lookups planned as IndexScan"] {
            rep.expect_nonzero(c);
        }
        if ctx.opt("dry").is_some() {
            // sizing aid: count the cases only
            let n = cases.iter().filter(|c| ctx.mine(vcore::util::hash_of(&(c.api, c.kind, c.pre)) >> 8)).count() as u64;
            rep.bulk(n, 0);
            for c in cases.iter() {
                if ctx.mine(vcore::util::hash_of(&(c.api, c.kind, c.pre)) >> 8) {
                    rep.count(&format!("dry:{}", match &c.batch { BatchSpec::Explicit(b) => format!("explicit-len{}", b.len()), BatchSpec::Gen { n, .. } => format!("gen-{n}") }), 1);
                }
            }
            return;
        }
        rep.bound("long runs (one prepared INSERT executed n times, increasing keys)", json!(long_cases(ctx).iter().map(|c| format!("{}/{}/{}/n={}", c.api.name(), c.kind.name(), c.shape.name(), c.n)).collect::<Vec<_>>()));
        if ctx.opt("no-long").is_none() {
            // few, each on its own worker, first: a capped run still carries them
            run_long_cases(ctx, rep);
        }
        if ctx.opt("only-long").is_some() {
            return;
        }
        let mut sh = Shrinker { scratch: &ctx.scratch, plant, sizes: szs.clone(), cache: BTreeMap::new(), runs: 0 };
        for (i, c) in cases.iter().enumerate() {
            // one worker owns all cases of an (api, kind, placement) group: its shrink cache then answers most
            // minimisation probes (the explored set does not depend on the partition)
            if !ctx.mine(vcore::util::hash_of(&(c.api, c.kind, c.pre)) >> 8) {
                continue;
            }
            if ctx.expired() {
                rep.capped(&format!("deadline reached at case {} of {}", i, cases.len()));
                rep.bound("completed-cases(worker)", json!(i));
                break;
            }
            let o = run_case(&ctx.scratch, c, plant);
            let nrows = c.batch.rows().len();
            rep.case(vcore::util::hash_of(c), nrows > 0);
            rep.add_transitions(o.steps + 1);
            rep.add_traces_validated(1);
            rep.count(&format!("api:{}", c.api.name()), 1);
            rep.count(&format!("kind:{}", c.kind.name()), 1);
            rep.count(&format!("pre:{}", c.pre.name()), 1);
            rep.count("api-calls", o.stats.api_calls);
            rep.count("api-calls:cached-plan", o.stats.cached_calls);
            rep.count("api-calls:uncached-first-execution", o.stats.uncached_calls);
            rep.count("rows_loaded", o.stats.rows_loaded);
            rep.count("plan:index", o.stats.index_plans);
            rep.count("probes", o.stats.probes);
            rep.count("reference INSERT repeated over a row-id collision (KF-C04-01)", o.stats.rowid_retries);
            for (k, n) in &o.stats.errs {
                rep.count(&format!("err:{k}"), *n);
            }
            for n in &o.notes {
                rep.count(n, 1);
            }
            rep.sample(|| c.json());
            match &o.viol {
                None => {
                    rep.add_states(o.steps);
                    if o.notes.is_empty() {
                        rep.count("fully-compared histories", 1);
                        rep.outcome(&format!("{}/{}: equal", c.api.name(), c.kind.name()));
                    } else {
                        rep.outcome(&format!("{}/{}: {}", c.api.name(), c.kind.name(), o.notes[0]));
                    }
                }
                Some(v) => {
                    rep.add_states(o.steps);
                    rep.pruned(1);
                    rep.outcome(&format!("{}/{}: differs at {} ({})", c.api.name(), c.kind.name(), v.step, v.layer));
                    if v.layer == "harness" {
                        rep.note(&format!("harness problem: {} / {}", v.expected, v.observed));
                        continue;
                    }
                    report(&mut sh, c, v, &szs, rep);
                    // the divergence is one of the known step-level defects of this API: look behind it
                    if c.api.skipped().contains(&v.step) {
                        let c2 = Case { skip: true, ..c.clone() };
                        let o2 = run_case(&ctx.scratch, &c2, plant);
                        rep.case(vcore::util::hash_of(&c2), nrows > 0);
                        rep.add_transitions(o2.steps + 1);
                        rep.add_traces_validated(1);
                        rep.add_states(o2.steps);
                        rep.count("second-look histories (known-divergent steps left out)", 1);
                        match &o2.viol {
                            None => {
                                if o2.notes.is_empty() {
                                    rep.count("second-look histories fully compared", 1);
                                }
                            }
                            Some(v2) if v2.layer != "harness" => {
                                rep.outcome(&format!("{}/{}: second look differs at {} ({})", c.api.name(), c.kind.name(), v2.step, v2.layer));
                                report(&mut sh, &c2, v2, &szs, rep);
                            }
                            _ => {}
                        }
                    }
                }
            }
        }
        rep.count("shrink-runs", sh.runs);
    }

    fn replay(&self, ctx: &Ctx, case: &Value, rep: &mut Reporter) {
        if case["long-run"].as_bool() == Some(true) {
            let Some(c) = LongCase::from_json(case) else {
                rep.note("replay: unreadable long-run case");
                return;
            };
            let o = run_long(&ctx.scratch, &c);
            rep.case(vcore::util::hash_of(&("long-run", &c)), true);
            rep.add_states(o.execs);
            rep.add_transitions(o.execs + 1);
            rep.add_traces_validated(1);
            if let Some(v) = o.viol {
                let sig = long_signature(&c, &v);
                rep.violation("C43", &v.layer, &sig, || c.json(), &v.expected, &v.observed);
            }
            return;
        }
        let Some(c) = Case::from_json(case) else {
            rep.note("replay: unreadable case");
            return;
        };
        let plant = Plant::from_ctx(ctx);
        let o = run_case(&ctx.scratch, &c, plant);
        rep.case(vcore::util::hash_of(&c), true);
        rep.add_states(o.steps);
        rep.add_transitions(o.steps + 1);
        rep.add_traces_validated(1);
        if let Some(v) = o.viol {
            let sig = signature(&c, &v, &sizes(ctx));
            rep.violation("C43", &v.layer, &sig, || c.json(), &v.expected, &v.observed);
        }
    }
}

/// see c21: eyre captures a backtrace per error when RUST_BACKTRACE is set
fn quiet_env() {
    std::env::set_var("RUST_BACKTRACE", "0");
    std::env::set_var("RUST_LIB_BACKTRACE", "0");
    unsafe {
        libc::mallopt(libc::M_TRIM_THRESHOLD, 1 << 30);
        libc::mallopt(libc::M_TOP_PAD, 64 << 20);
        libc::mallopt(libc::M_MMAP_THRESHOLD, 1 << 20);
    }
}

fn main() {
    quiet_env();
    vcore::main(&C43)
}
