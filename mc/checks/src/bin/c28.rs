//! C28 — the B-tree behaves as an ordered map; C29 — B-tree pages stay structurally valid.
//!
//! Engine SEQ: explicit-state breadth-first search over the REAL `turdb::btree::BTree`
//! running on an in-memory `Storage`.  A state is the exact physical state (every page,
//! page count, root page, persisted rightmost hint) plus the reference model; states are
//! deduplicated by a 128-bit hash.  The frontier holds operation lists: a state is rebuilt
//! by restoring the seed image and replaying <= depth real calls.
//!
//! Work distribution: level-synchronous BFS; every distinct state is OWNED by exactly one
//! worker (hash mod workers); successors are shipped to their owner through files in the
//! shared scratch directory at the end of each level, so the visited set is exact and
//! `states` counts globally distinct states.
//!
//! Oracles after every transition:
//!  * C28: return value == model's, Err leaves the map unchanged, forward cursor scan,
//!    `cursor_seek(k)` (+ tail) for every alphabet key, backward scan from `cursor_last`,
//!    `get(k)` for every alphabet key.
//!  * C29: a walker over RAW page bytes (documented layout only, no TurDB accessors).
//!
//! Signatures: `<ID>/<oracle>/<pattern>/<expected>><observed>`.  For divergences the pattern
//! is the last call relative to the model (`update-grow`, `insert-dup`, ...), `!<error class>`
//! when it returned Err, `+el` when the history passed through a state with an emptied
//! non-root leaf.  For persistent conditions of a state (cursor oracles, frag accounting) the
//! pattern is the structural condition (`single-leaf`, `multi-leaf`, `emptied-leaf`).
//!
//! Options (`--opt`): `seed=<name>`, `pass=<A..E>`, `alpha=<k5s2|k8s3>`, `bump=<+-n>` (depth),
//! `plant=1` (self-test: the MODEL drops the successor key on delete; must yield a VIOLATION),
//! `timing=<file>`, `dl=<seconds>` (development aids).
use std::collections::{BTreeMap, HashMap, HashSet};
use std::hash::{BuildHasherDefault, Hasher};
use std::path::PathBuf;
use std::time::{Duration, Instant};

use turdb::btree::{BTree, InsertUniqueResult, INTERIOR_CONTENT_START, INTERIOR_SLOT_SIZE, LEAF_CONTENT_START, SLOT_SIZE};
use turdb::storage::Storage;
use vcore::util::{hash128, hex, unhex};
use vcore::{json, Check, Ctx, Reporter, Spec, Value};

const PS: usize = 16384;
type Page = Box<[u8; PS]>;

fn zero_page() -> Page {
    vec![0u8; PS].into_boxed_slice().try_into().unwrap()
}

// ---------------------------------------------------------------------------
// identity hasher for sets keyed by 128-bit state hashes
#[derive(Default)]
struct IdH(u64);
impl Hasher for IdH {
    fn finish(&self) -> u64 {
        self.0
    }
    fn write(&mut self, b: &[u8]) {
        for (i, x) in b.iter().take(8).enumerate() {
            self.0 ^= (*x as u64) << (8 * i);
        }
    }
    fn write_u128(&mut self, v: u128) {
        self.0 = (v as u64) ^ ((v >> 64) as u64).rotate_left(17);
    }
}
type HSet = HashSet<u128, BuildHasherDefault<IdH>>;
type HMap<V> = HashMap<u128, V, BuildHasherDefault<IdH>>;

// ---------------------------------------------------------------------------
// in-memory Storage with two restore layers (seed image, parent image) and per-page digests
struct Mem {
    pages: Vec<Page>,
    pool: Vec<Page>,
    dig: Vec<Option<u128>>,
    f_seed: Vec<bool>,
    d_seed: Vec<u32>,
    f_par: Vec<bool>,
    d_par: Vec<u32>,
    seed_pages: Vec<Page>,
    seed_dig: Vec<u128>,
    par_pages: Vec<Option<Page>>,
    par_dig: Vec<u128>,
    par_gen: Vec<u32>,
    gen: u32,
    par_count: usize,
    par_dseed_len: usize,
    scratch: Vec<u8>,
}

fn u16le(p: &[u8], o: usize) -> usize {
    u16::from_le_bytes([p[o], p[o + 1]]) as usize
}
fn u32le(p: &[u8], o: usize) -> u32 {
    u32::from_le_bytes([p[o], p[o + 1], p[o + 2], p[o + 3]])
}

/// digest of the bytes of a page that can influence any future behaviour: everything
/// except the free gap [free_start, free_end) (never read, only overwritten).
fn page_digest(p: &[u8; PS], scratch: &mut Vec<u8>) -> u128 {
    let fs = u16le(p, 4);
    let fe = u16le(p, 6);
    if fs >= 16 && fs <= fe && fe <= PS {
        scratch.clear();
        scratch.extend_from_slice(&p[..fs]);
        scratch.extend_from_slice(&p[fe..]);
        hash128(scratch)
    } else {
        hash128(&p[..])
    }
}

impl Mem {
    fn new(npages: usize) -> Mem {
        let mut m = Mem {
            pages: Vec::new(),
            pool: Vec::new(),
            dig: Vec::new(),
            f_seed: Vec::new(),
            d_seed: Vec::new(),
            f_par: Vec::new(),
            d_par: Vec::new(),
            seed_pages: Vec::new(),
            seed_dig: Vec::new(),
            par_pages: Vec::new(),
            par_dig: Vec::new(),
            par_gen: Vec::new(),
            gen: 1,
            par_count: 0,
            par_dseed_len: 0,
            scratch: Vec::with_capacity(PS),
        };
        m.grow_to(npages);
        m
    }
    fn ensure_aux(&mut self, n: usize) {
        if self.f_seed.len() < n {
            self.f_seed.resize(n, false);
            self.f_par.resize(n, false);
            self.dig.resize(n, None);
            self.par_pages.resize_with(n, || None);
            self.par_dig.resize(n, 0);
            self.par_gen.resize(n, 0);
        }
    }
    fn touch(&mut self, n: usize) {
        if !self.f_seed[n] {
            self.f_seed[n] = true;
            self.d_seed.push(n as u32);
        }
        if !self.f_par[n] {
            self.f_par[n] = true;
            self.d_par.push(n as u32);
        }
        self.dig[n] = None;
    }
    fn grow_to(&mut self, n: usize) {
        self.ensure_aux(n);
        while self.pages.len() < n {
            let mut p = self.pool.pop().unwrap_or_else(zero_page);
            p.fill(0);
            self.pages.push(p);
            let i = self.pages.len() - 1;
            self.touch(i);
        }
    }
    fn raw(&self, n: u32) -> Option<&[u8; PS]> {
        self.pages.get(n as usize).map(|p| &**p)
    }
    fn digest_of(&mut self, n: usize) -> u128 {
        if let Some(d) = self.dig[n] {
            return d;
        }
        let d = page_digest(&self.pages[n], &mut self.scratch);
        self.dig[n] = Some(d);
        d
    }
    /// make the current content the seed image
    fn freeze_seed(&mut self) {
        self.seed_pages = self.pages.iter().map(|p| p.clone()).collect();
        self.seed_dig = (0..self.pages.len()).map(|i| self.digest_of(i)).collect();
        for &p in &self.d_seed {
            self.f_seed[p as usize] = false;
        }
        for &p in &self.d_par {
            self.f_par[p as usize] = false;
        }
        self.d_seed.clear();
        self.d_par.clear();
    }
    fn truncate(&mut self, n: usize) {
        while self.pages.len() > n {
            let p = self.pages.pop().unwrap();
            self.pool.push(p);
        }
    }
    fn restore_seed(&mut self) {
        let sc = self.seed_pages.len();
        let d = std::mem::take(&mut self.d_seed);
        for &p in &d {
            let p = p as usize;
            self.f_seed[p] = false;
            if p < sc && p < self.pages.len() {
                self.pages[p].copy_from_slice(&self.seed_pages[p][..]);
                self.dig[p] = Some(self.seed_dig[p]);
            }
        }
        self.d_seed = d;
        self.d_seed.clear();
        for &p in &self.d_par {
            self.f_par[p as usize] = false;
        }
        self.d_par.clear();
        self.truncate(sc);
        debug_assert_eq!(self.pages.len(), sc);
    }
    /// remember the current content as the parent image
    fn mark_parent(&mut self) {
        self.gen += 1;
        self.par_count = self.pages.len();
        self.par_dseed_len = self.d_seed.len();
        for i in 0..self.d_seed.len() {
            let p = self.d_seed[i] as usize;
            if p >= self.pages.len() {
                continue;
            }
            let d = self.digest_of(p);
            if self.par_pages[p].is_none() {
                self.par_pages[p] = Some(zero_page());
            }
            self.par_pages[p].as_mut().unwrap().copy_from_slice(&self.pages[p][..]);
            self.par_dig[p] = d;
            self.par_gen[p] = self.gen;
        }
        for &p in &self.d_par {
            self.f_par[p as usize] = false;
        }
        self.d_par.clear();
    }
    fn restore_parent(&mut self) {
        let d = std::mem::take(&mut self.d_par);
        for &p in &d {
            let p = p as usize;
            self.f_par[p] = false;
            if p < self.par_count {
                if self.par_gen[p] == self.gen {
                    let src = self.par_pages[p].as_ref().unwrap();
                    self.pages[p].copy_from_slice(&src[..]);
                    self.dig[p] = Some(self.par_dig[p]);
                } else {
                    self.pages[p].copy_from_slice(&self.seed_pages[p][..]);
                    self.dig[p] = Some(self.seed_dig[p]);
                }
            }
        }
        self.d_par = d;
        self.d_par.clear();
        for i in self.par_dseed_len..self.d_seed.len() {
            let p = self.d_seed[i] as usize;
            self.f_seed[p] = false;
        }
        self.d_seed.truncate(self.par_dseed_len);
        self.truncate(self.par_count);
    }
    /// hash of the physical state (+ the scalars handed in)
    fn state_hash(&mut self, head: &[u8]) -> u128 {
        let mut buf: Vec<u8> = Vec::with_capacity(head.len() + 8 + 16 * self.pages.len());
        buf.extend_from_slice(head);
        buf.extend_from_slice(&(self.pages.len() as u32).to_le_bytes());
        for i in 0..self.pages.len() {
            let d = self.digest_of(i);
            buf.extend_from_slice(&d.to_le_bytes());
        }
        hash128(&buf)
    }
}

impl Storage for Mem {
    fn page(&self, page_no: u32) -> eyre::Result<&[u8]> {
        match self.pages.get(page_no as usize) {
            Some(p) => Ok(&p[..]),
            None => eyre::bail!("page {} out of bounds (page_count={})", page_no, self.pages.len()),
        }
    }
    fn page_mut(&mut self, page_no: u32) -> eyre::Result<&mut [u8]> {
        let n = page_no as usize;
        if n >= self.pages.len() {
            eyre::bail!("page {} out of bounds (page_count={})", page_no, self.pages.len());
        }
        self.touch(n);
        Ok(&mut self.pages[n][..])
    }
    fn grow(&mut self, new_page_count: u32) -> eyre::Result<()> {
        self.grow_to(new_page_count as usize);
        Ok(())
    }
    fn page_count(&self) -> u32 {
        self.pages.len() as u32
    }
    fn sync(&self) -> eyre::Result<()> {
        Ok(())
    }
}

// ---------------------------------------------------------------------------
// reference model: ordered map key -> value (values are uniform fills: (len, fill))
#[derive(Clone, Copy, PartialEq, Eq, Debug)]
struct Val {
    len: u32,
    fill: u8,
}
fn val_matches(v: &[u8], m: Val) -> bool {
    v.len() == m.len as usize && v.iter().all(|b| *b == m.fill)
}
fn val_of(v: &[u8]) -> Option<Val> {
    let fill = v.first().copied().unwrap_or(0);
    if v.iter().all(|b| *b == fill) {
        Some(Val { len: v.len() as u32, fill })
    } else {
        None
    }
}
fn ent_hash(k: &[u8], v: Val) -> u128 {
    let mut b = Vec::with_capacity(k.len() + 5);
    b.extend_from_slice(k);
    b.extend_from_slice(&v.len.to_le_bytes());
    b.push(v.fill);
    hash128(&b)
}

struct Model {
    map: BTreeMap<Vec<u8>, Val>,
    h: u128,
    undo: Vec<(Vec<u8>, Option<Val>)>,
    /// planted harness error (self-test): delete also drops the next key of the model
    plant: bool,
}
impl Model {
    fn new(plant: bool) -> Model {
        Model { map: BTreeMap::new(), h: 0, undo: Vec::new(), plant }
    }
    fn set(&mut self, k: &[u8], v: Option<Val>) {
        let old = match v {
            Some(v) => {
                self.h = self.h.wrapping_add(ent_hash(k, v));
                self.map.insert(k.to_vec(), v)
            }
            None => self.map.remove(k),
        };
        if let Some(o) = old {
            self.h = self.h.wrapping_sub(ent_hash(k, o));
        }
        self.undo.push((k.to_vec(), old));
    }
    fn put(&mut self, k: &[u8], v: Val) {
        self.set(k, Some(v));
    }
    fn del(&mut self, k: &[u8]) {
        self.set(k, None);
        if self.plant {
            let next = self.map.range::<[u8], _>((std::ops::Bound::Excluded(k), std::ops::Bound::Unbounded)).next().map(|(k, _)| k.clone());
            if let Some(n) = next {
                self.set(&n, None);
            }
        }
    }
    fn mark(&self) -> usize {
        self.undo.len()
    }
    fn undo_to(&mut self, mark: usize) {
        while self.undo.len() > mark {
            let (k, old) = self.undo.pop().unwrap();
            let cur = match old {
                Some(v) => {
                    self.h = self.h.wrapping_add(ent_hash(&k, v));
                    self.map.insert(k.clone(), v)
                }
                None => self.map.remove(&k),
            };
            if let Some(c) = cur {
                self.h = self.h.wrapping_sub(ent_hash(&k, c));
            }
        }
    }
    /// forget the undo log (the current content becomes the base)
    fn freeze(&mut self) {
        self.undo.clear();
    }
    fn max_key(&self) -> Option<&Vec<u8>> {
        self.map.keys().next_back()
    }
}

// ---------------------------------------------------------------------------
// operations
#[derive(Clone, Copy, PartialEq, Eq, Debug)]
enum Kind {
    Insert,
    Ine,
    Append,
    Update,
    Delete,
}
impl Kind {
    fn name(self) -> &'static str {
        match self {
            Kind::Insert => "insert",
            Kind::Ine => "insert_if_not_exists",
            Kind::Append => "insert_append",
            Kind::Update => "update",
            Kind::Delete => "delete",
        }
    }
    fn parse(s: &str) -> Option<Kind> {
        Some(match s {
            "insert" => Kind::Insert,
            "insert_if_not_exists" => Kind::Ine,
            "insert_append" => Kind::Append,
            "update" => Kind::Update,
            "delete" => Kind::Delete,
            _ => return None,
        })
    }
}
#[derive(Clone, Debug)]
struct Op {
    kind: Kind,
    key: Vec<u8>,
    len: u32,
    fill: u8,
}
impl Op {
    /// keys longer than 16 bytes ending in a run of one byte are written as prefix + pad byte + length
    fn key_json(&self) -> Value {
        let k = &self.key;
        if k.len() > 16 {
            let b = k[k.len() - 1];
            let mut p = k.len();
            while p > 0 && k[p - 1] == b {
                p -= 1;
            }
            json!({"prefix": hex(&k[..p]), "pad": b, "len": k.len()})
        } else {
            json!(hex(k))
        }
    }
    fn to_json(&self) -> Value {
        if self.kind == Kind::Delete {
            json!({"op": self.kind.name(), "k": self.key_json()})
        } else {
            json!({"op": self.kind.name(), "k": self.key_json(), "n": self.len, "f": self.fill})
        }
    }
    fn from_json(v: &Value) -> Option<Op> {
        let key = match &v["k"] {
            Value::String(s) => unhex(s),
            o => {
                let mut k = unhex(o["prefix"].as_str()?);
                k.resize(o["len"].as_u64()? as usize, o["pad"].as_u64()? as u8);
                k
            }
        };
        Some(Op { kind: Kind::parse(v["op"].as_str()?)?, key, len: v["n"].as_u64().unwrap_or(0) as u32, fill: v["f"].as_u64().unwrap_or(0) as u8 })
    }
    fn val(&self) -> Val {
        Val { len: self.len, fill: self.fill }
    }
}
const FILL_INSERT: u8 = 0xAA;
const FILL_UPDATE: u8 = 0xBB;

/// operation label relative to the model BEFORE the call (the "minimal op pattern")
fn label(op: &Op, m: &Model) -> &'static str {
    let cur = m.map.get(&op.key);
    match (op.kind, cur) {
        (Kind::Insert, None) => "insert",
        (Kind::Insert, Some(_)) => "insert-dup",
        (Kind::Ine, None) => "ine",
        (Kind::Ine, Some(_)) => "ine-dup",
        (Kind::Append, _) => "append",
        (Kind::Delete, None) => "delete-absent",
        (Kind::Delete, Some(_)) => "delete",
        (Kind::Update, None) => "update-absent",
        (Kind::Update, Some(v)) => {
            if op.len == v.len {
                "update-same"
            } else if op.len < v.len {
                "update-shrink"
            } else {
                "update-grow"
            }
        }
    }
}

// ---------------------------------------------------------------------------
// executing one real call
#[derive(Clone, Copy, PartialEq, Eq, Debug)]
enum HintMode {
    /// `with_rightmost_hint(persisted)`, hint persisted after every call (pass A, C, D)
    Persist,
    /// `BTree::new` for every call (pass B)
    NoHint,
    /// `with_rightmost_hint(seed's hint)` for every call, never refreshed (pass E)
    Stale,
}
#[derive(Clone, Copy, Debug)]
struct Tree {
    root: u32,
    hint: Option<u32>,
}
#[derive(Clone, Debug)]
enum Res {
    Unit,
    Bool(bool),
    Inserted,
    Dup { key_ok: bool, val: Option<Val> },
    Err(String),
    Panic(String),
}

fn err_class(msg: &str) -> String {
    if msg.contains("separator key already exists") {
        "sep-exists".into()
    } else if msg.contains("key already exists") {
        "dup".into()
    } else if msg.contains("not enough free space") {
        "no-space".into()
    } else if msg.contains("Keys out of order") {
        "split-keys-out-of-order".into()
    } else {
        // first words, digits removed
        let s: String = msg.chars().filter(|c| !c.is_ascii_digit()).collect();
        s.split(|c: char| !c.is_ascii_alphabetic()).filter(|w| !w.is_empty()).take(4).collect::<Vec<_>>().join("-")
    }
}
impl Res {
    fn class(&self) -> String {
        match self {
            Res::Unit => "ok".into(),
            Res::Bool(b) => format!("{b}"),
            Res::Inserted => "inserted".into(),
            Res::Dup { .. } => "duplicate".into(),
            Res::Err(e) => format!("err({})", err_class(e)),
            Res::Panic(e) => format!("panic({})", err_class(e)),
        }
    }
    fn failed(&self) -> bool {
        matches!(self, Res::Err(_) | Res::Panic(_))
    }
}

fn apply(mem: &mut Mem, t: &mut Tree, hm: HintMode, op: &Op) -> Res {
    let root = t.root;
    let hint = t.hint;
    let value = vec![op.fill; op.len as usize];
    let r = vcore::catch(|| -> Result<(Res, u32, Option<u32>), String> {
        let mut bt = match hm {
            HintMode::NoHint => BTree::new(mem, root),
            _ => BTree::with_rightmost_hint(mem, root, hint),
        }
        .map_err(|e| e.to_string())?;
        let res = match op.kind {
            Kind::Insert => match bt.insert(&op.key, &value) {
                Ok(()) => Res::Unit,
                Err(e) => Res::Err(e.to_string()),
            },
            Kind::Append => match bt.insert_append(&op.key, &value) {
                Ok(()) => Res::Unit,
                Err(e) => Res::Err(e.to_string()),
            },
            Kind::Ine => match bt.insert_if_not_exists(&op.key, &value) {
                Ok(InsertUniqueResult::Inserted) => Res::Inserted,
                Ok(InsertUniqueResult::Duplicate(h)) => {
                    let key_ok = bt.get_key(&h).map(|k| k == &op.key[..]).unwrap_or(false);
                    let val = bt.get_value(&h).ok().and_then(val_of);
                    Res::Dup { key_ok, val }
                }
                Err(e) => Res::Err(e.to_string()),
            },
            Kind::Update => match bt.update(&op.key, &value) {
                Ok(b) => Res::Bool(b),
                Err(e) => Res::Err(e.to_string()),
            },
            Kind::Delete => match bt.delete(&op.key) {
                Ok(b) => Res::Bool(b),
                Err(e) => Res::Err(e.to_string()),
            },
        };
        Ok((res, bt.root_page(), bt.rightmost_hint()))
    });
    match r {
        Ok(Ok((res, root, hint))) => {
            t.root = root;
            if hm == HintMode::Persist {
                t.hint = hint;
            }
            res
        }
        Ok(Err(e)) => Res::Err(format!("open: {e}")),
        Err(p) => Res::Panic(p),
    }
}

/// what the ordered map says about the call: Ok(model change) or the ret-oracle failure
enum Change {
    Nothing,
    Put,
    Del,
}
fn judge(op: &Op, res: &Res, m: &Model) -> Result<Change, (String, String)> {
    let cur = m.map.get(&op.key).copied();
    let bad = |exp: &str| Err((exp.to_string(), res.class()));
    match (op.kind, cur) {
        (Kind::Insert, Some(_)) => match res {
            Res::Err(_) => Ok(Change::Nothing),
            _ => bad("err"),
        },
        (Kind::Insert, None) | (Kind::Append, _) => match res {
            Res::Unit => Ok(Change::Put),
            _ => bad("ok"),
        },
        (Kind::Ine, Some(v)) => match res {
            Res::Dup { key_ok: true, val } if *val == Some(v) => Ok(Change::Nothing),
            Res::Dup { .. } => Err(("duplicate(handle of stored entry)".into(), "duplicate(wrong-handle)".into())),
            _ => bad("duplicate"),
        },
        (Kind::Ine, None) => match res {
            Res::Inserted => Ok(Change::Put),
            _ => bad("inserted"),
        },
        (Kind::Update, Some(_)) => match res {
            Res::Bool(true) => Ok(Change::Put),
            // tolerance (DESIGN C28): `false` for an existing key (no room) if nothing changed
            Res::Bool(false) => Ok(Change::Nothing),
            _ => bad("true"),
        },
        (Kind::Update, None) => match res {
            Res::Bool(false) => Ok(Change::Nothing),
            _ => bad("false"),
        },
        (Kind::Delete, Some(_)) => match res {
            Res::Bool(true) => Ok(Change::Del),
            _ => bad("true"),
        },
        (Kind::Delete, None) => match res {
            Res::Bool(false) => Ok(Change::Nothing),
            _ => bad("false"),
        },
    }
}

// ---------------------------------------------------------------------------
// C29: structural walker over raw page bytes (documented layout only)
#[derive(Clone, Copy, Debug)]
struct KeyRef {
    page: u32,
    off: u16,
    len: u16,
}
#[derive(Clone, Copy, Debug)]
struct Ent {
    page: u32,
    koff: u16,
    klen: u16,
    voff: u16,
    vlen: u32,
}
#[derive(Clone, Debug)]
struct LeafInfo {
    page: u32,
    depth: usize,
    first: usize,
    n: usize,
    lo: Option<KeyRef>,
    hi: Option<KeyRef>,
    next: u32,
}
#[derive(Clone, Debug)]
struct Prob {
    oracle: &'static str,
    class: String,
    detail: String,
    blocking: bool,
}
#[derive(Default)]
struct Walk {
    leaves: Vec<LeafInfo>,
    ents: Vec<Ent>,
    probs: Vec<Prob>,
    seen: Vec<bool>,
    cells: Vec<(usize, usize)>,
    interiors: usize,
    root_seps: usize,
    /// non-root leaves without cells
    empties: usize,
    height: usize,
}
impl Walk {
    fn condition(&self) -> &'static str {
        if self.empties > 0 {
            "emptied-leaf"
        } else if self.leaves.len() >= 2 {
            "multi-leaf"
        } else {
            "single-leaf"
        }
    }
}

/// independent decoder of the documented varint table (src/encoding/varint.rs docs)
fn varint(b: &[u8]) -> Option<(u64, usize)> {
    let m = *b.first()? as u64;
    match m {
        0..=240 => Some((m, 1)),
        241..=248 => Some((240 + ((m - 241) << 8) + *b.get(1)? as u64, 2)),
        249 => Some((2288 + ((*b.get(1)? as u64) << 8) + *b.get(2)? as u64, 3)),
        250 => Some((((*b.get(1)? as u64) << 16) | ((*b.get(2)? as u64) << 8) | *b.get(3)? as u64, 4)),
        251 => Some((((*b.get(1)? as u64) << 24) | ((*b.get(2)? as u64) << 16) | ((*b.get(3)? as u64) << 8) | *b.get(4)? as u64, 5)),
        255 => {
            let mut v = 0u64;
            for i in 1..9 {
                v = (v << 8) | *b.get(i)? as u64;
            }
            Some((v, 9))
        }
        _ => None,
    }
}

impl Walk {
    fn key<'a>(&self, mem: &'a Mem, k: KeyRef) -> &'a [u8] {
        &mem.raw(k.page).unwrap()[k.off as usize..k.off as usize + k.len as usize]
    }
    fn ent_key<'a>(&self, mem: &'a Mem, e: &Ent) -> &'a [u8] {
        &mem.raw(e.page).unwrap()[e.koff as usize..e.koff as usize + e.klen as usize]
    }
    fn ent_val<'a>(&self, mem: &'a Mem, e: &Ent) -> &'a [u8] {
        &mem.raw(e.page).unwrap()[e.voff as usize..e.voff as usize + e.vlen as usize]
    }
    fn prob(&mut self, oracle: &'static str, class: &str, detail: String) {
        if self.probs.len() < 16 {
            self.probs.push(Prob { oracle, class: class.to_string(), detail, blocking: oracle != "frag-accounting" });
        }
    }
    fn run(&mut self, mem: &Mem, root: u32) {
        self.leaves.clear();
        self.ents.clear();
        self.probs.clear();
        self.seen.clear();
        self.seen.resize(mem.pages.len(), false);
        self.interiors = 0;
        self.root_seps = 0;
        self.empties = 0;
        self.height = 0;
        self.visit(mem, root, 1, None, None, true);
        // uniform leaf depth
        if let Some(d0) = self.leaves.first().map(|l| l.depth) {
            self.height = d0;
            if self.leaves.iter().any(|l| l.depth != d0) {
                let ds: Vec<usize> = self.leaves.iter().map(|l| l.depth).collect();
                self.prob("leaf-depth", "uniform>mixed", format!("leaf depths {:?}", ds));
            }
        }
        // leaf chain == in-order leaves, each exactly once, terminated by 0
        for i in 0..self.leaves.len() {
            let want = self.leaves.get(i + 1).map(|l| l.page).unwrap_or(0);
            let got = self.leaves[i].next;
            if got != want {
                let class = if want == 0 {
                    "end>continues"
                } else if got == 0 {
                    "next-in-order>ends-early"
                } else if self.leaves.iter().any(|l| l.page == got) {
                    "next-in-order>other-tree-leaf"
                } else {
                    "next-in-order>leaf-not-in-tree"
                };
                let p = self.leaves[i].page;
                self.prob("leaf-chain", class, format!("leaf page {p} (in-order #{i}) has next_leaf={got}, in-order successor is {want}"));
                break;
            }
        }
        self.empties = self.leaves.iter().filter(|l| l.n == 0 && l.page != root).count();
    }

    fn visit(&mut self, mem: &Mem, page: u32, depth: usize, lo: Option<KeyRef>, hi: Option<KeyRef>, is_root: bool) {
        if depth > 12 {
            self.prob("leaf-depth", "bounded>too-deep", format!("depth > 12 at page {page}"));
            return;
        }
        let p = match mem.raw(page) {
            Some(p) => p,
            None => {
                self.prob("child-pointer", "in-file>out-of-range", format!("page {page} >= page_count {}", mem.pages.len()));
                return;
            }
        };
        if self.seen[page as usize] {
            self.prob("page-once", "once>twice", format!("page {page} reachable twice"));
            return;
        }
        self.seen[page as usize] = true;
        let ty = p[0];
        let n = u16le(p, 2);
        let fs = u16le(p, 4);
        let fe = u16le(p, 6);
        let frag = p[8] as usize;
        let (start, ssz, leaf) = match ty {
            0x02 => (LEAF_CONTENT_START, SLOT_SIZE, true),
            0x01 => (INTERIOR_CONTENT_START, INTERIOR_SLOT_SIZE, false),
            _ => {
                self.prob("header", "btree-page>other-type", format!("page {page} has type byte {ty:#04x}"));
                return;
            }
        };
        if start + n * ssz > PS {
            self.prob("header", "slots-in-page>overflow", format!("page {page}: cell_count {n}"));
            return;
        }
        if fs != start + n * ssz {
            self.prob("header", "free_start=end-of-slots>differs", format!("page {page}: free_start {fs}, slots end at {}", start + n * ssz));
        }
        if fe > PS || fe < start + n * ssz {
            self.prob("header", "free_end-in-range>out-of-range", format!("page {page}: free_end {fe}, slots end {}", start + n * ssz));
            return;
        }
        // slots
        self.cells.clear();
        let first_ent = self.ents.len();
        let mut keys: Vec<KeyRef> = Vec::with_capacity(if leaf { 0 } else { n });
        let mut children: Vec<u32> = Vec::new();
        let mut prev: Option<(usize, usize)> = None;
        let mut live = 0usize;
        for i in 0..n {
            let s = start + i * ssz;
            let (off, klen) = if leaf { (u16le(p, s + 4), u16le(p, s + 6)) } else { (u16le(p, s + 8), u16le(p, s + 10)) };
            if off < fe || off + klen > PS {
                self.prob("cell-bounds", "cell-in-cell-area>outside", format!("page {page} slot {i}: offset {off} key_len {klen} free_end {fe}"));
                return;
            }
            let mut end = off + klen;
            if leaf {
                match varint(&p[end..]) {
                    Some((vl, vs)) if end + vs + vl as usize <= PS => {
                        self.ents.push(Ent { page, koff: off as u16, klen: klen as u16, voff: (end + vs) as u16, vlen: vl as u32 });
                        end += vs + vl as usize;
                    }
                    _ => {
                        self.prob("cell-bounds", "value-in-page>outside", format!("page {page} slot {i}: value length does not decode inside the page"));
                        return;
                    }
                }
            } else {
                children.push(u32le(p, s + 4));
                keys.push(KeyRef { page, off: off as u16, len: klen as u16 });
            }
            self.cells.push((off, end));
            live += end - off;
            let key = &p[off..off + klen];
            let mut pre = [0u8; 4];
            pre[..klen.min(4)].copy_from_slice(&key[..klen.min(4)]);
            if p[s..s + 4] != pre {
                self.prob("slot-prefix", "first-4-key-bytes>differs", format!("page {page} slot {i}: prefix {} key starts {}", hex(&p[s..s + 4]), hex(&pre)));
            }
            if let Some((po, pl)) = prev {
                if &p[po..po + pl] >= key {
                    self.prob("key-order", "strictly-increasing>not", format!("page {page} slots {} and {i}", i - 1));
                }
            }
            prev = Some((off, klen));
            // bounds from the ancestors' separators
            if i == 0 {
                if let Some(l) = lo {
                    if key < self.key(mem, l) {
                        self.prob("sep-bounds", "within-separators>below-lower", format!("page {page} first key {} < separator {}", hex(&key[..klen.min(12)]), hex(&self.key(mem, l)[..(l.len as usize).min(12)])));
                    }
                }
            }
            if i == n - 1 {
                if let Some(h) = hi {
                    if key >= self.key(mem, h) {
                        self.prob("sep-bounds", "within-separators>not-below-upper", format!("page {page} last key {} >= separator {}", hex(&key[..klen.min(12)]), hex(&self.key(mem, h)[..(h.len as usize).min(12)])));
                    }
                }
            }
        }
        // cells pairwise disjoint
        self.cells.sort_unstable();
        for w in self.cells.windows(2) {
            if w[0].1 > w[1].0 {
                self.prob("cell-bounds", "cells-disjoint>overlap", format!("page {page}: cells {:?} and {:?}", w[0], w[1]));
                break;
            }
        }
        // free-space accounting: bytes of the cell area not owned by a live cell == frag_bytes (saturating u8)
        let dead = (PS - fe).saturating_sub(live);
        if frag != dead.min(255) {
            let class = if !leaf {
                "interior-exact>differs"
            } else if frag < dead.min(255) {
                "dead-bytes>undercounted"
            } else {
                "dead-bytes>overcounted"
            };
            self.prob("frag-accounting", class, format!("page {page}: cell area {} bytes, live cells {live}, dead {dead}, frag_bytes {frag}", PS - fe));
        }
        if leaf {
            self.leaves.push(LeafInfo { page, depth, first: first_ent, n, lo, hi, next: u32le(p, 12) });
        } else {
            self.interiors += 1;
            if is_root {
                self.root_seps = n;
            }
            let right = u32le(p, 12);
            for i in 0..=n {
                let c = if i < n { children[i] } else { right };
                let clo = if i == 0 { lo } else { Some(keys[i - 1]) };
                let chi = if i < n { Some(keys[i]) } else { hi };
                self.visit(mem, c, depth + 1, clo, chi, false);
            }
        }
    }

    /// in-order content of the tree (as the walker sees it) == model ?
    fn content_diff(&self, mem: &Mem, m: &Model) -> Option<(String, String)> {
        for (i, w2) in self.ents.windows(2).enumerate() {
            let (a, b) = (self.ent_key(mem, &w2[0]), self.ent_key(mem, &w2[1]));
            if a >= b {
                let class = if a == b { "key-stored-twice" } else { "key-misplaced" };
                return Some((class.into(), format!("in-order entries #{i} {} and #{} {} are not increasing", hex(&a[..a.len().min(12)]), i + 1, hex(&b[..b.len().min(12)]))));
            }
        }
        let mut it = m.map.iter();
        let mut i = 0usize;
        loop {
            match (self.ents.get(i), it.next()) {
                (None, None) => return None,
                (Some(e), Some((k, v))) => {
                    let ek = self.ent_key(mem, e);
                    if ek != &k[..] {
                        let class = if ek > &k[..] { "key-lost" } else { "key-added" };
                        return Some((class.into(), format!("entry #{i}: tree has {}, model has {}", hex(&ek[..ek.len().min(12)]), hex(&k[..k.len().min(12)]))));
                    }
                    if !val_matches(self.ent_val(mem, e), *v) {
                        return Some(("wrong-value".into(), format!("entry #{i} key {}: stored value length {}, model {:?}", hex(&k[..k.len().min(12)]), e.vlen, v)));
                    }
                }
                (Some(e), None) => {
                    let ek = self.ent_key(mem, e);
                    return Some(("key-added".into(), format!("tree has extra entry #{i} {}", hex(&ek[..ek.len().min(12)]))));
                }
                (None, Some((k, _))) => return Some(("key-lost".into(), format!("model entry #{i} {} missing in tree", hex(&k[..k.len().min(12)])))),
            }
            i += 1;
        }
    }
    /// index of the leaf a key routes to by the separators
    fn route(&self, mem: &Mem, k: &[u8]) -> Option<usize> {
        self.leaves.iter().position(|l| l.lo.map(|x| self.key(mem, x) <= k).unwrap_or(true) && l.hi.map(|x| k < self.key(mem, x)).unwrap_or(true))
    }
    fn leaf_of_ent(&self, idx: usize) -> Option<usize> {
        self.leaves.iter().position(|l| idx >= l.first && idx < l.first + l.n)
    }
}

// ---------------------------------------------------------------------------
// C28 observation oracles through the real API
#[derive(Clone, Copy)]
enum Start<'k> {
    First,
    Last,
    Seek(&'k [u8]),
}

/// drive a real cursor; `f(key, value)` returns false to stop.  Err = error/panic text.
fn drive(mem: &mut Mem, root: u32, start: Start, limit: usize, f: &mut dyn FnMut(&[u8], &[u8]) -> bool) -> Result<(), String> {
    let r = vcore::catch(|| -> Result<(), String> {
        let bt = BTree::new(mem, root).map_err(|e| e.to_string())?;
        let mut c = match start {
            Start::First => bt.cursor_first(),
            Start::Last => bt.cursor_last(),
            Start::Seek(k) => bt.cursor_seek(k),
        }
        .map_err(|e| e.to_string())?;
        let back = matches!(start, Start::Last);
        let mut n = 0usize;
        if c.valid() {
            loop {
                let k = c.key().map_err(|e| e.to_string())?;
                let v = c.value().map_err(|e| e.to_string())?;
                n += 1;
                if !f(k, v) || n >= limit {
                    break;
                }
                let more = if back { c.prev() } else { c.advance() }.map_err(|e| e.to_string())?;
                if !more {
                    break;
                }
            }
        }
        Ok(())
    });
    match r {
        Ok(x) => x,
        Err(p) => Err(format!("panic: {p}")),
    }
}

/// lock-step comparison of a cursor enumeration with the expected entries
fn scan_matches<'m>(mem: &mut Mem, root: u32, start: Start, exp: &mut dyn Iterator<Item = (&'m Vec<u8>, &'m Val)>, limit: usize) -> bool {
    let mut ok = true;
    let mut n = 0usize;
    let mut done = false;
    let r = drive(mem, root, start, limit.saturating_add(1), &mut |k, v| {
        if n >= limit {
            done = true;
            return false;
        }
        match exp.next() {
            Some((ek, ev)) if &ek[..] == k && val_matches(v, *ev) => {
                n += 1;
                true
            }
            _ => {
                ok = false;
                false
            }
        }
    });
    if r.is_err() || !ok {
        return false;
    }
    // cursor ended: expected must be exhausted too (unless the comparison window is full)
    done || n >= limit || exp.next().is_none()
}

/// slow path (only on mismatch): materialise what the cursor returns
fn scan_collect(mem: &mut Mem, root: u32, start: Start, limit: usize) -> (Vec<(Vec<u8>, Option<Val>)>, Option<String>) {
    let mut out = Vec::new();
    let r = drive(mem, root, start, limit, &mut |k, v| {
        out.push((k.to_vec(), val_of(v)));
        true
    });
    (out, r.err())
}

fn classify(obs: &[(Vec<u8>, Option<Val>)], err: &Option<String>, exp: &[(Vec<u8>, Val)]) -> String {
    if let Some(e) = err {
        let kind = if e.starts_with("panic") { "panic" } else { "err" };
        return format!("{kind}({})", err_class(e.trim_start_matches("panic: ")));
    }
    let same = |a: &(Vec<u8>, Option<Val>), b: &(Vec<u8>, Val)| a.0 == b.0 && a.1 == Some(b.1);
    if obs.is_empty() {
        return "nothing".into();
    }
    if obs.len() <= exp.len() && obs.iter().zip(exp.iter()).all(|(a, b)| same(a, b)) {
        return "stops-early".into();
    }
    if obs.len() == exp.len() && obs.iter().zip(exp.iter()).all(|(a, b)| a.0 == b.0) {
        return "wrong-value".into();
    }
    // subsequence?
    let mut j = 0;
    for e in exp {
        if j < obs.len() && same(&obs[j], e) {
            j += 1;
        }
    }
    if j == obs.len() {
        return "skips-entries".into();
    }
    let expk: std::collections::BTreeSet<&Vec<u8>> = exp.iter().map(|e| &e.0).collect();
    if obs.iter().any(|o| !expk.contains(&o.0)) {
        return "extra-key".into();
    }
    if obs.windows(2).any(|w| w[0].0 == w[1].0) {
        return "repeated-key".into();
    }
    "wrong-order".into()
}

fn show(list: &[(Vec<u8>, Option<Val>)]) -> String {
    let v: Vec<String> = list.iter().take(12).map(|(k, v)| format!("{}:{}", hex(&k[..k.len().min(9)]), v.map(|v| format!("{}x{:02x}", v.len, v.fill)).unwrap_or("?".into()))).collect();
    format!("[{}{}] ({} entries)", v.join(" "), if list.len() > 12 { " …" } else { "" }, list.len())
}
fn show_exp(list: &[(Vec<u8>, Val)]) -> String {
    let l: Vec<(Vec<u8>, Option<Val>)> = list.iter().map(|(k, v)| (k.clone(), Some(*v))).collect();
    show(&l)
}

/// one oracle failure on a state / transition
#[derive(Clone, Debug)]
struct V {
    prop: &'static str,
    oracle: &'static str,
    class: String,
    expected: String,
    observed: String,
    blocking: bool,
}
impl V {
    /// persistent conditions (a property of the state, not of the last call) are blamed on the
    /// structural condition of the tree instead of the last operation
    fn persistent(&self) -> bool {
        matches!(self.oracle, "scan-fwd" | "scan-bwd" | "seek" | "frag-accounting")
    }
}

struct StateReport {
    viols: Vec<V>,
    cond: &'static str,
    /// tree content (walker + get) equals the model and the structure is sound
    content_ok: bool,
    empties: usize,
    height: usize,
    root_seps: usize,
    leaves: usize,
}

/// all state oracles.  `probes` = alphabet keys.
fn check_state(mem: &mut Mem, t: &Tree, m: &Model, probes: &[Vec<u8>], w: &mut Walk) -> StateReport {
    let mut viols: Vec<V> = Vec::new();
    // ---- C29 walker
    w.run(mem, t.root);
    let mut content_ok = true;
    for p in &w.probs {
        viols.push(V { prop: "C29", oracle: p.oracle, class: p.class.clone(), expected: p.class.split('>').next().unwrap_or("").to_string(), observed: p.detail.clone(), blocking: p.blocking });
        if p.blocking {
            content_ok = false;
        }
    }
    // ---- content (raw in-order entries) vs model
    if let Some((class, detail)) = w.content_diff(mem, m) {
        viols.push(V { prop: "C28", oracle: "content", class: format!("model>{class}"), expected: format!("{} entries equal to the model", m.map.len()), observed: detail, blocking: true });
        content_ok = false;
    }
    // ---- get(k) for every alphabet key (skipped when the raw content already differs: derived)
    for k in probes {
        if !content_ok && viols.iter().any(|v| v.oracle == "content") {
            break;
        }
        let want = m.map.get(k).copied();
        let root = t.root;
        let got = vcore::catch(|| -> Result<Option<Option<Val>>, String> {
            let bt = BTree::new(mem, root).map_err(|e| e.to_string())?;
            let r = bt.get(k).map_err(|e| e.to_string())?;
            Ok(r.map(val_of))
        });
        let obs = match &got {
            Ok(Ok(None)) => "none".to_string(),
            Ok(Ok(Some(v))) if want.is_some() && *v == want => "some".to_string(),
            Ok(Ok(Some(_))) if want.is_some() => "wrong-value".to_string(),
            Ok(Ok(Some(_))) => "some".to_string(),
            Ok(Err(e)) => format!("err({})", err_class(e)),
            Err(p) => format!("panic({})", err_class(p)),
        };
        let exp = if want.is_some() { "some" } else { "none" };
        if obs != exp {
            viols.push(V { prop: "C28", oracle: "get", class: format!("{exp}>{obs}"), expected: format!("get({}) = {:?}", hex(&k[..k.len().min(9)]), want), observed: format!("{:?}", got), blocking: true });
            content_ok = false;
            break;
        }
    }
    if !content_ok {
        // the cursor oracles would only restate the divergence
        return StateReport { viols, cond: w.condition(), content_ok, empties: w.empties, height: w.height, root_seps: w.root_seps, leaves: w.leaves.len() };
    }
    let big = m.map.len() > 128;
    let limit = 2 * m.map.len() + 16;
    // ---- forward scan
    if !scan_matches(mem, t.root, Start::First, &mut m.map.iter(), usize::MAX) {
        let exp: Vec<(Vec<u8>, Val)> = m.map.iter().map(|(k, v)| (k.clone(), *v)).collect();
        let (obs, err) = scan_collect(mem, t.root, Start::First, limit);
        viols.push(V { prop: "C28", oracle: "scan-fwd", class: format!("all>{}", classify(&obs, &err, &exp)), expected: show_exp(&exp), observed: format!("{} {}", show(&obs), err.unwrap_or_default()), blocking: false });
    }
    // ---- backward scan
    if !scan_matches(mem, t.root, Start::Last, &mut m.map.iter().rev(), usize::MAX) {
        let exp: Vec<(Vec<u8>, Val)> = m.map.iter().rev().map(|(k, v)| (k.clone(), *v)).collect();
        let (obs, err) = scan_collect(mem, t.root, Start::Last, limit);
        viols.push(V { prop: "C28", oracle: "scan-bwd", class: format!("all>{}", classify(&obs, &err, &exp)), expected: show_exp(&exp), observed: format!("{} {}", show(&obs), err.unwrap_or_default()), blocking: false });
    }
    // ---- seek + tail, get
    let tail = if big { 32 } else { usize::MAX };
    let mut seek_reported = false;
    for k in probes {
        if !seek_reported && !scan_matches(mem, t.root, Start::Seek(k), &mut m.map.range::<[u8], _>((std::ops::Bound::Included(&k[..]), std::ops::Bound::Unbounded)), tail) {
            let exp: Vec<(Vec<u8>, Val)> = m.map.range::<[u8], _>((std::ops::Bound::Included(&k[..]), std::ops::Bound::Unbounded)).take(tail.min(limit)).map(|(k, v)| (k.clone(), *v)).collect();
            let (obs, err) = scan_collect(mem, t.root, Start::Seek(k), tail.min(limit));
            // where does the expected first entry live relative to the leaf the probe routes to?
            let expc = match exp.first() {
                None => "none".to_string(),
                Some((ek, _)) => {
                    let r = w.route(mem, k);
                    let e = w.ents.iter().position(|e| w.ent_key(mem, e) == &ek[..]).and_then(|i| w.leaf_of_ent(i));
                    match (r, e) {
                        (Some(r), Some(e)) if e > r => "key-in-later-leaf".to_string(),
                        _ => "key".to_string(),
                    }
                }
            };
            let obsc = if err.is_none() && !obs.is_empty() && !exp.is_empty() && obs[0].0 == exp[0].0 && obs[0].1 == Some(exp[0].1) {
                format!("tail-{}", classify(&obs, &err, &exp))
            } else if err.is_none() && obs.is_empty() {
                "exhausted".to_string()
            } else if err.is_none() {
                "other-position".to_string()
            } else {
                classify(&obs, &err, &exp)
            };
            viols.push(V { prop: "C28", oracle: "seek", class: format!("{expc}>{obsc}"), expected: format!("seek({}) -> {}", hex(&k[..k.len().min(9)]), show_exp(&exp)), observed: format!("{} {}", show(&obs), err.unwrap_or_default()), blocking: false });
            seek_reported = true;
        }
    }
    StateReport { viols, cond: w.condition(), content_ok, empties: w.empties, height: w.height, root_seps: w.root_seps, leaves: w.leaves.len() }
}

// ---------------------------------------------------------------------------
// alphabets, seeds, tasks
fn fam(v: u32) -> Vec<u8> {
    let mut k = vec![0x16, 0, 0, 0];
    k.extend_from_slice(&v.to_be_bytes());
    k
}
fn fam_long(v: u32) -> Vec<u8> {
    let mut k = fam(v);
    k.resize(900, 0x42);
    k
}
/// the 8 alphabet keys (DESIGN C28): built around the 4-byte slot prefix logic
fn all_keys() -> Vec<Vec<u8>> {
    let mut k4 = vec![0x17u8];
    k4.resize(900, 0x41);
    let mut k5 = fam(513);
    k5.push(0);
    vec![
        fam(5),               // 0: family 16 00 00 00 | .., lands in the leftmost leaf of every seed
        fam(513),             // 1: family, middle of the seeds' key range
        vec![0x16, 0x00],     // 2: 2-byte key, zero-padded prefix equals the family prefix; smallest
        vec![0x16, 0, 0, 0],  // 3: exactly the 4 prefix bytes
        k4,                   // 4: 900-byte key, greater than every other key
        k5,                   // 5: key 1 plus one byte (differs only after byte 8)
        fam(0xFFFF_FFFF),     // 6: family, greater than all seed keys
        vec![0x15, 0xFF, 0xFF, 0xFF, 0xFF], // 7: other prefix, smaller than the family
    ]
}
struct Alpha {
    name: &'static str,
    keys: Vec<Vec<u8>>,
    sizes: Vec<u32>,
    ops: Vec<Op>,
}
fn alpha(name: &'static str) -> Alpha {
    let ak = all_keys();
    let (ki, sizes): (Vec<usize>, Vec<u32>) = match name {
        "k5s2" => (vec![2, 0, 1, 6, 4], vec![10, 8000]),
        "k8s3" => ((0..8).collect(), vec![10, 5000, 8000]),
        _ => vcore::machinery("c28: unknown alphabet"),
    };
    let mut keys: Vec<Vec<u8>> = ki.iter().map(|&i| ak[i].clone()).collect();
    keys.sort();
    let mut ops = Vec::new();
    for k in &keys {
        for kind in [Kind::Insert, Kind::Ine, Kind::Append, Kind::Update] {
            for &n in &sizes {
                ops.push(Op { kind, key: k.clone(), len: n, fill: if kind == Kind::Update { FILL_UPDATE } else { FILL_INSERT } });
            }
        }
        ops.push(Op { kind: Kind::Delete, key: k.clone(), len: 0, fill: 0 });
    }
    Alpha { name, keys, sizes, ops }
}

const SEEDS: [&str; 7] = ["empty", "seq800", "reverse", "shuffled", "deep3", "rootfull", "alpha"];

struct Seed {
    name: &'static str,
    mem: Mem,
    tree: Tree,
    model: Model,
}

/// build a seed through the real API (one long-lived BTree instance, as the bulk paths do)
fn build_seed(name: &'static str, plant: bool) -> Seed {
    let mut mem = Mem::new(2);
    let mut model = Model::new(plant);
    let mut plan: Vec<(Kind, Vec<u8>, Val)> = Vec::new();
    let v = |len: u32| Val { len, fill: 0xC1 };
    match name {
        "empty" => {}
        "seq800" => {
            for i in 0..800u32 {
                plan.push((Kind::Append, fam(2 * i), v(10)));
            }
        }
        "reverse" => {
            for i in (0..48u32).rev() {
                plan.push((Kind::Insert, fam(24 * i), v(1500)));
            }
        }
        "shuffled" => {
            for j in 0..64u32 {
                let i = (j * 37) % 64;
                let kind = if j % 2 == 0 { Kind::Insert } else { Kind::Ine };
                plan.push((kind, fam(16 * i + 8), v([10, 1500, 5000][(i % 3) as usize])));
            }
        }
        "deep3" => {
            for i in 0..44u32 {
                plan.push((Kind::Insert, fam_long(24 * i), v(5000)));
            }
        }
        "rootfull" => {
            // stops below when the interior root holds 16 of at most 17 900-byte separators
            for i in 0..60u32 {
                plan.push((Kind::Insert, fam_long(24 * i), v(5000)));
            }
        }
        "alpha" => {
            for (i, k) in alpha("k8s3").keys.iter().enumerate() {
                plan.push((Kind::Insert, k.clone(), Val { len: if i % 2 == 0 { 8000 } else { 5000 }, fill: FILL_INSERT }));
            }
        }
        _ => vcore::machinery("c28: unknown seed"),
    }
    let mut tree = Tree { root: 1, hint: None };
    {
        let bt = BTree::create(&mut mem, 1).unwrap_or_else(|e| vcore::machinery(&format!("seed create: {e}")));
        tree.root = bt.root_page();
    }
    let mut w = Walk::default();
    for (kind, k, val) in plan {
        let op = Op { kind, key: k, len: val.len, fill: val.fill };
        let r = apply(&mut mem, &mut tree, HintMode::Persist, &op);
        match r {
            Res::Unit | Res::Inserted => model.put(&op.key, val),
            other => vcore::machinery(&format!("seed {name}: building call failed: {:?}", other)),
        }
        if name == "rootfull" {
            w.run(&mem, tree.root);
            if w.height == 2 && w.root_seps >= 16 {
                break;
            }
        }
    }
    model.freeze();
    // the seed itself must be a sound state (content == model, structure valid)
    w.run(&mem, tree.root);
    if let Some(p) = w.probs.iter().find(|p| p.blocking) {
        vcore::machinery(&format!("seed {name} is structurally invalid: {:?}", p));
    }
    if let Some(d) = w.content_diff(&mem, &model) {
        vcore::machinery(&format!("seed {name} content differs from model: {:?}", d));
    }
    let want_h = match name {
        "empty" => 1,
        "deep3" => 3,
        _ => 2,
    };
    if w.height != want_h || (name == "rootfull" && w.root_seps != 16) {
        vcore::machinery(&format!("seed {name}: height {} root separators {} (unexpected shape)", w.height, w.root_seps));
    }
    mem.freeze_seed();
    Seed { name, mem, tree, model }
}

#[derive(Clone, Copy, Debug, PartialEq, Eq)]
enum Pass {
    A,
    B,
    C,
    D,
    E,
}
impl Pass {
    fn name(self) -> &'static str {
        match self {
            Pass::A => "A",
            Pass::B => "B",
            Pass::C => "C",
            Pass::D => "D",
            Pass::E => "E",
        }
    }
    fn parse(s: &str) -> Pass {
        match s {
            "A" => Pass::A,
            "B" => Pass::B,
            "C" => Pass::C,
            "D" => Pass::D,
            "E" => Pass::E,
            _ => vcore::machinery("c28: unknown pass"),
        }
    }
    fn hint_mode(self) -> HintMode {
        match self {
            Pass::B => HintMode::NoHint,
            Pass::E => HintMode::Stale,
            _ => HintMode::Persist,
        }
    }
}

#[derive(Clone, Debug)]
struct Task {
    seed: usize,
    pass: Pass,
    alpha: usize,
    depth: usize,
}

const ALPHAS: [&str; 2] = ["k5s2", "k8s3"];

/// (seed, pass, alphabet, depth) per tier; `--opt depth=+1` style overrides for experiments
fn tasks(ctx: &Ctx) -> Vec<Task> {
    let mut out = Vec::new();
    let bump: i64 = ctx.opt("bump").and_then(|s| s.parse().ok()).unwrap_or(0);
    let only_seed = ctx.opt("seed");
    let only_pass = ctx.opt("pass");
    let mut add = |seed: &str, pass: Pass, alpha: usize, depth: usize| {
        if only_seed.map(|s| s != seed).unwrap_or(false) || only_pass.map(|p| p != pass.name()).unwrap_or(false) {
            return;
        }
        let seed = SEEDS.iter().position(|s| *s == seed).unwrap();
        out.push(Task { seed, pass, alpha, depth: ((depth as i64 + bump).max(1) as usize).min(MAXD) });
    };
    let only_alpha = ctx.opt("alpha");
    if ctx.quick() {
        for s in SEEDS {
            let small = matches!(s, "empty" | "alpha");
            add(s, Pass::A, 0, if small { 5 } else { 4 });
            add(s, Pass::B, 0, 4);
            add(s, Pass::C, 0, if small { 5 } else { 4 });
            add(s, Pass::D, 0, if small { 5 } else { 4 });
            add(s, Pass::E, 0, 4);
        }
    } else {
        for s in SEEDS {
            let small = matches!(s, "empty" | "alpha");
            add(s, Pass::A, 1, if small { 5 } else { 4 });
            add(s, Pass::A, 0, if small { 7 } else { 6 });
            add(s, Pass::B, 0, 6);
            add(s, Pass::C, 0, if small { 7 } else { 6 });
            add(s, Pass::D, 0, if small { 7 } else { 6 });
            add(s, Pass::E, 0, 5);
        }
    }
    if let Some(a) = only_alpha {
        out.retain(|t| ALPHAS[t.alpha] == a);
    }
    out
}

const MAXD: usize = 8;

// ---------------------------------------------------------------------------
// one transition / one state, shared by exploration and replay
const EL: u8 = 1; // the history passed through a state with an emptied (non-root) leaf

fn pattern(lab: &str, res: Option<&Res>, flags: u8) -> String {
    let mut s = lab.to_string();
    match res {
        Some(Res::Err(e)) => {
            s.push('!');
            s.push_str(&err_class(e));
        }
        Some(Res::Panic(e)) => {
            s.push_str("!panic-");
            s.push_str(&err_class(e));
        }
        _ => {}
    }
    if flags & EL != 0 {
        s.push_str("+el");
    }
    s
}

fn head_bytes(task: u16, t: &Tree, hm: HintMode, model_h: u128) -> Vec<u8> {
    let mut b = Vec::with_capacity(32);
    b.extend_from_slice(&task.to_le_bytes());
    b.extend_from_slice(&t.root.to_le_bytes());
    let hint = if hm == HintMode::Persist { t.hint.map(|h| h as u64).unwrap_or(u64::MAX) } else { u64::MAX - 1 };
    b.extend_from_slice(&hint.to_le_bytes());
    b.extend_from_slice(&model_h.to_le_bytes());
    b
}

struct Outcome {
    lab: &'static str,
    res: Res,
    /// violations found at the transition itself, with their op pattern
    viols: Vec<(V, String, &'static str)>,
    /// do not extend this history
    prune: bool,
    h: u128,
    new_leaf: u64,
    new_interior: u64,
    new_root: bool,
    leaked: u64,
}

/// apply `op` (model is advanced only as far as the map semantics say); the caller undoes
#[allow(clippy::too_many_arguments)]
fn do_transition(mem: &mut Mem, tree: &mut Tree, model: &mut Model, hm: HintMode, op: &Op, flags: u8, task: u16, parent_h: u128, probes: &[Vec<u8>], w: &mut Walk) -> Outcome {
    let lab = label(op, model);
    let pc0 = mem.pages.len();
    let root0 = tree.root;
    let res = apply(mem, tree, hm, op);
    let mut viols = Vec::new();
    let mut prune = false;
    let pat = pattern(lab, Some(&res), flags);
    match judge(op, &res, model) {
        Ok(Change::Put) => model.put(&op.key, op.val()),
        Ok(Change::Del) => model.del(&op.key),
        Ok(Change::Nothing) => {}
        Err((exp, obs)) => {
            viols.push((V { prop: "C28", oracle: "ret", class: format!("{exp}>{obs}"), expected: format!("{}({}) returns {exp}", op.kind.name(), hex(&op.key[..op.key.len().min(9)])), observed: format!("{:?}", res), blocking: true }, pat.clone(), ""));
            prune = true;
        }
    }
    let h = mem.state_hash(&head_bytes(task, tree, hm, model.h));
    if (res.failed() || prune) && h != parent_h {
        // a failing call (or a wrong return value): the map must be exactly what the model says
        let sr = check_state(mem, tree, model, probes, w);
        for mut v in sr.viols {
            if res.failed() && v.oracle == "content" {
                v.oracle = "err-unchanged";
                v.class = v.class.replace("model>", "unchanged>");
            }
            viols.push((v, pat.clone(), sr.cond));
        }
        if !sr.content_ok {
            prune = true;
        }
        if viols.iter().any(|(v, _, _)| v.oracle == "err-unchanged") {
            // the lost/added key is the defect; the Err return value is its symptom
            viols.retain(|(v, _, _)| v.oracle != "ret");
        }
    }
    let mut o = Outcome { lab, res, viols, prune, h, new_leaf: 0, new_interior: 0, new_root: tree.root != root0, leaked: 0 };
    for p in pc0..mem.pages.len() {
        match mem.pages[p][0] {
            0x02 => o.new_leaf += 1,
            0x01 if p as u32 != tree.root => o.new_interior += 1,
            0x01 => {}
            _ => o.leaked += 1,
        }
    }
    o
}

fn report(rep: &mut Reporter, v: &V, pat: &str, cond: &str, case: &dyn Fn() -> Value) {
    let sig = format!("{}/{}/{}/{}", v.prop, v.oracle, if v.persistent() { cond } else { pat }, v.class);
    rep.violation(v.prop, v.oracle, &sig, || case(), &v.expected, &v.observed);
}

// ---------------------------------------------------------------------------
// frontier records and the file exchange between workers
#[derive(Clone, Copy, PartialEq, Eq, Debug)]
struct Rec {
    h: u128,
    task: u16,
    flags: u8,
    len: u8,
    ops: [u16; MAXD],
}
const REC_BYTES: usize = 16 + 2 + 1 + 1 + 2 * MAXD;
impl Rec {
    fn write(&self, b: &mut Vec<u8>) {
        b.extend_from_slice(&self.h.to_le_bytes());
        b.extend_from_slice(&self.task.to_le_bytes());
        b.push(self.flags);
        b.push(self.len);
        for o in self.ops {
            b.extend_from_slice(&o.to_le_bytes());
        }
    }
    fn read(b: &[u8]) -> Rec {
        let mut ops = [0u16; MAXD];
        for (i, o) in ops.iter_mut().enumerate() {
            *o = u16::from_le_bytes([b[20 + 2 * i], b[21 + 2 * i]]);
        }
        Rec { h: u128::from_le_bytes(b[..16].try_into().unwrap()), task: u16::from_le_bytes([b[16], b[17]]), flags: b[18], len: b[19], ops }
    }
    fn sort_key(&self) -> (u16, [u16; MAXD], u8) {
        (self.task, self.ops, self.flags)
    }
}

struct Xchg {
    dir: PathBuf,
    me: usize,
    n: usize,
    rot: u64,
}
impl Xchg {
    fn owner(&self, h: u128) -> usize {
        ((((h >> 64) as u64).wrapping_add(self.rot)) % self.n as u64) as usize
    }
    /// ship `out[j]` to worker j, collect what the others shipped to me.  Returns (records, any worker capped)
    fn exchange(&self, level: usize, out: Vec<Vec<u8>>, capped: bool, deadline: Instant) -> Result<(Vec<Vec<u8>>, bool), String> {
        let mut incoming = Vec::new();
        let mut any = capped;
        for (j, buf) in out.into_iter().enumerate() {
            if j == self.me {
                incoming.push(buf);
                continue;
            }
            let tmp = self.dir.join(format!("tmp_L{level}_f{}_t{j}", self.me));
            let fin = self.dir.join(format!("L{level}_f{}_t{j}", self.me));
            let mut data = Vec::with_capacity(buf.len() + 1);
            data.push(capped as u8);
            data.extend_from_slice(&buf);
            std::fs::write(&tmp, &data).map_err(|e| format!("exchange write: {e}"))?;
            std::fs::rename(&tmp, &fin).map_err(|e| format!("exchange rename: {e}"))?;
        }
        let limit = deadline + Duration::from_secs(45);
        for k in 0..self.n {
            if k == self.me {
                continue;
            }
            let f = self.dir.join(format!("L{level}_f{k}_t{}", self.me));
            loop {
                match std::fs::read(&f) {
                    Ok(data) if !data.is_empty() => {
                        any |= data[0] != 0;
                        incoming.push(data[1..].to_vec());
                        let _ = std::fs::remove_file(&f);
                        break;
                    }
                    _ => {
                        if Instant::now() > limit {
                            return Err(format!("worker {k} did not deliver level {level}"));
                        }
                        std::thread::sleep(Duration::from_micros(400));
                    }
                }
            }
        }
        Ok((incoming, any))
    }
}

// ---------------------------------------------------------------------------
struct Env {
    seeds: Vec<Seed>,
    alphas: Vec<Alpha>,
    tasks: Vec<Task>,
    walk: Walk,
}

fn enabled(op: &Op, m: &Model, pass: Pass) -> bool {
    match op.kind {
        // API contract (doc comment of insert_append): the key must be greater than every stored key
        Kind::Append => m.max_key().map(|mx| &op.key > mx).unwrap_or(true),
        Kind::Update if pass == Pass::D => label(op, m) != "update-grow",
        _ => true,
    }
}

struct C28;

/// development aid (`--opt timing=<file>`): per-level timing lines, never part of a verdict
fn tlog(ctx: &Ctx, line: &str) {
    use std::io::Write;
    if let Some(p) = ctx.opt("timing") {
        if let Ok(mut f) = std::fs::OpenOptions::new().create(true).append(true).open(p) {
            let _ = writeln!(f, "{line}");
        }
    }
}

impl C28 {
    fn explore(&self, ctx: &Ctx, rep: &mut Reporter) {
        let plant = ctx.opt("plant").is_some();
        let mut env = Env {
            seeds: SEEDS.iter().map(|s| build_seed(s, plant)).collect(),
            alphas: ALPHAS.iter().map(|a| alpha(a)).collect(),
            tasks: tasks(ctx),
            walk: Walk::default(),
        };
        if env.tasks.is_empty() {
            vcore::machinery("c28: no task selected");
        }
        let maxd = env.tasks.iter().map(|t| t.depth).max().unwrap();
        // ---- bounds / static evidence
        rep.bound("alphabets", json!(env.alphas.iter().map(|a| json!({"name": a.name, "keys": a.keys.iter().map(|k| if k.len() > 12 { format!("{}..({}B)", hex(&k[..6]), k.len()) } else { hex(k) }).collect::<Vec<_>>(), "value_sizes": a.sizes, "ops": a.ops.len()})).collect::<Vec<_>>()));
        rep.bound("tasks", json!(env.tasks.iter().map(|t| format!("{}/{}/{}/depth{}", env.seeds[t.seed].name, t.pass.name(), env.alphas[t.alpha].name, t.depth)).collect::<Vec<_>>()));
        rep.bound("passes", json!({"A": "all operations, rightmost hint persisted after every call", "B": "BTree::new for every call (no hint)", "C": "as A, states containing an emptied non-root leaf are cut", "D": "as A without growing updates", "E": "with_rightmost_hint(hint recorded when the seed was built), never refreshed (stale but honest hint)"}));
        rep.note("states = globally distinct (physical state, model) pairs per task: every state is owned by exactly one worker (hash mod workers) and successors are exchanged between workers after each BFS level; state oracles run once per distinct state, return-value/Err oracles on every transition");
        rep.note("observation-only failures (cursor enumeration differs while raw tree content, structure and get() equal the model) do not stop a history; content/structure divergences do");
        for c in ["split.leaf", "split.interior", "root.change", "leaf.emptied.states", "height.2", "height.3", "op.update-grow", "op.append", "states.with-hint"] {
            rep.expect_nonzero(c);
        }
        let xdir = ctx.scratch.parent().map(|p| p.join("xchg")).unwrap_or_else(|| ctx.scratch.join("xchg"));
        std::fs::create_dir_all(&xdir).ok();
        let x = Xchg { dir: xdir, me: ctx.worker, n: ctx.workers.max(1), rot: ctx.seed };
        let mut visited: HSet = HSet::default();
        let mut sent: HSet = HSet::default();
        let mut frontier: Vec<Rec> = Vec::new();
        for (ti, t) in env.tasks.iter().enumerate() {
            let s = &mut env.seeds[t.seed];
            s.mem.restore_seed();
            let h = s.mem.state_hash(&head_bytes(ti as u16, &s.tree, t.pass.hint_mode(), s.model.h));
            if x.owner(h) == x.me {
                visited.insert(h);
                frontier.push(Rec { h, task: ti as u16, flags: 0, len: 0, ops: [0; MAXD] });
            }
        }
        let mut capped = false;
        let timing = ctx.opt("timing").is_some();
        // development aid: `--opt dl=<seconds>` exercises the deadline path
        let dev_deadline = ctx.opt("dl").and_then(|s| s.parse::<f64>().ok()).map(|s| Instant::now() + Duration::from_secs_f64(s));
        for level in 0..=maxd {
            let mut out: Vec<Vec<u8>> = vec![Vec::new(); x.n];
            let mut done = 0usize;
            let t_lvl = Instant::now();
            for rec in &frontier {
                if ctx.expired() || dev_deadline.map(|d| Instant::now() >= d).unwrap_or(false) {
                    capped = true;
                    break;
                }
                self.process(&mut env, rep, rec, &x, &mut out, &mut sent);
                done += 1;
            }
            rep.count(&format!("level{level}.states"), done as u64);
            if capped {
                rep.capped(&format!("deadline while expanding BFS level {level} ({done} of {} owned states done); all lower levels are complete", frontier.len()));
            }
            let t_proc = t_lvl.elapsed();
            if level == maxd {
                if timing {
                    tlog(ctx, &format!("w{} level {level}: {} states, process {:?}", x.me, frontier.len(), t_proc));
                }
                break;
            }
            let (incoming, any) = match x.exchange(level + 1, out, capped, ctx.deadline) {
                Ok(r) => r,
                Err(e) => {
                    rep.capped(&format!("level exchange failed: {e}"));
                    return;
                }
            };
            if any {
                if !capped {
                    rep.capped(&format!("another worker hit the deadline at BFS level {level}"));
                }
                return;
            }
            if timing {
                tlog(ctx, &format!("w{} level {level}: {} states, process {:?}, +exchange {:?}, in {} KB", x.me, frontier.len(), t_proc, t_lvl.elapsed(), incoming.iter().map(|b| b.len()).sum::<usize>() / 1024));
            }
            // next frontier: unseen states, canonical (smallest) op list per state
            let mut cand: HMap<Rec> = HMap::default();
            for buf in &incoming {
                for c in buf.chunks_exact(REC_BYTES) {
                    let r = Rec::read(c);
                    if visited.contains(&r.h) {
                        continue;
                    }
                    match cand.get_mut(&r.h) {
                        Some(old) => {
                            if r.sort_key() < old.sort_key() {
                                *old = r;
                            }
                        }
                        None => {
                            cand.insert(r.h, r);
                        }
                    }
                }
            }
            frontier = cand.into_values().collect();
            frontier.sort_by_key(|r| r.sort_key());
            for r in &frontier {
                visited.insert(r.h);
            }
        }
        let (hits, _) = turdb::btree::get_fastpath_stats();
        rep.count("append.fastpath-hits", hits);
    }

    /// rebuild one owned state, run the state oracles, expand it
    fn process(&self, env: &mut Env, rep: &mut Reporter, rec: &Rec, x: &Xchg, out: &mut [Vec<u8>], sent: &mut HSet) {
        let Env { seeds, alphas, tasks, walk } = env;
        let task = &tasks[rec.task as usize];
        let a = &alphas[task.alpha];
        let seed = &mut seeds[task.seed];
        let hm = task.pass.hint_mode();
        let ops = &rec.ops[..rec.len as usize];
        let env_case = |extra: Option<u16>| {
            let mut l: Vec<Value> = ops.iter().map(|&o| a.ops[o as usize].to_json()).collect();
            if let Some(o) = extra {
                l.push(a.ops[o as usize].to_json());
            }
            json!({"seed": seed_name(task.seed), "pass": task.pass.name(), "alpha": a.name, "ops": l})
        };
        rep.begin_case(&format!("{{\"task\":{},\"ops\":{:?}}}", rec.task, ops));
        // ---- rebuild
        seed.mem.restore_seed();
        seed.model.undo_to(0);
        let mut tree = seed.tree;
        let mut last: (&'static str, Option<Res>) = ("seed", None);
        for &o in ops {
            let op = &a.ops[o as usize];
            let lab = label(op, &seed.model);
            let res = apply(&mut seed.mem, &mut tree, hm, op);
            match judge(op, &res, &seed.model) {
                Ok(Change::Put) => seed.model.put(&op.key, op.val()),
                Ok(Change::Del) => seed.model.del(&op.key),
                Ok(Change::Nothing) => {}
                Err(_) => vcore::machinery("c28: replay of a frontier op list diverged (nondeterministic subject?)"),
            }
            last = (lab, if res.failed() { Some(res) } else { None });
        }
        // ---- state oracles
        let sr = check_state(&mut seed.mem, &tree, &seed.model, &a.keys, walk);
        if task.pass == Pass::C && sr.empties > 0 {
            rep.pruned(1);
            rep.count("passC.cut-emptied-leaf-states", 1);
            return;
        }
        let mut flags = rec.flags;
        if sr.empties > 0 {
            flags |= EL;
            rep.count("leaf.emptied.states", 1);
        }
        rep.add_states(1);
        rep.bulk(1, 1);
        rep.count(&format!("height.{}", sr.height), 1);
        if sr.leaves >= 3 {
            rep.count("states.with>=3-leaves", 1);
        }
        if hm == HintMode::Persist && tree.hint.is_some() {
            rep.count("states.with-hint", 1);
        }
        rep.count(&format!("task.{}.{}.{}.states", seed.name, task.pass.name(), a.name), 1);
        let pat = pattern(last.0, last.1.as_ref(), flags);
        for v in &sr.viols {
            report(rep, v, &pat, sr.cond, &|| env_case(None));
        }
        if !sr.viols.is_empty() {
            rep.count("states.with-violation", 1);
        } else {
            rep.sample(|| env_case(None));
        }
        if !sr.content_ok {
            rep.pruned(1);
            return;
        }
        if ops.len() >= task.depth {
            return;
        }
        // ---- expand
        seed.mem.mark_parent();
        let mark = seed.model.mark();
        for (oi, op) in a.ops.iter().enumerate() {
            if !enabled(op, &seed.model, task.pass) {
                continue;
            }
            let mut t2 = tree;
            let o = do_transition(&mut seed.mem, &mut t2, &mut seed.model, hm, op, flags, rec.task, rec.h, &a.keys, walk);
            rep.add_transitions(1);
            rep.add_traces_validated(1);
            rep.count(&format!("op.{}", o.lab), 1);
            rep.outcome(&format!("{}:{}", o.lab, o.res.class()));
            if o.res.failed() {
                rep.count(&format!("err.{}.{}", o.lab, o.res.class()), 1);
            }
            if matches!(o.res, Res::Bool(false)) && o.lab.starts_with("update-") && o.lab != "update-absent" {
                rep.count("update.false-no-room(tolerated)", 1);
            }
            rep.count("split.leaf", o.new_leaf);
            rep.count("split.interior", o.new_interior);
            rep.count("root.change", o.new_root as u64);
            rep.count("page.leaked-by-failed-split", o.leaked);
            for (v, p, c) in &o.viols {
                report(rep, v, p, c, &|| env_case(Some(oi as u16)));
            }
            if o.prune {
                rep.pruned(1);
            } else if o.h != rec.h && !sent.contains(&o.h) {
                sent.insert(o.h);
                let mut r = Rec { h: o.h, task: rec.task, flags, len: rec.len + 1, ops: rec.ops };
                r.ops[rec.len as usize] = oi as u16;
                r.write(&mut out[x.owner(o.h)]);
            }
            seed.model.undo_to(mark);
            seed.mem.restore_parent();
        }
    }
}

fn seed_name(i: usize) -> &'static str {
    SEEDS[i]
}

impl Check for C28 {
    fn specs(&self) -> Vec<Spec> {
        const RULE: &str = "explicit-state breadth-first search of the real turdb::btree::BTree on an in-memory Storage: from each seed tree (empty; 800 sequential small keys; reverse and shuffled bulk loads; 3-level tree of 900-byte keys; interior root one separator short of full; tree preloaded with the alphabet keys) every sequence of calls up to the task depth over the alphabet {insert, insert_if_not_exists, insert_append (only when key > max, as its contract requires), update, delete} x alphabet keys x value sizes is executed, in five passes (A hint persisted, B no hint, C no emptied leaves, D no growing updates, E stale hint). A case is one distinct state = (bytes of every page outside the free gap, page count, root page, persisted hint, model map), deduplicated globally by a 128-bit hash; every state is rebuilt from its seed by replaying real calls and is non-trivial (it was reached by a real call sequence and is checked by all oracles: return value, Err-leaves-map-unchanged, forward/backward cursor scans, cursor_seek + tail and get for every alphabet key, raw-byte structural walker).";
        const ASSUME: &[&str] = &[
            "bytes inside the free gap [free_start, free_end) of a page are never read by the B-tree (they are excluded from the state hash); everything else is hashed exactly",
            "a rightmost hint handed to with_rightmost_hint is always a value previously returned by rightmost_hint() of the same tree (fresh in passes A/C/D, never refreshed in pass E); arbitrary page numbers are API misuse and not explored",
            "insert_append is only called with a key greater than every stored key (documented caller obligation)",
            "keys <= 900 bytes and values <= 8000 bytes (one cell always fits an empty page); Freelist integration (with_freelist) is not explored",
            "update returning Ok(false) for an existing key is tolerated when nothing changed (documented no-room outcome)",
        ];
        let mut a = Spec::new("C28", "model_checking", RULE);
        a.assumptions = ASSUME;
        a.cap_quick_s = 100;
        a.cap_thorough_s = 1500;
        let mut b = Spec::new("C29", "model_checking", RULE);
        b.assumptions = ASSUME;
        b.cap_quick_s = 100;
        b.cap_thorough_s = 1500;
        vec![a, b]
    }

    fn run(&self, ctx: &Ctx, rep: &mut Reporter) {
        self.explore(ctx, rep);
    }

    fn replay(&self, ctx: &Ctx, case: &Value, rep: &mut Reporter) {
        let plant = ctx.opt("plant").is_some();
        let sname = case["seed"].as_str().unwrap_or("");
        let sname = *SEEDS.iter().find(|s| **s == sname).unwrap_or_else(|| vcore::machinery("c28 replay: unknown seed"));
        let mut seed = build_seed(sname, plant);
        let pass = Pass::parse(case["pass"].as_str().unwrap_or("A"));
        let aname = case["alpha"].as_str().unwrap_or("k5s2");
        let a = alpha(ALPHAS.iter().find(|x| **x == aname).copied().unwrap_or_else(|| vcore::machinery("c28 replay: unknown alphabet")));
        let ops: Vec<Op> = case["ops"].as_array().map(|l| l.iter().map(|v| Op::from_json(v).unwrap_or_else(|| vcore::machinery("c28 replay: bad op"))).collect()).unwrap_or_default();
        let hm = pass.hint_mode();
        let mut walk = Walk::default();
        let mut tree = seed.tree;
        let mut flags = 0u8;
        let mut last: (&'static str, Option<Res>) = ("seed", None);
        let c = case.clone();
        let mut h = seed.mem.state_hash(&head_bytes(0, &tree, hm, seed.model.h));
        for step in 0..=ops.len() {
            // state oracles on the state reached so far
            let sr = check_state(&mut seed.mem, &tree, &seed.model, &a.keys, &mut walk);
            if sr.empties > 0 {
                flags |= EL;
            }
            rep.add_states(1);
            rep.bulk(1, 1);
            let pat = pattern(last.0, last.1.as_ref(), flags);
            for v in &sr.viols {
                report(rep, v, &pat, sr.cond, &|| c.clone());
            }
            if !sr.content_ok || step == ops.len() {
                break;
            }
            let op = &ops[step];
            if !enabled(op, &seed.model, pass) {
                rep.note("replay: an operation of the case is not enabled (API contract) in the state reached; stopped");
                break;
            }
            let o = do_transition(&mut seed.mem, &mut tree, &mut seed.model, hm, op, flags, 0, h, &a.keys, &mut walk);
            rep.add_transitions(1);
            rep.add_traces_validated(1);
            rep.outcome(&format!("{}:{}", o.lab, o.res.class()));
            for (v, p, cd) in &o.viols {
                report(rep, v, p, cd, &|| c.clone());
            }
            if o.prune {
                break;
            }
            h = o.h;
            last = (o.lab, if o.res.failed() { Some(o.res) } else { None });
        }
    }
}

fn main() {
    vcore::main(&C28)
}
