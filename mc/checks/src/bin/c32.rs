//! C32 — JSON documents round-trip through JSONB (bounded-exhaustive input enumeration).
//!
//! The generator emits every document as a tree AND its text together; the
//! oracle side never trusts a TurDB parser.  An independent recursive-descent
//! parser (`my_parse`) is used only for `to_json_string` output and for replay,
//! and is itself cross-checked against the generator on every document.
use checks::sqlh::TestDb;
use std::collections::BTreeMap;
use turdb::parsing::{parse_json, JsonValue};
use turdb::records::jsonb::{JsonbBuilder, JsonbBuilderValue, JsonbValue, JsonbView};
use turdb::OwnedValue;
use vcore::{json, Check, Ctx, Reporter, Spec, Value};

// ---------------------------------------------------------------- tree model
#[derive(Clone, Debug)]
enum T {
    Null,
    Bool(bool),
    /// value, source text
    Num(f64, String),
    /// value, source text (with quotes)
    Str(String, String),
    Arr(Vec<T>),
    Obj(Vec<(T, T)>), // key is always T::Str (carries its source text)
}

fn key_of(k: &T) -> &str {
    match k {
        T::Str(s, _) => s,
        _ => "",
    }
}

/// which duplicate of a key is "the" value
#[derive(Clone, Copy, PartialEq, Debug)]
enum Policy {
    First,
    Last,
}
impl Policy {
    fn name(self) -> &'static str {
        match self {
            Policy::First => "first",
            Policy::Last => "last",
        }
    }
}

/// object entries as a map under the duplicate policy
fn obj_map(entries: &[(T, T)], p: Policy) -> BTreeMap<&str, &T> {
    let mut m = BTreeMap::new();
    for (k, v) in entries {
        match p {
            Policy::Last => {
                m.insert(key_of(k), v);
            }
            Policy::First => {
                m.entry(key_of(k)).or_insert(v);
            }
        }
    }
    m
}

/// JSON value equality: numbers by value, objects as maps under the policy.
fn teq(a: &T, b: &T, p: Policy) -> bool {
    match (a, b) {
        (T::Null, T::Null) => true,
        (T::Bool(x), T::Bool(y)) => x == y,
        (T::Num(x, _), T::Num(y, _)) => x == y,
        (T::Str(x, _), T::Str(y, _)) => x == y,
        (T::Arr(x), T::Arr(y)) => x.len() == y.len() && x.iter().zip(y).all(|(a, b)| teq(a, b, p)),
        (T::Obj(x), T::Obj(y)) => {
            let (mx, my) = (obj_map(x, p), obj_map(y, p));
            mx.len() == my.len() && mx.iter().zip(my.iter()).all(|((ka, va), (kb, vb))| ka == kb && teq(va, vb, p))
        }
        _ => false,
    }
}

fn str_label(s: &str, src: &str) -> String {
    let n = s.len();
    if n >= 200 {
        return format!("str:{}", len_bucket(n));
    }
    let l = match (s, src) {
        ("", _) => "empty",
        ("a", _) => "a",
        ("b", _) => "b",
        ("é", "\"é\"") => "e-acute-raw",
        ("é", _) => "e-acute-u-escape",
        ("\"\\\n", _) => "quote-backslash-newline",
        ("A", _) => "u0041-escape",
        ("/", _) => "slash-escape",
        ("\u{8}\u{c}\r\t", _) => "b-f-r-t-escapes",
        ("\u{1}", _) => "u0001-escape",
        ("😀", "\"😀\"") => "astral-raw",
        ("😀", _) => "astral-surrogate-escape",
        ("\",:{}[]", _) => "structural-chars",
        ("a b", _) => "with-space",
        _ => "other",
    };
    format!("str:{l}")
}

/// short literals are their own class; long ones (>= 15 digits) are classed by sign, lexical
/// form, digit count and magnitude range, so that one defect does not get one signature per literal
fn num_label(v: f64, src: &str) -> String {
    let nd = src.bytes().filter(|b| b.is_ascii_digit()).count();
    if nd < 15 {
        return format!("num:{src}");
    }
    let form = if src.contains(['e', 'E']) {
        "exp"
    } else if src.contains('.') {
        "frac"
    } else {
        "int"
    };
    let m = v.abs();
    let range = if m < 9007199254740992.0 {
        "below2^53"
    } else if m < 9223372036854775808.0 {
        "2^53..2^63"
    } else if m < 18446744073709551616.0 {
        "2^63..2^64"
    } else {
        "from2^64"
    };
    format!("num:{}{form}-{nd}digits-{range}", if src.starts_with('-') { "neg-" } else { "" })
}

fn len_bucket(n: usize) -> &'static str {
    if n <= 255 {
        "len<=255"
    } else if n <= 65535 {
        "len256..65535"
    } else {
        "len>=65536"
    }
}
/// class of a node for signatures (count-free for containers except child count)
fn class(t: &T) -> String {
    match t {
        T::Null => "null".into(),
        T::Bool(true) => "true".into(),
        T::Bool(false) => "false".into(),
        T::Num(v, src) => num_label(*v, src),
        T::Str(s, src) => str_label(s, src),
        T::Arr(v) => format!("arr{}", v.len().min(9)),
        T::Obj(v) => format!("obj({})", key_pattern(v)),
    }
}
fn key_pattern(v: &[(T, T)]) -> String {
    if v.len() > 6 {
        return format!("{}keys", v.len());
    }
    v.iter().map(|(k, _)| if key_of(k).len() > 8 { len_bucket(key_of(k).len()).to_string() } else { key_of(k).to_string() }).collect::<Vec<_>>().join(",")
}
fn kind(t: &T) -> &'static str {
    match t {
        T::Null => "null",
        T::Bool(_) => "bool",
        T::Num(..) => "num",
        T::Str(..) => "str",
        T::Arr(_) => "arr",
        T::Obj(_) => "obj",
    }
}

/// first differing site (pre-order): (expected class @ position, observed kind/detail)
fn first_diff(exp: &T, got: &T, p: Policy, pos: &str) -> Option<(String, String)> {
    if teq(exp, got, p) {
        return None;
    }
    match (exp, got) {
        (T::Arr(x), T::Arr(y)) if x.len() == y.len() => {
            for (a, b) in x.iter().zip(y) {
                if let Some(d) = first_diff(a, b, p, "elem") {
                    return Some(d);
                }
            }
            None
        }
        (T::Obj(x), T::Obj(y)) => {
            let (mx, my) = (obj_map(x, p), obj_map(y, p));
            if mx.keys().collect::<Vec<_>>() != my.keys().collect::<Vec<_>>() {
                return Some((format!("{}@{pos}", class(exp)), "obj-keys-differ".to_string()));
            }
            for (k, a) in &mx {
                if let Some(d) = first_diff(a, my[k], p, "value") {
                    return Some(d);
                }
            }
            None
        }
        _ => {
            let obs = if kind(exp) == kind(got) { format!("{}-differs", kind(got)) } else { kind(got).to_string() };
            Some((format!("{}@{pos}", class(exp)), obs))
        }
    }
}

// ---------------------------------------------------------------- rendering
fn render(t: &T, spaced: bool, out: &mut String) {
    match t {
        T::Null => out.push_str("null"),
        T::Bool(true) => out.push_str("true"),
        T::Bool(false) => out.push_str("false"),
        T::Num(v, s) if s.is_empty() => out.push_str(&format!("{v:?}")),
        T::Str(v, s) if s.is_empty() => {
            out.push('"');
            for c in v.chars() {
                match c {
                    '"' => out.push_str("\\\""),
                    '\\' => out.push_str("\\\\"),
                    c if (c as u32) < 0x20 => out.push_str(&format!("\\u{:04x}", c as u32)),
                    c => out.push(c),
                }
            }
            out.push('"');
        }
        T::Num(_, s) | T::Str(_, s) => out.push_str(s),
        T::Arr(v) => {
            out.push('[');
            for (i, x) in v.iter().enumerate() {
                if i > 0 {
                    out.push_str(if spaced { " ,\n\t" } else { "," });
                }
                if spaced {
                    out.push(' ');
                }
                render(x, spaced, out);
            }
            out.push_str(if spaced { "\r\n]" } else { "]" });
        }
        T::Obj(v) => {
            out.push('{');
            for (i, (k, x)) in v.iter().enumerate() {
                if i > 0 {
                    out.push_str(if spaced { "\t, " } else { "," });
                }
                if spaced {
                    out.push('\n');
                }
                render(k, spaced, out);
                out.push_str(if spaced { " :  " } else { ":" });
                render(x, spaced, out);
            }
            out.push_str(if spaced { " }" } else { "}" });
        }
    }
}
fn text_of(t: &T, spaced: bool) -> String {
    let mut s = String::new();
    if spaced {
        s.push_str(" \n");
    }
    render(t, spaced, &mut s);
    if spaced {
        s.push_str("\t ");
    }
    s
}

// ---------------------------------------------------------------- independent parser
struct P<'a> {
    b: &'a [u8],
    i: usize,
}
impl<'a> P<'a> {
    fn ws(&mut self) {
        while self.i < self.b.len() && matches!(self.b[self.i], b' ' | b'\t' | b'\n' | b'\r') {
            self.i += 1;
        }
    }
    fn lit(&mut self, s: &str) -> bool {
        if self.b[self.i..].starts_with(s.as_bytes()) {
            self.i += s.len();
            true
        } else {
            false
        }
    }
    fn hex4(&mut self) -> Result<u32, String> {
        if self.i + 4 > self.b.len() {
            return Err("short \\u".into());
        }
        let s = std::str::from_utf8(&self.b[self.i..self.i + 4]).map_err(|e| e.to_string())?;
        self.i += 4;
        u32::from_str_radix(s, 16).map_err(|e| e.to_string())
    }
    fn string(&mut self) -> Result<T, String> {
        let start = self.i;
        self.i += 1; // opening quote
        let mut out: Vec<u8> = Vec::new();
        loop {
            let c = *self.b.get(self.i).ok_or("unterminated string")?;
            self.i += 1;
            match c {
                b'"' => break,
                b'\\' => {
                    let e = *self.b.get(self.i).ok_or("dangling backslash")?;
                    self.i += 1;
                    let ch = match e {
                        b'"' => '"',
                        b'\\' => '\\',
                        b'/' => '/',
                        b'b' => '\u{8}',
                        b'f' => '\u{c}',
                        b'n' => '\n',
                        b'r' => '\r',
                        b't' => '\t',
                        b'u' => {
                            let hi = self.hex4()?;
                            if (0xD800..0xDC00).contains(&hi) {
                                if !self.lit("\\u") {
                                    return Err("lone high surrogate".into());
                                }
                                let lo = self.hex4()?;
                                if !(0xDC00..0xE000).contains(&lo) {
                                    return Err("bad low surrogate".into());
                                }
                                char::from_u32(0x10000 + ((hi - 0xD800) << 10) + (lo - 0xDC00)).ok_or("bad pair")?
                            } else {
                                char::from_u32(hi).ok_or("lone low surrogate")?
                            }
                        }
                        _ => return Err(format!("bad escape \\{}", e as char)),
                    };
                    let mut buf = [0u8; 4];
                    out.extend_from_slice(ch.encode_utf8(&mut buf).as_bytes());
                }
                c if c < 0x20 => return Err("raw control character in string".into()),
                c => out.push(c),
            }
        }
        let v = String::from_utf8(out).map_err(|e| e.to_string())?;
        let src = std::str::from_utf8(&self.b[start..self.i]).map_err(|e| e.to_string())?.to_string();
        Ok(T::Str(v, src))
    }
    fn number(&mut self) -> Result<T, String> {
        let start = self.i;
        if self.b.get(self.i) == Some(&b'-') {
            self.i += 1;
        }
        let digits = |p: &mut Self| {
            let s = p.i;
            while p.i < p.b.len() && p.b[p.i].is_ascii_digit() {
                p.i += 1;
            }
            p.i - s
        };
        if digits(self) == 0 {
            return Err("number without digits".into());
        }
        if self.b.get(self.i) == Some(&b'.') {
            self.i += 1;
            if digits(self) == 0 {
                return Err("no digits after '.'".into());
            }
        }
        if matches!(self.b.get(self.i), Some(b'e') | Some(b'E')) {
            self.i += 1;
            if matches!(self.b.get(self.i), Some(b'+') | Some(b'-')) {
                self.i += 1;
            }
            if digits(self) == 0 {
                return Err("no digits in exponent".into());
            }
        }
        let src = std::str::from_utf8(&self.b[start..self.i]).unwrap().to_string();
        let v: f64 = src.parse().map_err(|_| format!("std f64 parse of {src}"))?;
        Ok(T::Num(v, src))
    }
    fn value(&mut self, depth: usize) -> Result<T, String> {
        if depth > 64 {
            return Err("too deep".into());
        }
        self.ws();
        match *self.b.get(self.i).ok_or("unexpected end")? {
            b'n' if self.lit("null") => Ok(T::Null),
            b't' if self.lit("true") => Ok(T::Bool(true)),
            b'f' if self.lit("false") => Ok(T::Bool(false)),
            b'"' => self.string(),
            b'-' | b'0'..=b'9' => self.number(),
            b'[' => {
                self.i += 1;
                let mut v = Vec::new();
                self.ws();
                if self.b.get(self.i) == Some(&b']') {
                    self.i += 1;
                    return Ok(T::Arr(v));
                }
                loop {
                    v.push(self.value(depth + 1)?);
                    self.ws();
                    match self.b.get(self.i) {
                        Some(b',') => self.i += 1,
                        Some(b']') => {
                            self.i += 1;
                            return Ok(T::Arr(v));
                        }
                        _ => return Err(format!("expected , or ] at {}", self.i)),
                    }
                }
            }
            b'{' => {
                self.i += 1;
                let mut v = Vec::new();
                self.ws();
                if self.b.get(self.i) == Some(&b'}') {
                    self.i += 1;
                    return Ok(T::Obj(v));
                }
                loop {
                    self.ws();
                    if self.b.get(self.i) != Some(&b'"') {
                        return Err(format!("expected key at {}", self.i));
                    }
                    let k = self.string()?;
                    self.ws();
                    if self.b.get(self.i) != Some(&b':') {
                        return Err(format!("expected : at {}", self.i));
                    }
                    self.i += 1;
                    let x = self.value(depth + 1)?;
                    v.push((k, x));
                    self.ws();
                    match self.b.get(self.i) {
                        Some(b',') => self.i += 1,
                        Some(b'}') => {
                            self.i += 1;
                            return Ok(T::Obj(v));
                        }
                        _ => return Err(format!("expected , or }} at {}", self.i)),
                    }
                }
            }
            c => Err(format!("unexpected byte {c:#x} at {}", self.i)),
        }
    }
}
fn my_parse(s: &str) -> Result<T, String> {
    let mut p = P { b: s.as_bytes(), i: 0 };
    let v = p.value(0)?;
    p.ws();
    if p.i != s.len() {
        return Err(format!("trailing bytes at {}", p.i));
    }
    Ok(v)
}
/// exact structural identity (order, duplicates, source text of scalars)
fn same_tree(a: &T, b: &T) -> bool {
    match (a, b) {
        (T::Null, T::Null) => true,
        (T::Bool(x), T::Bool(y)) => x == y,
        (T::Num(x, sx), T::Num(y, sy)) => x.to_bits() == y.to_bits() && sx == sy,
        (T::Str(x, sx), T::Str(y, sy)) => x == y && sx == sy,
        (T::Arr(x), T::Arr(y)) => x.len() == y.len() && x.iter().zip(y).all(|(a, b)| same_tree(a, b)),
        (T::Obj(x), T::Obj(y)) => x.len() == y.len() && x.iter().zip(y).all(|((ka, va), (kb, vb))| same_tree(ka, kb) && same_tree(va, vb)),
        _ => false,
    }
}

// ---------------------------------------------------------------- subject adapters
fn from_jsonvalue(v: &JsonValue) -> T {
    match v {
        JsonValue::Null => T::Null,
        JsonValue::Bool(b) => T::Bool(*b),
        JsonValue::Number(n) => T::Num(*n, String::new()),
        JsonValue::String(s) => T::Str(s.clone(), String::new()),
        JsonValue::Array(a) => T::Arr(a.iter().map(from_jsonvalue).collect()),
        JsonValue::Object(o) => T::Obj(o.iter().map(|(k, v)| (T::Str(k.clone(), String::new()), from_jsonvalue(v))).collect()),
    }
}
fn to_builder(t: &T) -> JsonbBuilderValue {
    match t {
        T::Null => JsonbBuilderValue::Null,
        T::Bool(b) => JsonbBuilderValue::Bool(*b),
        T::Num(n, _) => JsonbBuilderValue::Number(*n),
        T::Str(s, _) => JsonbBuilderValue::String(s.clone()),
        T::Arr(a) => JsonbBuilderValue::Array(a.iter().map(to_builder).collect()),
        T::Obj(o) => JsonbBuilderValue::Object(o.iter().map(|(k, v)| (key_of(k).to_string(), to_builder(v))).collect()),
    }
}
fn build_with_builder(t: &T) -> Vec<u8> {
    match t {
        T::Null => JsonbBuilder::new_null().build(),
        T::Bool(b) => JsonbBuilder::new_bool(*b).build(),
        T::Num(n, _) => JsonbBuilder::new_number(*n).build(),
        T::Str(s, _) => JsonbBuilder::new_string(s.clone()).build(),
        T::Arr(a) => {
            let mut b = JsonbBuilder::new_array();
            for x in a {
                b.push(to_builder(x));
            }
            b.build()
        }
        T::Obj(o) => {
            let mut b = JsonbBuilder::new_object();
            for (k, v) in o {
                b.set(key_of(k).to_string(), to_builder(v));
            }
            b.build()
        }
    }
}
/// Read a JSONB value back into a tree using the public accessors only
/// (arrays: array_len + array_get(i); objects: iter_object).
fn rb_value(v: &JsonbValue) -> Result<T, String> {
    Ok(match v {
        JsonbValue::Null => T::Null,
        JsonbValue::Bool(b) => T::Bool(*b),
        JsonbValue::Number(n) => T::Num(*n, String::new()),
        JsonbValue::String(s) => T::Str(s.to_string(), String::new()),
        JsonbValue::Array(view) => {
            let n = view.array_len().map_err(|e| format!("array_len: {e}"))?;
            if n > view.data().len() {
                return Err(format!("array_len {n} exceeds buffer"));
            }
            let mut out = Vec::with_capacity(n);
            for i in 0..n {
                match view.array_get(i).map_err(|e| format!("array_get({i}): {e}"))? {
                    Some(x) => out.push(rb_value(&x)?),
                    None => return Err(format!("array_get({i}) = None with array_len {n}")),
                }
            }
            T::Arr(out)
        }
        JsonbValue::Object(view) => {
            let mut out = Vec::new();
            for item in view.iter_object().map_err(|e| format!("iter_object: {e}"))? {
                let (k, x) = item.map_err(|e| format!("iter_object item: {e}"))?;
                out.push((T::Str(k.to_string(), String::new()), rb_value(&x)?));
            }
            T::Obj(out)
        }
    })
}
fn owned_to_t(v: &OwnedValue) -> Result<T, String> {
    Ok(match v {
        OwnedValue::Null => T::Null,
        OwnedValue::Bool(b) => T::Bool(*b),
        OwnedValue::Float(f) => T::Num(*f, String::new()),
        OwnedValue::Int(i) => T::Num(*i as f64, String::new()),
        OwnedValue::Text(s) => T::Str(s.clone(), String::new()),
        OwnedValue::Jsonb(b) => {
            let view = JsonbView::new(b).map_err(|e| e.to_string())?;
            rb_value(&view.as_value().map_err(|e| e.to_string())?)?
        }
        other => return Err(format!("unexpected OwnedValue {other:?}")),
    })
}
fn show(t: &T) -> String {
    vcore::util::clip(&text_of(t, false), 300)
}

// ---------------------------------------------------------------- oracles
struct Fail {
    oracle: String,
    construct: String,
    cls: String,
    expected: String,
    observed: String,
}
#[derive(Default)]
struct Stats {
    c: BTreeMap<&'static str, u64>,
}
impl Stats {
    #[inline]
    fn add(&mut self, k: &'static str, n: u64) {
        *self.c.entry(k).or_insert(0) += n;
    }
}

struct Bx<'a> {
    pre: &'a str,
    /// construct under test in the special passes (overrides the derived class)
    hint: Option<&'a str>,
    pol: Policy,
    fails: Vec<Fail>,
}
impl<'a> Bx<'a> {
    fn fail(&mut self, oracle: &str, construct: String, cls: String, expected: String, observed: String) {
        let oracle = format!("{}{}", self.pre, oracle);
        let construct = match self.hint {
            Some(h) => format!("{h}@{}", if construct.contains('@') { construct.rsplit('@').next().unwrap_or("root") } else { "root" }),
            None => construct,
        };
        if self.fails.iter().any(|f| f.oracle == oracle && f.construct == construct && f.cls == cls) {
            return; // one report per signature per document
        }
        self.fails.push(Fail { oracle, construct, cls, expected, observed });
    }
}

/// get / array_get on every container of the document, descending with the real accessors.
fn look(v: &JsonbValue, t: &T, bx: &mut Bx, st: &mut Stats) {
    match (t, v) {
        (T::Arr(items), JsonbValue::Array(view)) => {
            for (i, it) in items.iter().enumerate() {
                st.add("array_get_in_range", 1);
                match view.array_get(i) {
                    Ok(Some(x)) => look(&x, it, bx, st),
                    Ok(None) => bx.fail("array_get", format!("{}@index-in-range", class(it)), "some>none".into(), show(it), "None".into()),
                    Err(e) => bx.fail("array_get", format!("{}@index-in-range", class(it)), "some>err".into(), show(it), e.to_string()),
                }
            }
            for idx in [items.len(), items.len() + 1, usize::MAX / 8, usize::MAX] {
                st.add("array_get_out_of_range", 1);
                if let Ok(Some(x)) = view.array_get(idx) {
                    let which = if idx == items.len() { "len" } else if idx == items.len() + 1 { "len+1" } else { "huge" };
                    bx.fail("array_get", format!("arr{}@index-{which}", items.len().min(9)), "none>some".into(), "None or Err".into(), format!("Some({:?})", rb_value(&x).map(|t| show(&t))));
                }
            }
        }
        (T::Obj(entries), JsonbValue::Object(view)) => {
            let mut seen: Vec<&str> = Vec::new();
            for (k, _) in entries {
                let k = key_of(k);
                if seen.contains(&k) {
                    continue;
                }
                seen.push(k);
                let cands: Vec<&T> = entries.iter().filter(|(kk, _)| key_of(kk) == k).map(|(_, v)| v).collect();
                st.add("get_present_key", 1);
                let got = match view.get(k) {
                    Ok(Some(x)) => x,
                    Ok(None) => {
                        bx.fail("get", format!("obj({})", key_pattern(entries)), "some>none".into(), format!("get({k:?}) = {}", show(cands[0])), "None".into());
                        continue;
                    }
                    Err(e) => {
                        bx.fail("get", format!("obj({})", key_pattern(entries)), "some>err".into(), format!("get({k:?}) = {}", show(cands[0])), e.to_string());
                        continue;
                    }
                };
                let got_t = match rb_value(&got) {
                    Ok(t) => t,
                    Err(e) => {
                        bx.fail("get", format!("obj({})", key_pattern(entries)), "some>unreadable".into(), show(cands[0]), e);
                        continue;
                    }
                };
                if cands.len() == 1 {
                    if teq(cands[0], &got_t, bx.pol) {
                        look(&got, cands[0], bx, st);
                    } else {
                        let (c, o) = first_diff(cands[0], &got_t, bx.pol, "value").unwrap_or_default();
                        bx.fail("get", c, o, format!("get({k:?}) = {}", show(cands[0])), show(&got_t));
                    }
                } else {
                    st.add("get_duplicate_key", 1);
                    let m: Vec<usize> = (0..cands.len()).filter(|i| teq(cands[*i], &got_t, bx.pol)).collect();
                    let want = if bx.pol == Policy::First { 0 } else { cands.len() - 1 };
                    if m.contains(&want) {
                        if m.len() == cands.len() {
                            st.add("get_duplicate_key_indistinguishable", 1);
                        }
                        look(&got, cands[want], bx, st);
                    } else {
                        let obs = if m.contains(&0) { "first" } else if m.contains(&(cands.len() - 1)) { "last" } else if !m.is_empty() { "middle" } else { "none-of-them" };
                        let mut sorted: Vec<&str> = entries.iter().map(|(k, _)| key_of(k)).collect();
                        sorted.sort();
                        // canonical multiplicity pattern: distinct keys renamed x,y,z,... in sort order
                        let mut names: Vec<&str> = sorted.clone();
                        names.dedup();
                        let sorted: Vec<String> = sorted.iter().map(|k| ((b'x' + names.iter().position(|n| n == k).unwrap_or(0).min(2) as u8) as char).to_string()).collect();
                        bx.fail(
                            "get",
                            format!("dup-keys({})", sorted.join(",")),
                            format!("{}>{}", bx.pol.name(), obs),
                            format!("get({k:?}) = {} duplicate = {} (the choice made for {{\"a\":0,\"a\":1}})", bx.pol.name(), show(cands[want])),
                            format!("{obs} duplicate: {}", show(&got_t)),
                        );
                    }
                }
            }
            for absent in ["zz", "", "aa", "A", "a\u{0}", "\u{e9}\u{e9}"] {
                if seen.contains(&absent) {
                    continue;
                }
                st.add("get_absent_key", 1);
                if let Ok(Some(x)) = view.get(absent) {
                    bx.fail("get-absent", format!("obj({})", key_pattern(entries)), "none>some".into(), format!("get({absent:?}) = None"), format!("Some({:?})", rb_value(&x).map(|t| show(&t))));
                }
            }
        }
        _ => {}
    }
}

/// every path of the tree: object steps by key, array steps by (canonical decimal) index;
/// + one step beyond scalars (a word and a digit step), + a missing word key and a missing digit-only key in
/// every object, + the out-of-range index and a non-index step in every array
fn paths(t: &T, prefix: &mut Vec<String>, out: &mut std::collections::BTreeSet<Vec<String>>) {
    fn child(v: &T, prefix: &mut Vec<String>, out: &mut std::collections::BTreeSet<Vec<String>>) {
        out.insert(prefix.clone());
        match v {
            T::Obj(_) | T::Arr(_) => paths(v, prefix, out),
            _ => {
                for s in ["a", "0"] {
                    prefix.push(s.into());
                    out.insert(prefix.clone());
                    prefix.pop();
                }
            }
        }
    }
    match t {
        T::Obj(entries) => {
            for (k, v) in entries {
                prefix.push(key_of(k).to_string());
                child(v, prefix, out);
                prefix.pop();
            }
            for missing in ["zz", "0"] {
                if entries.iter().any(|(k, _)| key_of(k) == missing) {
                    continue;
                }
                prefix.push(missing.into());
                out.insert(prefix.clone());
                if missing == "zz" {
                    prefix.push("a".into());
                    out.insert(prefix.clone());
                    prefix.pop();
                }
                prefix.pop();
            }
        }
        T::Arr(items) => {
            for (i, v) in items.iter().enumerate() {
                prefix.push(i.to_string());
                child(v, prefix, out);
                prefix.pop();
            }
            for s in [items.len().to_string(), "a".to_string()] {
                prefix.push(s);
                out.insert(prefix.clone());
                prefix.pop();
            }
        }
        _ if prefix.is_empty() => {
            out.insert(vec!["a".into()]);
            out.insert(vec!["a".into(), "b".into()]);
            out.insert(vec!["0".into()]);
        }
        _ => {}
    }
}

/// canonical decimal array index: digits only, no sign, no leading zero (except "0")
fn canonical_index(s: &str) -> Option<usize> {
    if s.is_empty() || !s.bytes().all(|b| b.is_ascii_digit()) || (s.len() > 1 && s.starts_with('0')) {
        return None;
    }
    s.parse().ok()
}

/// Stepwise lookup with the real single-step accessors: `get(key)` on objects, `array_get(index)`
/// on arrays (canonical index steps only; any other step into an array is absent).
/// Second component: the path stepped through an array element.
fn stepwise<'a>(root: &JsonbView<'a>, path: &[&str]) -> (Option<JsonbValue<'a>>, bool) {
    let mut via_array = false;
    let mut cur = match root.as_value() {
        Ok(v) => v,
        Err(_) => return (None, false),
    };
    for k in path {
        let next = match cur {
            JsonbValue::Object(v) => v.get(k).ok().flatten(),
            JsonbValue::Array(v) => match canonical_index(k) {
                Some(i) => {
                    via_array = true;
                    v.array_get(i).ok().flatten()
                }
                None => v.get(k).ok().flatten(), // real call: Err on non-object = absent
            },
            _ => None,
        };
        cur = match next {
            Some(x) => x,
            None => return (None, via_array),
        };
    }
    (Some(cur), via_array)
}

/// step classes of a path, derived from the generated tree only (for signatures)
fn step_classes(tree: &T, path: &[String]) -> String {
    let mut cur: Option<&T> = Some(tree);
    let mut out: Vec<&'static str> = Vec::new();
    for s in path {
        let digits = !s.is_empty() && s.bytes().all(|b| b.is_ascii_digit());
        let (cls, next): (&'static str, Option<&T>) = match cur {
            Some(T::Obj(entries)) => {
                let hit = entries.iter().rev().find(|(k, _)| key_of(k) == s).map(|(_, v)| v);
                (
                    match (hit.is_some(), digits) {
                        (true, true) => "digitkey",
                        (true, false) => "key",
                        (false, true) => "missing-digitkey",
                        (false, false) => "missing-key",
                    },
                    hit,
                )
            }
            Some(T::Arr(items)) => match canonical_index(s) {
                Some(i) if i < items.len() => ("index", items.get(i)),
                Some(_) => ("index-out-of-range", None),
                None => ("nonindex-into-array", None),
            },
            Some(_) => (if digits { "digits-beyond-scalar" } else { "key-beyond-scalar" }, None),
            None => ("beyond-absent", None),
        };
        out.push(cls);
        cur = next;
    }
    // blame the last step (every shorter prefix is a path of its own and is judged first)
    match out.last() {
        None => "empty-path".to_string(),
        Some(c) => format!("step({c})@{}", if out.len() == 1 { "first" } else { "deeper" }),
    }
}

/// all view-level oracles on one JSONB byte string
fn check_bytes(bytes: &[u8], tree: &T, pre: &str, hint: Option<&str>, pol: Policy, st: &mut Stats) -> Vec<Fail> {
    let mut bx = Bx { pre, hint, pol, fails: Vec::new() };
    let r = vcore::catch(|| {
        let view = match JsonbView::new(bytes) {
            Ok(v) => v,
            Err(e) => {
                bx.fail("readback", format!("{}@root", class(tree)), "ok>view-err".into(), show(tree), e.to_string());
                return;
            }
        };
        let root = match view.as_value() {
            Ok(v) => v,
            Err(e) => {
                bx.fail("readback", format!("{}@root", class(tree)), "ok>as_value-err".into(), show(tree), e.to_string());
                return;
            }
        };
        // 1. full read-back
        match rb_value(&root) {
            Ok(got) => {
                if let Some((c, o)) = first_diff(tree, &got, pol, "root") {
                    bx.fail("readback", c, o, show(tree), show(&got));
                }
                if let (T::Obj(a), T::Obj(b)) = (tree, &got) {
                    if a.len() != b.len() {
                        st.add("objects_stored_with_different_entry_count", 1);
                    }
                }
            }
            Err(e) => bx.fail("readback", format!("{}@root", class(tree)), "ok>accessor-err".into(), show(tree), e),
        }
        if !bx.fails.is_empty() {
            // stop at divergence: the stored value is not the document, lookups on it say nothing more
            st.add("pruned_after_readback_divergence", 1);
            return;
        }
        // 2. lookups
        look(&root, tree, &mut bx, st);
        // 3. paths
        let mut ps = std::collections::BTreeSet::new();
        paths(tree, &mut Vec::new(), &mut ps);
        ps.insert(Vec::new());
        let owned = OwnedValue::Jsonb(bytes.to_vec());
        // BTreeSet order lists every prefix before its extensions: stop at divergence per path prefix
        let mut diverged: Vec<&Vec<String>> = Vec::new();
        for p in &ps {
            if diverged.iter().any(|d| p.len() > d.len() && p[..d.len()] == d[..]) {
                st.add("get_path_pruned_below_divergent_prefix", 1);
                continue;
            }
            let nfails = bx.fails.len();
            let pr: Vec<&str> = p.iter().map(|s| s.as_str()).collect();
            st.add("get_path_calls", 1);
            let (step_v, via_array) = stepwise(&view, &pr);
            let step = step_v.map(|v| rb_value(&v));
            let gp = match view.get_path(&pr) {
                Ok(Some(v)) => Some(rb_value(&v)),
                Ok(None) => None,
                Err(_) => {
                    st.add("get_path_err_counted_as_absent", 1);
                    None
                }
            };
            if via_array {
                st.add("get_path_through_array_element", 1);
            }
            let shape = format!("{}-ends-{}", step_classes(tree, p), match &step { Some(Ok(t)) => kind(t), Some(Err(_)) => "unreadable", None => "absent" });
            match (&step, &gp) {
                (None, None) => st.add("get_path_absent", 1),
                (Some(Ok(a)), Some(Ok(b))) => {
                    st.add("get_path_present", 1);
                    if via_array {
                        st.add("get_path_present_through_array_element", 1);
                    }
                    if !teq(a, b, pol) {
                        bx.fail("get_path", shape.clone(), "value-differs".into(), format!("stepwise {:?} = {}", p, show(a)), show(b));
                    }
                }
                // stepping into array elements is not promised: absent is accepted there
                (Some(Ok(_)), None) if via_array => st.add("get_path_absent_through_array_element(tolerated)", 1),
                (Some(_), None) => bx.fail("get_path", shape.clone(), "some>absent".into(), format!("stepwise {:?} = {:?}", p, step.as_ref().map(|r| r.as_ref().map(show))), "None/Err".into()),
                (None, Some(b)) => bx.fail("get_path", shape.clone(), "absent>some".into(), format!("stepwise {:?} absent", p), format!("{:?}", b.as_ref().map(show))),
                (Some(a), Some(b)) => bx.fail("get_path", shape.clone(), "unreadable".into(), format!("{:?}", a.as_ref().map(show)), format!("{:?}", b.as_ref().map(show))),
            }
            // OwnedValue-level API (jsonb_get_path; jsonb_get / jsonb_array_get at the root)
            let og = match owned.jsonb_get_path(&pr) {
                Ok(Some(v)) => Some(owned_to_t(&v)),
                _ => None,
            };
            match (&step, &og) {
                (None, None) => {}
                (Some(Ok(a)), Some(Ok(b))) if teq(a, b, pol) => st.add("owned_get_path_present", 1),
                (Some(Ok(_)), None) if via_array => {}
                _ => bx.fail("owned-get_path", shape, "differs-from-view".into(), format!("{:?}", step.as_ref().map(|r| r.as_ref().map(show))), format!("{:?}", og.as_ref().map(|r| r.as_ref().map(show)))),
            }
            if bx.fails.len() > nfails {
                diverged.push(p);
            }
        }
        match tree {
            T::Obj(entries) => {
                for (k, _) in entries {
                    let a = view.get(key_of(k)).ok().flatten().map(|v| rb_value(&v));
                    let b = owned.jsonb_get(key_of(k)).ok().flatten().map(|v| owned_to_t(&v));
                    let same = match (&a, &b) {
                        (None, None) => true,
                        (Some(Ok(x)), Some(Ok(y))) => teq(x, y, pol),
                        _ => false,
                    };
                    st.add("owned_get", 1);
                    if !same {
                        bx.fail("owned-get", format!("obj({})", key_pattern(entries)), "differs-from-view".into(), format!("{:?}", a.map(|r| r.map(|t| show(&t)))), format!("{:?}", b.map(|r| r.map(|t| show(&t)))));
                    }
                }
            }
            T::Arr(items) => {
                for i in 0..items.len() + 1 {
                    let a = view.array_get(i).ok().flatten().map(|v| rb_value(&v));
                    let b = owned.jsonb_array_get(i).ok().flatten().map(|v| owned_to_t(&v));
                    let same = match (&a, &b) {
                        (None, None) => true,
                        (Some(Ok(x)), Some(Ok(y))) => teq(x, y, pol),
                        _ => false,
                    };
                    st.add("owned_array_get", 1);
                    if !same {
                        bx.fail("owned-array_get", format!("arr{}", items.len().min(9)), "differs-from-view".into(), format!("{:?}", a.map(|r| r.map(|t| show(&t)))), format!("{:?}", b.map(|r| r.map(|t| show(&t)))));
                    }
                }
            }
            _ => {}
        }
        // 4. to_json_string re-parsed by the harness parser
        match view.to_json_string() {
            Ok(s) => match my_parse(&s) {
                Ok(t2) => {
                    if let Some((c, o)) = first_diff(tree, &t2, pol, "root") {
                        bx.fail("to_json_string", c, o, show(tree), vcore::util::clip(&s, 300));
                    } else {
                        // 5. text round trip is a fixpoint: the subject's own parser reads its own rendering back to the same document
                        st.add("reparse_of_rendering", 1);
                        match parse_json(&s) {
                            Ok(r) => {
                                let t3 = from_jsonvalue(&r.value);
                                if let Some((c, o)) = first_diff(tree, &t3, pol, "root") {
                                    bx.fail("reparse", c, o, format!("parse_json({}) = {}", vcore::util::clip(&s, 200), show(tree)), show(&t3));
                                }
                            }
                            Err(e) => bx.fail("reparse", blame_parse(&t2, &|x| matches!(vcore::catch(|| parse_json(x).is_ok()), Ok(true))), "ok>err".into(), format!("parse_json accepts its own rendering {}", vcore::util::clip(&s, 200)), format!("{e:#}")),
                        }
                    }
                }
                Err(e) => {
                    // blame the first scalar whose own rendering does not parse
                    bx.fail("to_json_string", format!("{}@root", class(tree)), "valid-json>invalid-json".into(), show(tree), format!("{} ({e})", vcore::util::clip(&s, 300)));
                }
            },
            Err(e) => bx.fail("to_json_string", format!("{}@root", class(tree)), "ok>err".into(), show(tree), e.to_string()),
        }
    });
    if let Err(p) = r {
        bx.fail("readback", format!("{}@root", class(tree)), "ok>panic".into(), show(tree), p);
    }
    bx.fails
}

fn leaves<'a>(t: &'a T, out: &mut Vec<&'a T>) {
    match t {
        T::Arr(v) => v.iter().for_each(|x| leaves(x, out)),
        T::Obj(v) => v.iter().for_each(|(k, x)| {
            out.push(k);
            leaves(x, out)
        }),
        _ => out.push(t),
    }
}
/// minimal construct to blame for a document the subject parser rejects: the
/// first scalar whose own text is rejected as a document, else the root class
fn blame_parse(tree: &T, parser: &dyn Fn(&str) -> bool) -> String {
    let mut ls = Vec::new();
    leaves(tree, &mut ls);
    for l in ls {
        if let T::Num(_, s) | T::Str(_, s) = l {
            if !parser(s) {
                return class(l);
            }
        }
    }
    class(tree)
}

fn check_doc(tree: &T, text: &str, hint: Option<&str>, pol: Policy, st: &mut Stats) -> Vec<Fail> {
    match my_parse(text) {
        Ok(t) if same_tree(&t, tree) => {}
        other => vcore::machinery(&format!("C32 harness self-check: generator tree and harness parser disagree on {text:?}: {:?}", other.map(|t| show(&t)))),
    }
    let mut fails = Vec::new();
    let parsed = match vcore::catch(|| parse_json(text).map_err(|e| format!("{e:#}"))) {
        Ok(Ok(r)) => r,
        Ok(Err(e)) => {
            let c = blame_parse(tree, &|s| matches!(vcore::catch(|| parse_json(s).is_ok()), Ok(true)));
            fails.push(Fail { oracle: "parse".into(), construct: c, cls: "ok>err".into(), expected: format!("Ok({})", show(tree)), observed: e });
            return fails;
        }
        Err(p) => {
            let c = blame_parse(tree, &|s| matches!(vcore::catch(|| parse_json(s).is_ok()), Ok(true)));
            fails.push(Fail { oracle: "parse".into(), construct: c, cls: "ok>panic".into(), expected: format!("Ok({})", show(tree)), observed: p });
            return fails;
        }
    };
    if parsed.consumed != text.len() {
        st.add("parse_consumed_less_than_text(trailing whitespace)", 1);
    }
    let pt = from_jsonvalue(&parsed.value);
    if let Some((c, o)) = first_diff(tree, &pt, pol, "root") {
        fails.push(Fail { oracle: "parse-value".into(), construct: c, cls: o, expected: show(tree), observed: show(&pt) });
        return fails;
    }
    let bytes = match vcore::catch(|| parsed.value.to_jsonb_bytes()) {
        Ok(b) => b,
        Err(p) => {
            fails.push(Fail { oracle: "encode".into(), construct: format!("{}@root", class(tree)), cls: "ok>panic".into(), expected: "bytes".into(), observed: p });
            return fails;
        }
    };
    st.add("jsonb_bytes_total", bytes.len() as u64);
    fails.extend(check_bytes(&bytes, tree, "", hint, pol, st));
    match vcore::catch(|| build_with_builder(tree)) {
        Ok(b2) => {
            if b2 == bytes {
                st.add("builder_bytes_identical_to_to_jsonb_bytes", 1);
            } else {
                st.add("builder_bytes_differ", 1);
                fails.extend(check_bytes(&b2, tree, "builder-", hint, pol, st));
            }
        }
        Err(p) => fails.push(Fail { oracle: "builder-encode".into(), construct: format!("{}@root", class(tree)), cls: "ok>panic".into(), expected: "bytes".into(), observed: p }),
    }
    fails
}

fn report(rep: &mut Reporter, fails: Vec<Fail>, case: &dyn Fn() -> Value) {
    for f in fails {
        let sig = format!("C32/{}/{}/{}", f.oracle, f.construct, f.cls);
        rep.violation("C32", &f.oracle, &sig, || case(), &f.expected, &f.observed);
    }
}

/// the duplicate-key choice the implementation makes on the canonical document
fn reference_policy() -> Policy {
    let r = vcore::catch(|| {
        let v = parse_json("{\"a\":0,\"a\":1}").ok()?.value.to_jsonb_bytes();
        let view = JsonbView::new(&v).ok()?;
        match view.get("a").ok()?? {
            JsonbValue::Number(n) => Some(n),
            _ => None,
        }
    });
    match r {
        Ok(Some(n)) if n == 0.0 => Policy::First,
        _ => Policy::Last,
    }
}

// ---------------------------------------------------------------- generator
fn num(src: &str, v: f64) -> T {
    T::Num(v, src.to_string())
}
fn st_(v: &str, src: &str) -> T {
    T::Str(v.to_string(), src.to_string())
}
fn key(k: &str) -> T {
    T::Str(k.to_string(), format!("\"{k}\""))
}
/// the 13 scalars of the property's alphabet (value and source text fixed here, never parsed)
fn base_scalars() -> Vec<T> {
    vec![
        T::Null,
        T::Bool(true),
        T::Bool(false),
        num("0", 0.0),
        num("-1", -1.0),
        num("1.5", 1.5),
        num("1e10", 1e10),
        num("1E-2", 0.01),
        st_("", "\"\""),
        st_("a", "\"a\""),
        st_("é", "\"é\""),
        st_("\"\\\n", "\"\\\"\\\\\\n\""),
        st_("A", "\"\\u0041\""),
    ]
}
/// further escape / number forms (separate small pass)
fn extra_scalars() -> Vec<T> {
    vec![
        st_("é", "\"\\u00e9\""),
        st_("é", "\"\\u00E9\""),
        st_("/", "\"\\/\""),
        st_("\u{8}\u{c}\r\t", "\"\\b\\f\\r\\t\""),
        st_("\u{1}", "\"\\u0001\""),
        st_("😀", "\"😀\""),
        st_("😀", "\"\\ud83d\\ude00\""),
        st_("\",:{}[]", "\"\\\",:{}[]\""),
        st_("a b", "\"a b\""),
        num("-0", -0.0),
        num("1e+2", 100.0),
        num("0.5", 0.5),
        num("123456789012", 123456789012.0),
        num("-1.5E+3", -1500.0),
        num("1.7976931348623157e308", f64::MAX),
        num("5e-324", 5e-324),
        num("9007199254740993", 9007199254740992.0),
        num("0.1", 0.1),
    ]
}
/// integer literals at representation boundaries, both signs: 2^k-1, 2^k, 2^k+1 (k = 7..64: the
/// i8..u64 and f64-mantissa limits), 10^k-1, 10^k (k = 15..22: 15..23-digit literals around the
/// 19/20-digit limits of i64/u64), and 30- / 39-digit integers. Value = the integer converted by
/// the `as f64` cast (round to nearest even), cross-checked against std's parse in `check_doc`.
fn boundary_ints() -> Vec<T> {
    let mut mags: Vec<u128> = Vec::new();
    for k in [7u32, 8, 15, 16, 24, 31, 32, 53, 63, 64] {
        let p = 1u128 << k;
        mags.extend([p - 1, p, p + 1]);
    }
    for k in 15u32..=22 {
        let p = 10u128.pow(k);
        mags.extend([p - 1, p]);
    }
    mags.push(123456789012345678901234567890);
    mags.push(u128::MAX);
    mags.sort();
    mags.dedup();
    let mut out = Vec::new();
    for m in mags {
        out.push(T::Num(m as f64, m.to_string()));
        out.push(T::Num(-(m as f64), format!("-{m}")));
    }
    out
}
/// the same magnitudes around 2^63 / 2^64 / 10^19 written with a fraction or an exponent
fn boundary_nonint_forms() -> Vec<T> {
    vec![
        num("9223372036854775807.0", 9223372036854775807.0),
        num("9223372036854775808.0", 9223372036854775808.0),
        num("-9223372036854775808.0", -9223372036854775808.0),
        num("9.223372036854775808e18", 9.223372036854775808e18),
        num("-9.223372036854775808E18", -9.223372036854775808e18),
        num("9223372036854775807.5", 9223372036854775807.5),
        num("18446744073709551615.0", 18446744073709551615.0),
        num("1e19", 1e19),
        num("1E+19", 1e19),
        num("9.5e18", 9.5e18),
        num("1e18", 1e18),
        num("1e20", 1e20),
        num("9007199254740993.0", 9007199254740993.0),
    ]
}
/// the text the encoder itself renders for a number (None when it does not render a JSON number)
fn rendering_of(v: f64) -> Option<T> {
    let r = vcore::catch(|| {
        let bytes = JsonbBuilder::new_number(v).build();
        JsonbView::new(&bytes).ok()?.to_json_string().ok()
    });
    match r {
        Ok(Some(s)) => match my_parse(&s) {
            Ok(t @ T::Num(..)) => Some(t),
            _ => None,
        },
        _ => None,
    }
}
/// positions a scalar is tried in (end of text, before `]`, before `,`, before `}`)
fn scalar_positions(x: &T) -> Vec<T> {
    vec![x.clone(), T::Arr(vec![x.clone()]), T::Arr(vec![st_("a", "\"a\""), x.clone(), T::Bool(true)]), T::Obj(vec![(key("a"), x.clone())])]
}

/// digit-only object keys and their look-alikes
const DIGIT_KEYS: [&str; 7] = ["0", "7", "1001", "-1", "1x", "01", "a"];
/// documents with digit-only keys / look-alikes at depth 1..3, under objects and inside arrays
fn digit_key_docs() -> Vec<T> {
    let leaf = [T::Null, num("1.5", 1.5), st_("é", "\"é\"")];
    // objects with one or two (distinct, both orders) keys from DIGIT_KEYS
    let mut inner: Vec<T> = Vec::new();
    for k in DIGIT_KEYS {
        for l in &leaf {
            inner.push(T::Obj(vec![(key(k), l.clone())]));
        }
    }
    for k1 in DIGIT_KEYS {
        for k2 in DIGIT_KEYS {
            if k1 != k2 {
                inner.push(T::Obj(vec![(key(k1), T::Null), (key(k2), st_("é", "\"é\""))]));
            }
        }
    }
    let arrays = vec![T::Arr(vec![]), T::Obj(vec![]), T::Arr(vec![T::Null]), T::Arr(vec![st_("é", "\"é\""), num("1.5", 1.5)])];
    let mut out: Vec<T> = Vec::new();
    // depth 1: the keys at the top level
    out.extend(inner.iter().cloned());
    // depth 2: below a word key, below digit keys, and inside a root array
    let mut mid: Vec<T> = inner.clone();
    mid.extend(arrays.iter().cloned());
    for m in &mid {
        for k in ["a", "0", "1001"] {
            out.push(T::Obj(vec![(key(k), m.clone())]));
        }
        out.push(T::Arr(vec![m.clone()]));
        out.push(T::Arr(vec![T::Null, m.clone()]));
    }
    // depth 3: {a:{k:m}}, {a:[m]}, {a:[null,m]}, [{k:m}], ["é",[m]]
    for m in &mid {
        for k in DIGIT_KEYS {
            out.push(T::Obj(vec![(key("a"), T::Obj(vec![(key(k), m.clone())]))]));
            out.push(T::Arr(vec![T::Obj(vec![(key(k), m.clone())])]));
        }
        out.push(T::Obj(vec![(key("a"), T::Arr(vec![m.clone()]))]));
        out.push(T::Obj(vec![(key("a"), T::Arr(vec![T::Null, m.clone()]))]));
        out.push(T::Arr(vec![st_("é", "\"é\""), T::Arr(vec![m.clone()])]));
    }
    out
}
fn key_seqs(alpha: &[&str], k: usize) -> Vec<Vec<T>> {
    let mut out = vec![vec![]];
    for _ in 0..k {
        let mut nx = Vec::new();
        for s in &out {
            for a in alpha {
                let mut s2: Vec<T> = s.clone();
                s2.push(key(a));
                nx.push(s2);
            }
        }
        out = nx;
    }
    out
}
fn pairs_keys() -> Vec<Vec<T>> {
    vec![vec![key("a"), key("b")], vec![key("b"), key("a")], vec![key("a"), key("a")]]
}
/// all non-empty containers with 1..=2 children from `ch`; object keys: one child -> k1, two -> {ab,ba,aa}
fn containers2(ch: &[T], k1: &[&str]) -> Vec<T> {
    let mut out = Vec::new();
    for a in ch {
        out.push(T::Arr(vec![a.clone()]));
    }
    for a in ch {
        for b in ch {
            out.push(T::Arr(vec![a.clone(), b.clone()]));
        }
    }
    for k in k1 {
        for a in ch {
            out.push(T::Obj(vec![(key(k), a.clone())]));
        }
    }
    for ks in pairs_keys() {
        for a in ch {
            for b in ch {
                out.push(T::Obj(vec![(ks[0].clone(), a.clone()), (ks[1].clone(), b.clone())]));
            }
        }
    }
    out
}

struct Run<'a> {
    ctx: &'a Ctx,
    pol: Policy,
    st: Stats,
    idx: u64,
    done: u64,
    capped: bool,
}
impl<'a> Run<'a> {
    /// next enumeration slot; true when this worker owns it
    #[inline]
    fn slot(&mut self) -> bool {
        self.idx += 1;
        if self.idx % 8192 == 0 && self.ctx.expired() {
            self.capped = true;
        }
        !self.capped && self.ctx.mine(self.idx)
    }
    fn doc(&mut self, rep: &mut Reporter, tree: &T, spaced: bool, pass: &'static str) {
        let text = text_of(tree, spaced);
        if self.done < 3 {
            rep.begin_case(&json!({"kind":"doc","text":text}).to_string());
        }
        let fails = check_doc(tree, &text, None, self.pol, &mut self.st);
        self.done += 1;
        self.st.add(pass, 1);
        rep.outcome(match (kind(tree), fails.is_empty()) {
            ("obj", true) => "object document: every oracle holds",
            ("obj", false) => "object document: violation reported",
            ("arr", true) => "array document: every oracle holds",
            ("arr", false) => "array document: violation reported",
            (_, true) => "scalar document: every oracle holds",
            (_, false) => "scalar document: violation reported",
        });
        for f in &fails {
            rep.outcome(&format!("violated oracle: {}", f.oracle));
        }
        if !fails.is_empty() {
            report(rep, fails, &|| json!({"kind":"doc","text":text,"pass":pass}));
        } else {
            self.st.add("documents_fully_consistent", 1);
        }
    }
    /// root array / object with k children taken from `ch` (all tuples accepted by `keep`), all key sequences
    fn product(&mut self, rep: &mut Reporter, ch: &[T], kmax: usize, alpha: &[&str], keep: &dyn Fn(&[usize]) -> bool, styles: &[bool], pass: &'static str) {
        let n = ch.len();
        for k in 0..=kmax {
            let seqs = key_seqs(alpha, k);
            let total = (n as u64).pow(k as u32);
            let mut ix = vec![0usize; k];
            for code in 0..total {
                let mut c = code;
                for j in (0..k).rev() {
                    ix[j] = (c % n as u64) as usize;
                    c /= n as u64;
                }
                if !keep(&ix) {
                    continue;
                }
                if self.capped {
                    return;
                }
                for &sp in styles {
                    if self.slot() {
                        let t = T::Arr(ix.iter().map(|i| ch[*i].clone()).collect());
                        self.doc(rep, &t, sp, pass);
                    }
                    for ks in &seqs {
                        if self.slot() {
                            let t = T::Obj(ix.iter().zip(ks).map(|(i, k)| (k.clone(), ch[*i].clone())).collect());
                            self.doc(rep, &t, sp, pass);
                        }
                    }
                }
            }
        }
    }
}

fn long_string(n: usize, multibyte: bool) -> T {
    let v = if multibyte {
        let mut s = "é".repeat(n / 2);
        if s.len() < n {
            s.push('z');
        }
        s
    } else {
        let mut s = "x".repeat(n - 1);
        s.push('y');
        s
    };
    let src = format!("\"{v}\"");
    T::Str(v, src)
}
const LENS: [usize; 8] = [254, 255, 256, 65534, 65535, 65536, 65537, 70000];
fn length_doc(n: usize, pos: u64, multibyte: bool) -> T {
    let s = long_string(n, multibyte);
    let t = st_("t", "\"t\"");
    match pos {
        0 => s,
        1 => T::Arr(vec![s, t]),
        2 => T::Obj(vec![(key("a"), s), (key("b"), t)]),
        _ => T::Obj(vec![(s, t), (key("zzz"), T::Null)]),
    }
}
fn bigdata_doc() -> T {
    // 257 strings of 65535 bytes: the data section of the root array exceeds 2^24 bytes
    T::Arr((0..257).map(|i| {
        let mut v = "x".repeat(65533);
        v.push_str(&format!("{:02}", i % 100));
        let src = format!("\"{v}\"");
        T::Str(v, src)
    }).collect())
}
fn chain(kind: usize, depth: usize, leaf: &T) -> T {
    let mut t = leaf.clone();
    for lvl in (0..depth - 1).rev() {
        let obj = match kind {
            0 => false,
            1 => true,
            2 => lvl % 2 == 0,
            _ => lvl % 2 == 1,
        };
        t = if obj { T::Obj(vec![(key("a"), t)]) } else { T::Arr(vec![t]) };
    }
    t
}

// ---------------------------------------------------------------- SQL layer
fn sql_quote(s: &str) -> String {
    format!("'{}'", s.replace('\'', "''"))
}
/// INSERT the texts into a JSONB column, SELECT * back; returns per-document bytes or error text
fn sql_roundtrip(ctx: &Ctx, name: &str, texts: &[String]) -> Result<Vec<Result<Vec<u8>, String>>, String> {
    let t = TestDb::create(&ctx.scratch, name)?;
    let r = t.exec("CREATE TABLE j(id INT PRIMARY KEY, doc JSONB)");
    if !r.ok() {
        return Err(format!("CREATE TABLE: {}", r.show()));
    }
    let mut status: Vec<Option<String>> = vec![None; texts.len()];
    let mut batch_failed = false;
    for (b, chunk) in texts.chunks(64).enumerate() {
        let rows: Vec<String> = chunk.iter().enumerate().map(|(i, s)| format!("({},{})", b * 64 + i, sql_quote(s))).collect();
        let r = t.exec(&format!("INSERT INTO j VALUES {}", rows.join(",")));
        if !r.ok() {
            batch_failed = true;
            break;
        }
    }
    if batch_failed {
        // blame single documents on a fresh table
        drop(t);
        let t2 = TestDb::create(&ctx.scratch, name)?;
        t2.exec("CREATE TABLE j(id INT PRIMARY KEY, doc JSONB)");
        for (i, s) in texts.iter().enumerate() {
            let r = t2.exec(&format!("INSERT INTO j VALUES ({},{})", i, sql_quote(s)));
            if !r.ok() {
                status[i] = Some(r.show());
            }
        }
        if status.iter().all(|s| s.is_none()) {
            return Err("multi-row INSERT failed but every single-row INSERT succeeds".into());
        }
        return collect_rows(&t2, texts.len(), status);
    }
    collect_rows(&t, texts.len(), status)
}
fn collect_rows(t: &TestDb, n: usize, status: Vec<Option<String>>) -> Result<Vec<Result<Vec<u8>, String>>, String> {
    let rows = match vcore::catch(|| t.db().query("SELECT * FROM j").map_err(|e| format!("{e:#}"))) {
        Ok(Ok(r)) => r,
        Ok(Err(e)) => return Err(format!("SELECT * FROM j: {e}")),
        Err(p) => return Err(format!("SELECT * FROM j panicked: {p}")),
    };
    let mut out: Vec<Result<Vec<u8>, String>> = status.into_iter().map(|s| Err(s.unwrap_or_else(|| "row missing from SELECT *".into()))).collect();
    let mut seen = vec![false; n];
    for r in &rows {
        let id = match r.get(0) {
            Some(OwnedValue::Int(i)) if (*i as usize) < n => *i as usize,
            other => return Err(format!("unexpected id value {other:?}")),
        };
        if seen[id] {
            return Err(format!("id {id} returned twice"));
        }
        seen[id] = true;
        out[id] = match r.get(1) {
            Some(OwnedValue::Jsonb(b)) => Ok(b.clone()),
            other => Err(format!("column value is not Jsonb: {}", vcore::util::clip(&format!("{other:?}"), 200))),
        };
    }
    Ok(out)
}
fn sql_check(run: &mut Run, rep: &mut Reporter, name: &str, docs: &[T]) {
    let texts: Vec<String> = docs.iter().map(|d| text_of(d, false)).collect();
    rep.begin_case(&json!({"kind":"sql-batch","first":vcore::util::clip(&texts[0], 200),"n":texts.len()}).to_string());
    match sql_roundtrip(run.ctx, name, &texts) {
        Err(e) => {
            let cls = if e.starts_with("multi-row") { "batch-only" } else { "statement" };
            rep.violation("C32", "sql-machinery", &format!("C32/sql/{cls}/ok>err"), || json!({"kind":"sql","texts":texts}), "rows", &e);
        }
        Ok(res) => {
            for ((d, text), r) in docs.iter().zip(&texts).zip(res) {
                run.st.add("sql_documents", 1);
                let fails = match r {
                    Ok(bytes) => check_bytes(&bytes, d, "sql-", None, run.pol, &mut run.st),
                    Err(e) => {
                        let c = blame_parse(d, &|s| matches!(sql_roundtrip(run.ctx, "blame", &[s.to_string()]), Ok(v) if v[0].is_ok()));
                        vec![Fail { oracle: "sql-insert".into(), construct: c, cls: "ok>err".into(), expected: format!("stored {}", show(d)), observed: e }]
                    }
                };
                if fails.is_empty() {
                    run.st.add("sql_documents_consistent", 1);
                }
                report(rep, fails, &|| json!({"kind":"sql","texts":[text]}));
            }
        }
    }
}

// ---------------------------------------------------------------- the check
struct C32;

fn t1() -> Vec<T> {
    let mut v = base_scalars();
    v.push(T::Arr(vec![]));
    v.push(T::Obj(vec![]));
    v
}
fn by_src(names: &[&str]) -> Vec<T> {
    let all = t1();
    names.iter().map(|n| all.iter().find(|t| text_of(t, false) == *n).unwrap_or_else(|| vcore::machinery(&format!("C32: no scalar {n}"))).clone()).collect()
}

impl Check for C32 {
    fn specs(&self) -> Vec<Spec> {
        let mut s = Spec::new(
            "C32",
            "exploration",
            "a case is one JSON document, generated as tree+text together. Scalars S = {null,true,false,0,-1,1.5,1e10,1E-2,\"\",\"a\",\"é\",\"\\\"\\\\\\n\",\"\\u0041\"}, keys K = {a,b,é}. Passes (pairwise disjoint by construction): P0 the 15 depth-1 documents; P1 every root array/object with <=3 children from S+{[],{}} and EVERY key sequence in K^k (duplicates, unsorted orders), in a compact and a whitespace-heavy text style; P2 depth 3: every root with <=3 children from C = leaves + all containers with 1..2 children over a reduced leaf set R (quick R={null,\"é\",[]}, leaves 6 scalars; thorough R={null,\"é\",[],{}}, leaves all of S) with every key sequence over {a,b} (quick) / K (thorough) at the root, at least one child of depth 2; P3 depth 4: root with 1..2 children, one from G3\\G2 (G_d = all trees of depth<=d with <=2 children over {\"é\",[],{}}, keys a / ab,ba,aa) and the other from G1 (quick) or G2 (thorough), both orders; chains of depth 5..8 (4 nesting kinds x 15 leaves); escape/number forms (18 extra scalars x 5 positions); boundary numbers: the integer literals +-(2^k-1, 2^k, 2^k+1) for k in {7,8,15,16,24,31,32,53,63,64}, +-(10^k-1, 10^k) for k=15..22, +-30-digit and +-39-digit integers, 13 fraction/exponent spellings of the magnitudes around 2^63/2^64/10^19, and every further text the encoder itself renders for any number of the alphabet, x 4 positions x 2 text styles; digit-only object keys and look-alikes D={0,7,1001,-1,1x,01,a}: every object with 1 key (x3 leaves) or 2 distinct keys (both orders) over D at depth 1, below the keys a/0/1001 and inside root arrays at depth 2, and below {a:{k:.}}, [{k:.}] (k in D), {a:[.]}, {a:[null,.]}, [\"é\",[.]] at depth 3; string lengths {254..256, 65534..65537, 70000} (ASCII and 2-byte chars) x 4 positions; one array whose data section exceeds 2^24 bytes; SQL layer: documents of P0/P1 (quick: <=2 children and 3-element arrays; thorough: all), chains, escape forms and lengths INSERTed into a JSONB column and read back with SELECT *. Every document is non-trivial (exercises parse, encode, view).",
        );
        s.assumptions = &[
            "numbers are compared by f64 value (-0 = 0); std's str::parse::<f64> is trusted for re-reading to_json_string output",
            "duplicate keys: undocumented, so first-wins or last-wins are both accepted, but the choice made for {\"a\":0,\"a\":1} must hold for every object (reported otherwise); objects compare as maps under that choice, key order and to_json_string number formatting are free",
            "out-of-range array index and lookups through a non-object may answer None or Err",
            "get_path is compared with stepwise calls of the real single-step accessors (differential): get(key) on objects, array_get(i) on arrays for canonical decimal index steps; get / array_get themselves are compared with the generated tree. Paths tried per document: every key/index path of the tree, one word and one digit step beyond every scalar, the missing keys zz and 0 in every object, the out-of-range index and a word step in every array",
            "stepping INTO array elements is not promised for get_path: for a path through an array element 'absent' is accepted, but an answer must be the stepwise one; a path that never crosses an array must agree exactly",
            "text round trip: parse_json(to_json_string(jsonb)) must give the document again (numbers by f64 value) whenever to_json_string's text is itself correct according to the harness parser",
            "generated tree and text are cross-checked by the harness's own parser on every document (machinery error on disagreement)",
        ];
        s.cap_quick_s = 100;
        s.cap_thorough_s = 1200;
        vec![s]
    }

    fn run(&self, ctx: &Ctx, rep: &mut Reporter) {
        let pol = reference_policy();
        rep.outcome(&format!("duplicate-key policy on {{a:0,a:1}}: {}", pol.name()));
        let mut run = Run { ctx, pol, st: Stats::default(), idx: 0, done: 0, capped: false };
        let quick = ctx.quick();
        let t1v = t1();
        rep.sample(|| json!({"kind":"doc","text":"{\"b\":[1E-2,\"\\u0041\"],\"a\":{},\"a\":\"é\"}"}));

        // P0 / P1
        for t in &t1v {
            for sp in [false, true] {
                if run.slot() {
                    run.doc(rep, t, sp, "P0_depth1");
                }
            }
        }
        run.product(rep, &t1v, 3, &["a", "b", "é"], &|_| true, &[false, true], "P1_depth2_full");

        // P2: depth 3
        let (leaves2, r2): (Vec<T>, Vec<T>) = if quick {
            (by_src(&["null", "true", "1.5", "1E-2", "\"é\"", "\"\\\"\\\\\\n\"", "[]", "{}"]), by_src(&["null", "\"é\"", "[]"]))
        } else {
            (t1v.clone(), by_src(&["null", "\"é\"", "[]", "{}"]))
        };
        let mut c2 = leaves2.clone();
        let nleaf = c2.len();
        c2.extend(containers2(&r2, &["a", "b"]));
        rep.bound("P2_child_set_size", json!(c2.len()));
        let alpha2: &[&str] = if quick { &["a", "b"] } else { &["a", "b", "é"] };
        run.product(rep, &c2, 3, alpha2, &|ix| ix.iter().any(|i| *i >= nleaf), &[false], "P2_depth3");

        // P3: depth 4, <= 2 children
        let g1 = by_src(&["\"é\"", "[]", "{}"]);
        let mut g2 = g1.clone();
        g2.extend(containers2(&g1, &["a"]));
        let d3: Vec<T> = containers2(&g2, &["a"]).into_iter().filter(|t| {
            let ch: Vec<&T> = match t {
                T::Arr(v) => v.iter().collect(),
                T::Obj(v) => v.iter().map(|(_, x)| x).collect(),
                _ => vec![],
            };
            ch.iter().any(|c| matches!(c, T::Arr(v) if !v.is_empty()) || matches!(c, T::Obj(v) if !v.is_empty()))
        }).collect();
        rep.bound("P3_depth3_subtrees", json!(d3.len()));
        let other = if quick { g1.clone() } else { g2.clone() };
        for a in &d3 {
            if run.capped {
                break;
            }
            if run.slot() {
                run.doc(rep, &T::Arr(vec![a.clone()]), false, "P3_depth4");
            }
            if run.slot() {
                run.doc(rep, &T::Obj(vec![(key("a"), a.clone())]), false, "P3_depth4");
            }
            for b in &other {
                for (x, y) in [(a, b), (b, a)] {
                    if run.slot() {
                        run.doc(rep, &T::Arr(vec![x.clone(), y.clone()]), false, "P3_depth4");
                    }
                    for ks in pairs_keys() {
                        if run.slot() {
                            run.doc(rep, &T::Obj(vec![(ks[0].clone(), x.clone()), (ks[1].clone(), y.clone())]), false, "P3_depth4");
                        }
                    }
                }
            }
        }

        // chains of depth 5..8
        let mut chains = Vec::new();
        for depth in 5..=8 {
            for kind in 0..4 {
                for leaf in &t1v {
                    chains.push(chain(kind, depth, leaf));
                }
            }
        }
        for c in &chains {
            if run.slot() {
                run.doc(rep, c, false, "chains_depth5to8");
            }
        }
        // escape and number forms
        let mut esc_docs = Vec::new();
        for x in extra_scalars() {
            esc_docs.push(x.clone());
            esc_docs.push(T::Arr(vec![x.clone()]));
            esc_docs.push(T::Arr(vec![st_("a", "\"a\""), x.clone(), T::Bool(true)]));
            esc_docs.push(T::Obj(vec![(key("a"), x.clone())]));
            if matches!(x, T::Str(..)) {
                esc_docs.push(T::Obj(vec![(x.clone(), T::Null), (key("m"), x.clone())]));
            }
        }
        for d in &esc_docs {
            if run.slot() {
                run.doc(rep, d, false, "escape_and_number_forms");
            }
        }
        // integer literals at representation boundaries, fraction/exponent forms of the same magnitudes,
        // and the renderings the encoder produces for all these values
        let mut num_forms = boundary_ints();
        num_forms.extend(boundary_nonint_forms());
        rep.bound("boundary_number_literals", json!(num_forms.len()));
        let mut rendered: Vec<T> = Vec::new();
        for x in num_forms.iter().chain(extra_scalars().iter()).chain(base_scalars().iter()) {
            if let T::Num(v, _) = x {
                if let Some(r) = rendering_of(*v) {
                    let known = |t: &T| matches!((t, &r), (T::Num(_, a), T::Num(_, b)) if a == b);
                    if !num_forms.iter().any(known) && !rendered.iter().any(known) && !extra_scalars().iter().any(known) && !base_scalars().iter().any(known) {
                        rendered.push(r);
                    }
                }
            }
        }
        rep.bound("rendered_number_literals", json!(rendered.len()));
        let mut num_docs = Vec::new();
        for x in num_forms.iter().chain(rendered.iter()) {
            num_docs.extend(scalar_positions(x));
        }
        for d in &num_docs {
            for sp in [false, true] {
                if run.slot() {
                    run.doc(rep, d, sp, "boundary_numbers");
                }
            }
        }
        // digit-only object keys and look-alikes
        let digit_docs = digit_key_docs();
        rep.bound("digit_key_documents", json!(digit_docs.len()));
        for d in &digit_docs {
            if run.slot() {
                run.doc(rep, d, false, "digit_keys");
            }
        }
        // string length boundaries
        for (li, n) in LENS.iter().enumerate() {
            for pos in 0..4u64 {
                for mb in [false, true] {
                    if run.slot() {
                        let d = length_doc(*n, pos, mb);
                        let text = text_of(&d, false);
                        rep.begin_case(&json!({"kind":"len","n":n,"pos":pos,"mb":mb}).to_string());
                        let fails = check_doc(&d, &text, Some(&format!("str:{}", len_bucket(*n))), pol, &mut run.st);
                        run.done += 1;
                        run.st.add("string_length_boundaries", 1);
                        let _ = li;
                        report(rep, fails, &|| json!({"kind":"len","n":n,"pos":pos,"mb":mb}));
                    }
                }
            }
        }
        if run.slot() {
            rep.begin_case("{\"kind\":\"bigdata\"}");
            let d = bigdata_doc();
            let text = text_of(&d, false);
            let fails = check_doc(&d, &text, Some("data-section>=2^24"), pol, &mut run.st);
            run.done += 1;
            run.st.add("data_section_over_16MiB", 1);
            report(rep, fails, &|| json!({"kind":"bigdata"}));
        }

        // SQL layer
        let mut sql_docs: Vec<T> = t1v.clone();
        {
            let kmax_obj = if quick { 2 } else { 3 };
            let n = t1v.len();
            for k in 0..=3usize {
                let seqs = key_seqs(&["a", "b", "é"], k);
                for code in 0..(n as u64).pow(k as u32) {
                    let mut c = code;
                    let mut ix = vec![0usize; k];
                    for j in (0..k).rev() {
                        ix[j] = (c % n as u64) as usize;
                        c /= n as u64;
                    }
                    sql_docs.push(T::Arr(ix.iter().map(|i| t1v[*i].clone()).collect()));
                    if k <= kmax_obj {
                        for ks in &seqs {
                            sql_docs.push(T::Obj(ix.iter().zip(ks).map(|(i, k)| (k.clone(), t1v[*i].clone())).collect()));
                        }
                    }
                }
            }
            sql_docs.extend(chains.iter().cloned());
            sql_docs.extend(esc_docs.iter().cloned());
            sql_docs.extend(num_docs.iter().cloned());
            sql_docs.extend(digit_docs.iter().cloned());
            // longer values do not fit a row ("not enough free space": a storage limit, not a JSON matter)
            for n in [254usize, 255, 256, 4000] {
                for pos in 0..4 {
                    sql_docs.push(length_doc(n, pos, false));
                }
            }
        }
        rep.bound("sql_documents_enumerated", json!(sql_docs.len()));
        for (b, chunk) in sql_docs.chunks(512).enumerate() {
            if ctx.expired() {
                run.capped = true;
            }
            if run.capped {
                break;
            }
            if ctx.mine(b as u64) {
                sql_check(&mut run, rep, "sqlj", chunk);
                run.done += chunk.len() as u64;
            }
        }

        if run.capped {
            rep.capped("deadline reached inside the document enumeration");
        }
        rep.bulk(run.done, run.done);
        rep.pruned(run.st.c.get("pruned_after_readback_divergence").copied().unwrap_or(0));
        for (k, v) in &run.st.c {
            rep.count(k, *v);
        }
        for k in ["get_duplicate_key", "get_present_key", "array_get_in_range", "array_get_out_of_range", "get_absent_key", "get_path_present", "get_path_absent", "sql_documents", "P1_depth2_full", "P2_depth3", "P3_depth4", "chains_depth5to8", "documents_fully_consistent", "boundary_numbers", "digit_keys", "reparse_of_rendering", "get_path_through_array_element"] {
            rep.expect_nonzero(k);
        }
    }

    fn replay(&self, ctx: &Ctx, case: &Value, rep: &mut Reporter) {
        let pol = reference_policy();
        let mut st = Stats::default();
        let (tree, text) = match case["kind"].as_str() {
            Some("doc") => {
                let text = case["text"].as_str().unwrap_or("").to_string();
                let tree = my_parse(&text).unwrap_or_else(|e| vcore::machinery(&format!("C32 replay: harness parser rejects case text: {e}")));
                (tree, text)
            }
            Some("len") => {
                let d = length_doc(case["n"].as_u64().unwrap_or(0) as usize, case["pos"].as_u64().unwrap_or(0), case["mb"].as_bool().unwrap_or(false));
                let t = text_of(&d, false);
                (d, t)
            }
            Some("bigdata") => {
                let d = bigdata_doc();
                let t = text_of(&d, false);
                (d, t)
            }
            Some("sql") => {
                let docs: Vec<T> = case["texts"].as_array().map(|a| a.iter().map(|t| my_parse(t.as_str().unwrap_or("")).unwrap_or_else(|e| vcore::machinery(&format!("C32 replay: {e}")))).collect()).unwrap_or_default();
                let mut run = Run { ctx, pol, st, idx: 0, done: 0, capped: false };
                sql_check(&mut run, rep, "replay", &docs);
                rep.bulk(docs.len() as u64, docs.len() as u64);
                return;
            }
            _ => vcore::machinery("C32: unknown case kind"),
        };
        let hint: Option<String> = match case["kind"].as_str() {
            Some("len") => Some(format!("str:{}", len_bucket(case["n"].as_u64().unwrap_or(0) as usize))),
            Some("bigdata") => Some("data-section>=2^24".into()),
            _ => None,
        };
        let fails = check_doc(&tree, &text, hint.as_deref(), pol, &mut st);
        let c = case.clone();
        report(rep, fails, &|| c.clone());
        rep.bulk(1, 1);
    }
}

fn main() {
    vcore::main(&C32)
}
