//! C16 — aggregates and GROUP BY follow SQL semantics (engine QRY, exploration).
//!
//! Tables: every multiset of <= 4 (quick) / <= 6 (thorough) rows over {NULL,1,2} x {NULL,'a','b'}
//! for the columns (a INT, c TEXT); the REAL column b is a fixed function of (a,c) taking the
//! values NULL / 0.5 / 1.5 / 2.5 (so that b has NULLs and duplicates independently of a).  The
//! enumeration contains the EMPTY table and the all-NULL tables ((NULL,NULL,NULL) x k).  Each
//! table exists as `t(a INT, b REAL, c TEXT)` ("plain") and `t(id INT PRIMARY KEY, a, b, c)`
//! ("pk"); plus fixed 8-row tables with many duplicates.
//!
//! Queries (refmodel `Query` values; SQL text and expected rows come from the same object):
//!   SELECT [g,] agg FROM t [WHERE p] [GROUP BY g[,h]] [HAVING agg cmp k]
//!   agg in COUNT(*), COUNT(x), SUM(x), AVG(x), MIN(x), MAX(x), x in {a, b, a+1, b+1} (+ c for
//!   COUNT/MIN/MAX); grouping in {none, a, c, a+1, (a,c), (c,a+1)}; p in {none, a > 1, c = 'a',
//!   a < 0 (selects nothing)}; HAVING in {none, agg > 1, agg = 1, COUNT(*) > 1} (text: > 'a', = 'a');
//!   plus two multi-aggregate select lists.  The FULL pass runs all of it on tables of <= 3
//!   (quick) / <= 4 (thorough) rows and the fixed tables; the DEEP pass runs the larger tables
//!   with exactly the constructs of the open findings KF-C16-02..06 left out (`known_broken`:
//!   expression keys, expression arguments, HAVING over an unselected aggregate, MIN/MAX(text),
//!   COUNT(col); counted as pruned per finding).
//!
//! Same-type-keys family ("ad", runs first): `t(a INT, d INT, c TEXT)` [+ pk variant], every
//! multiset of <= 3 (quick) / <= 4 (thorough) rows over (a,d) in {NULL,1,2}^2 (c a function of
//! (a,d) that is equal for (NULL,v) and (v,NULL)) plus one fixed 10-row table; GROUP BY a,d and
//! d,a (on the fixed table also a,d,c and c,d,a) x COUNT(*), COUNT(a|d), SUM/MIN/MAX(a|d), one
//! multi list x HAVING {none, COUNT(*) > 1}.  Two grouping columns of the same type with
//! overlapping domains: a group key that does not separate (NULL,v) from (v,NULL) merges groups.
//!
//! Sign variants: the enumerated tables of <= 2 (quick) / <= 3 (thorough) rows and the fixed tables also
//! exist with the numeric columns negated (a in {-1,-2}, b in {-0.5,-1.5,-2.5}: every group's non-NULL
//! values are all negative) and mixed (a: 1 -> -1, b: 0.5 -> -0.5, 2.5 -> -2.5); they run the query space of
//! the deep pass.  (The unsigned tables are the all-positive case.)
//!
//! Oracle: `Query::eval` compared with the observed rows as bags by `bags_loosely_equal`.
//! Tolerances (all of them): `Int(n)` ~ `Float(n.0)` (result type of SUM/AVG/MIN/MAX is not
//! pinned), floats equal within 1e-9 relative (summation order), row order is free.
//!
//! COUNT header fast path: a single COUNT aggregate without WHERE / GROUP BY is answered from
//! the table-file header (`is_simple_count_star`); the harness recognises the shape from
//! EXPLAIN (Project>HashAggregate>TableScan), counts it, and on every pk table also checks
//! COUNT(*) (fast path) and COUNT(*) WHERE <true> (scan) after each of n single-row DELETEs.
//!
//! Signature: C16/<agg>(<arg kind>)/<none|1key|2keys|expr-key|2keys-same-type|3keys>/<empty|all-null|some-null|no-null
//! [+deleted]>/<nohaving|having|having-unselected>/<expected class>><observed class>
//!   the blamed aggregate = first select-list aggregate whose cell differs (first of the list for
//!   group-level failures); having-unselected = HAVING over an aggregate that is not selected;
//!   input class = the blamed aggregate's argument values over the rows that pass WHERE and
//!   (for a cell mismatch) belong to the blamed group;
//!   classes: rows>error, rows>panic, groups>fewer-groups, groups>more-groups, groups>wrong-keys,
//!   or the blamed cell: null|zero|num|text > null|zero|num|larger|smaller|other-text|<type>.
use checks::sqlh::{self, Res, TestDb};
use refmodel::sql::expr::{self as ex, AggFunc, Expr};
use refmodel::sql::query::{self as mq, Query, SelectItem, Table};
use refmodel::sql::{Schema, Ty};
use refmodel::val::{Row, V};
use vcore::{json, Check, Ctx, Reporter, Spec, Value};

const PROP: &str = "C16";

// ---------------------------------------------------------------------------
// tables
// ---------------------------------------------------------------------------

type TRow = (Option<i64>, Option<String>);

fn dom() -> Vec<TRow> {
    let s = |x: &str| Some(x.to_string());
    vec![(Some(2), s("a")), (None, s("b")), (Some(1), None), (Some(2), s("b")), (Some(1), s("a")), (None, None), (Some(2), None), (Some(1), s("b")), (None, s("a"))]
}

/// the REAL column as a function of (a, c): NULL for 4 of the 9 domain rows (incl. (NULL,NULL))
fn b_of(a: Option<i64>, c: Option<&str>) -> Option<f64> {
    match (a, c) {
        (Some(2), Some("a")) => Some(1.5),
        (None, Some("b")) => Some(0.5),
        (Some(1), None) => None,
        (Some(2), Some("b")) => None,
        (Some(1), Some("a")) => Some(0.5),
        (None, None) => None,
        (Some(2), None) => Some(2.5),
        (Some(1), Some("b")) => Some(1.5),
        (None, Some("a")) => None,
        _ => None,
    }
}

#[derive(Clone, Debug)]
struct TableSpec {
    pk: bool,
    rows: Vec<TRow>,
    fixed: bool,
    /// family "ad": `t(a INT, d INT, c TEXT)` with rows (a, d) and c = c_of(a, d); `rows` is unused
    ad: Option<Vec<(Option<i64>, Option<i64>)>>,
    /// sign variant of the numeric columns a and b (family "abc" only): 0 = as enumerated (all values
    /// positive), 1 = every value negated (every group's non-NULL values are all negative),
    /// 2 = mixed (a: 1 -> -1, 2 stays; b: 0.5 -> -0.5, 1.5 stays, 2.5 -> -2.5)
    sign: u8,
}
fn sign_a(sign: u8, a: i64) -> i64 {
    match sign {
        1 => -a,
        2 if a == 1 => -1,
        _ => a,
    }
}
fn sign_b(sign: u8, b: f64) -> f64 {
    match sign {
        1 => -b,
        2 if b != 1.5 => -b,
        _ => b,
    }
}
impl TableSpec {
    fn variant(&self) -> &'static str {
        if self.pk {
            "pk"
        } else {
            "plain"
        }
    }
    fn rows_json(&self) -> Value {
        match &self.ad {
            Some(ad) => json!(ad.iter().map(|(a, d)| json!([a, d])).collect::<Vec<_>>()),
            None => json!(self.rows.iter().map(|(a, c)| json!([a, c])).collect::<Vec<_>>()),
        }
    }
    fn family(&self) -> &'static str {
        if self.ad.is_some() {
            "ad"
        } else {
            "abc"
        }
    }
    fn nrows(&self) -> usize {
        self.ad.as_ref().map_or(self.rows.len(), |r| r.len())
    }
    fn from_json(case: &Value) -> TableSpec {
        let pk = case["variant"].as_str() == Some("pk");
        if case["family"].as_str() == Some("ad") {
            let ad = case["rows"].as_array().map(|a| a.iter().map(|r| (r[0].as_i64(), r[1].as_i64())).collect()).unwrap_or_default();
            return TableSpec { pk, rows: vec![], fixed: false, ad: Some(ad), sign: 0 };
        }
        let rows = case["rows"].as_array().map(|a| a.iter().map(|r| (r[0].as_i64(), r[1].as_str().map(|s| s.to_string()))).collect()).unwrap_or_default();
        TableSpec { pk, rows, fixed: false, ad: None, sign: case["sign"].as_u64().unwrap_or(0) as u8 }
    }
    /// (id,) a, b, c   —   family "ad": (id,) a, d, c
    fn model_rows(&self) -> Vec<Row> {
        if let Some(ad) = &self.ad {
            return ad
                .iter()
                .enumerate()
                .map(|(i, (a, d))| {
                    let mut r = vec![];
                    if self.pk {
                        r.push(V::Int(i as i64 + 1));
                    }
                    r.push(a.map(V::Int).unwrap_or(V::Null));
                    r.push(d.map(V::Int).unwrap_or(V::Null));
                    r.push(c_of(*a, *d).map(|s| V::Text(s.into())).unwrap_or(V::Null));
                    r
                })
                .collect();
        }
        self.rows
            .iter()
            .enumerate()
            .map(|(i, (a, c))| {
                let mut r = vec![];
                if self.pk {
                    r.push(V::Int(i as i64 + 1));
                }
                r.push(a.map(|a| V::Int(sign_a(self.sign, a))).unwrap_or(V::Null));
                r.push(b_of(*a, c.as_deref()).map(|b| V::Float(sign_b(self.sign, b))).unwrap_or(V::Null));
                r.push(c.clone().map(V::Text).unwrap_or(V::Null));
                r
            })
            .collect()
    }
    fn columns(&self) -> Vec<(&'static str, Ty)> {
        let mut c = vec![];
        if self.pk {
            c.push(("id", Ty::Int));
        }
        if self.ad.is_some() {
            c.extend([("a", Ty::Int), ("d", Ty::Int), ("c", Ty::Text)]);
        } else {
            c.extend([("a", Ty::Int), ("b", Ty::Real), ("c", Ty::Text)]);
        }
        c
    }
}

/// family "ad": the TEXT column as a function of (a, d); (NULL,v) and (v,NULL) get the SAME c, so
/// that the 3-key grouping (a, d, c) still separates them only by the positions of the NULLs
fn c_of(a: Option<i64>, d: Option<i64>) -> Option<&'static str> {
    match (a, d) {
        (None, Some(1)) | (Some(1), None) | (Some(1), Some(2)) => Some("a"),
        (None, Some(2)) | (Some(2), None) | (Some(2), Some(1)) => Some("b"),
        _ => None,
    }
}

/// family "ad": all multisets of <= kmax pairs over {NULL,1,2}^2 (scrambled domain order) and one
/// fixed table; the two grouping columns have the SAME type and overlapping domains, so a group
/// key that does not separate (NULL, v) from (v, NULL) merges groups
fn ad_tables(kmax: usize) -> Vec<TableSpec> {
    let d: Vec<(Option<i64>, Option<i64>)> = vec![(None, Some(1)), (Some(1), None), (Some(1), Some(1)), (None, None), (Some(2), None), (None, Some(2)), (Some(1), Some(2)), (Some(2), Some(1)), (Some(2), Some(2))];
    let mut out = vec![];
    for k in 0..=kmax {
        let mut idx = vec![0usize; k];
        loop {
            let rows: Vec<_> = idx.iter().map(|&i| d[i]).collect();
            for pk in [false, true] {
                out.push(TableSpec { pk, rows: vec![], fixed: false, ad: Some(rows.clone()), sign: 0 });
            }
            let mut p = k;
            while p > 0 && idx[p - 1] == d.len() - 1 {
                p -= 1;
            }
            if p == 0 {
                break;
            }
            let v = idx[p - 1] + 1;
            for q in p - 1..k {
                idx[q] = v;
            }
        }
    }
    let fixed = vec![(None, Some(1)), (Some(1), None), (Some(1), Some(1)), (None, None), (Some(2), None), (None, Some(2)), (Some(1), None), (None, Some(1)), (None, None), (Some(2), Some(1))];
    for pk in [false, true] {
        out.push(TableSpec { pk, rows: vec![], fixed: true, ad: Some(fixed.clone()), sign: 0 });
    }
    out
}

fn multisets(kmax: usize) -> Vec<Vec<TRow>> {
    let d = dom();
    let mut out = vec![];
    for k in 0..=kmax {
        let mut idx = vec![0usize; k];
        loop {
            out.push(idx.iter().map(|&i| d[i].clone()).collect());
            let mut p = k;
            while p > 0 && idx[p - 1] == d.len() - 1 {
                p -= 1;
            }
            if p == 0 {
                break;
            }
            let v = idx[p - 1] + 1;
            for q in p - 1..k {
                idx[q] = v;
            }
        }
    }
    out
}

fn fixed_tables() -> Vec<Vec<TRow>> {
    let s = |x: &str| Some(x.to_string());
    vec![
        vec![(Some(2), s("b")), (Some(1), s("a")), (Some(2), s("a")), (Some(1), s("b")), (Some(2), s("b")), (Some(1), s("a")), (Some(2), s("a")), (Some(1), s("b"))],
        vec![(Some(1), s("a")), (Some(2), s("b")), (None, None), (Some(1), s("a")), (Some(2), s("b")), (Some(1), s("a")), (None, None), (Some(2), s("b"))],
        vec![(Some(1), s("a")); 8],
        vec![(None, None); 8],
        vec![(None, s("a")), (Some(1), None), (None, None), (None, s("b")), (Some(2), None), (None, s("a")), (None, None), (Some(1), None)],
    ]
}

/// enumerated tables with <= kfull rows, then the fixed tables, then the sign variants (negated / mixed
/// numeric columns) of the enumerated tables with <= ksign rows and of the fixed tables, then the deeper
/// enumerated tables
fn all_tables(kmax: usize, kfull: usize, ksign: usize) -> Vec<TableSpec> {
    let mut out = vec![];
    let ms = multisets(kmax.max(ksign));
    for rows in ms.iter().filter(|r| r.len() <= kfull.min(kmax)) {
        for pk in [false, true] {
            out.push(TableSpec { pk, rows: rows.clone(), fixed: false, ad: None, sign: 0 });
        }
    }
    for rows in fixed_tables() {
        for pk in [false, true] {
            out.push(TableSpec { pk, rows: rows.clone(), fixed: true, ad: None, sign: 0 });
        }
    }
    // a sign variant differs from the table itself only if some numeric value is not NULL
    let numeric = |rows: &Vec<TRow>| rows.iter().any(|(a, c)| a.is_some() || b_of(*a, c.as_deref()).is_some());
    for (rows, fixed) in ms.iter().filter(|r| r.len() <= ksign).map(|r| (r.clone(), false)).chain(fixed_tables().into_iter().map(|r| (r, true))) {
        if !numeric(&rows) {
            continue;
        }
        for sign in [1u8, 2] {
            for pk in [false, true] {
                out.push(TableSpec { pk, rows: rows.clone(), fixed, ad: None, sign });
            }
        }
    }
    for rows in ms.iter().filter(|r| r.len() > kfull && r.len() <= kmax) {
        for pk in [false, true] {
            out.push(TableSpec { pk, rows: rows.clone(), fixed: false, ad: None, sign: 0 });
        }
    }
    out
}

fn values_sql(rows: &[Row]) -> String {
    rows.iter().map(|r| format!("({})", r.iter().map(sqlh::lit).collect::<Vec<_>>().join(", "))).collect::<Vec<_>>().join(", ")
}

fn setup(base: &std::path::Path, name: &str, spec: &TableSpec) -> Result<(TestDb, mq::Database), String> {
    let t = TestDb::create(base, name)?;
    let trows = spec.model_rows();
    let mut stmts = vec![];
    let second = if spec.ad.is_some() { "d INT" } else { "b REAL" };
    if spec.pk {
        stmts.push(format!("CREATE TABLE t (id INT PRIMARY KEY, a INT, {second}, c TEXT)"));
    } else {
        stmts.push(format!("CREATE TABLE t (a INT, {second}, c TEXT)"));
    }
    if !trows.is_empty() {
        stmts.push(format!("INSERT INTO t VALUES {}", values_sql(&trows)));
    }
    for s in &stmts {
        let r = t.exec(s);
        if !r.ok() {
            return Err(format!("setup `{s}`: {}", r.show()));
        }
    }
    let mdb = mq::Database::new().with("t", Table::new(&spec.columns(), trows.clone()));
    match t.exec("SELECT * FROM t") {
        Res::Rows(r) if refmodel::val::bag(&r) == refmodel::val::bag(&trows) => {}
        o => return Err(format!("setup read-back of t: {}", o.show())),
    }
    Ok((t, mdb))
}

// ---------------------------------------------------------------------------
// query space
// ---------------------------------------------------------------------------

#[derive(Clone, Debug)]
struct Agg {
    /// unique name, also the SQL-ish label, e.g. "SUM(a+1)"
    name: String,
    func: AggFunc,
    /// None = COUNT(*)
    arg: Option<Expr>,
    /// star | int | real | text | int+1 | real+1
    kind: &'static str,
}
impl Agg {
    fn expr(&self) -> Expr {
        match &self.arg {
            None => ex::count_star(),
            Some(a) => ex::agg(self.func, a.clone()),
        }
    }
    fn sig(&self) -> String {
        format!("{}({})", self.func.sql(), self.kind)
    }
    fn is_text(&self) -> bool {
        self.kind == "text" && self.func != AggFunc::Count
    }
}

fn args() -> Vec<(&'static str, &'static str, Expr)> {
    vec![
        ("a", "int", ex::col("a")),
        ("b", "real", ex::col("b")),
        ("a+1", "int+1", ex::add(ex::col("a"), ex::int(1))),
        ("b+1", "real+1", ex::add(ex::col("b"), ex::int(1))),
        ("c", "text", ex::col("c")),
    ]
}

fn all_aggs() -> Vec<Agg> {
    let mut out = vec![Agg { name: "COUNT(*)".into(), func: AggFunc::Count, arg: None, kind: "star" }];
    for f in [AggFunc::Count, AggFunc::Sum, AggFunc::Avg, AggFunc::Min, AggFunc::Max] {
        for (an, kind, e) in args() {
            if kind == "text" && matches!(f, AggFunc::Sum | AggFunc::Avg) {
                continue;
            }
            out.push(Agg { name: format!("{}({an})", f.sql()), func: f, arg: Some(e), kind });
        }
    }
    out
}

/// select lists: every single aggregate, then two multi-aggregate lists
fn agg_lists() -> Vec<(String, Vec<Agg>)> {
    let all = all_aggs();
    let by = |n: &str| all.iter().find(|a| a.name == n).unwrap().clone();
    let mut out: Vec<(String, Vec<Agg>)> = all.iter().map(|a| (a.name.clone(), vec![a.clone()])).collect();
    out.push(("multi6".into(), vec![by("COUNT(*)"), by("COUNT(a)"), by("SUM(a)"), by("AVG(b)"), by("MIN(a)"), by("MAX(b)")]));
    out.push(("multi-sum".into(), vec![by("SUM(a)"), by("SUM(b)"), by("SUM(a+1)"), by("AVG(a)")]));
    out
}

#[derive(Clone, Debug)]
struct Grouping {
    name: &'static str,
    sig: &'static str,
    keys: Vec<Expr>,
}
fn groupings() -> Vec<Grouping> {
    let a1 = || ex::add(ex::col("a"), ex::int(1));
    vec![
        Grouping { name: "none", sig: "none", keys: vec![] },
        Grouping { name: "a", sig: "1key", keys: vec![ex::col("a")] },
        Grouping { name: "c", sig: "1key", keys: vec![ex::col("c")] },
        Grouping { name: "a+1", sig: "expr-key", keys: vec![a1()] },
        Grouping { name: "a,c", sig: "2keys", keys: vec![ex::col("a"), ex::col("c")] },
        Grouping { name: "c,a+1", sig: "expr-key", keys: vec![ex::col("c"), a1()] },
    ]
}

/// family "ad": select lists and groupings (2 and 3 keys of which two have the same type)
fn agg_lists_ad() -> Vec<(String, Vec<Agg>)> {
    let mk = |name: &str, f: AggFunc, col: Option<&str>| Agg { name: name.into(), func: f, arg: col.map(ex::col), kind: if col.is_none() { "star" } else { "int" } };
    let single = vec![
        mk("COUNT(*)", AggFunc::Count, None),
        mk("COUNT(a)", AggFunc::Count, Some("a")),
        mk("COUNT(d)", AggFunc::Count, Some("d")),
        mk("SUM(a)", AggFunc::Sum, Some("a")),
        mk("SUM(d)", AggFunc::Sum, Some("d")),
        mk("MIN(a)", AggFunc::Min, Some("a")),
        mk("MIN(d)", AggFunc::Min, Some("d")),
        mk("MAX(a)", AggFunc::Max, Some("a")),
        mk("MAX(d)", AggFunc::Max, Some("d")),
    ];
    let mut out: Vec<(String, Vec<Agg>)> = single.iter().map(|a| (format!("ad:{}", a.name), vec![a.clone()])).collect();
    out.push(("ad:multi".into(), vec![single[0].clone(), single[4].clone(), single[5].clone(), single[8].clone()]));
    out
}
fn groupings_ad(three_keys: bool) -> Vec<Grouping> {
    let mut g = vec![
        Grouping { name: "a,d", sig: "2keys-same-type", keys: vec![ex::col("a"), ex::col("d")] },
        Grouping { name: "d,a", sig: "2keys-same-type", keys: vec![ex::col("d"), ex::col("a")] },
    ];
    if three_keys {
        g.push(Grouping { name: "a,d,c", sig: "3keys", keys: vec![ex::col("a"), ex::col("d"), ex::col("c")] });
        g.push(Grouping { name: "c,d,a", sig: "3keys", keys: vec![ex::col("c"), ex::col("d"), ex::col("a")] });
    }
    g
}
fn wheres_ad() -> Vec<(&'static str, Option<Expr>)> {
    vec![("none", None)]
}
fn havings_ad(_first: &Agg) -> Vec<(&'static str, Option<Expr>)> {
    vec![("none", None), ("count>1", Some(ex::gt(ex::count_star(), ex::int(1))))]
}

fn wheres() -> Vec<(&'static str, Option<Expr>)> {
    vec![("none", None), ("a>1", Some(ex::gt(ex::col("a"), ex::int(1)))), ("c='a'", Some(ex::eq(ex::col("c"), ex::text("a")))), ("a<0", Some(ex::lt(ex::col("a"), ex::int(0))))]
}

fn havings(first: &Agg) -> Vec<(&'static str, Option<Expr>)> {
    let one = if first.is_text() { ex::text("a") } else { ex::int(1) };
    vec![("none", None), ("agg>k", Some(ex::gt(first.expr(), one.clone()))), ("agg=k", Some(ex::eq(first.expr(), one))), ("count>1", Some(ex::gt(ex::count_star(), ex::int(1))))]
}

#[derive(Clone)]
struct QDesc {
    list: String,
    aggs: Vec<Agg>,
    grouping: Grouping,
    where_name: &'static str,
    where_: Option<Expr>,
    having_name: &'static str,
    having: Option<Expr>,
}
impl QDesc {
    fn query(&self) -> Query {
        let mut items: Vec<SelectItem> = self.grouping.keys.iter().cloned().map(SelectItem::expr).collect();
        items.extend(self.aggs.iter().map(|a| SelectItem::expr(a.expr())));
        let mut q = Query::select(items, mq::From::table("t"));
        if let Some(w) = &self.where_ {
            q = q.where_(w.clone());
        }
        if !self.grouping.keys.is_empty() {
            q = q.group_by(self.grouping.keys.clone());
        }
        if let Some(h) = &self.having {
            q = q.having(h.clone());
        }
        q
    }
    /// signature component: HAVING over an aggregate of the select list, or over one that is not selected
    fn having_sig(&self) -> &'static str {
        match self.having_name {
            "none" => "nohaving",
            "count>1" if !self.aggs.iter().any(|a| a.arg.is_none()) => "having-unselected",
            _ => "having",
        }
    }
    fn json(&self, spec: &TableSpec, sql: &str) -> Value {
        json!({"family": spec.family(), "variant": spec.variant(), "sign": spec.sign, "rows": spec.rows_json(), "aggs": self.list, "group": self.grouping.name, "where": self.where_name, "having": self.having_name, "sql": sql})
    }
    fn from_json(case: &Value) -> Option<QDesc> {
        let (list, aggs) = agg_lists().into_iter().chain(agg_lists_ad()).find(|(n, _)| Some(n.as_str()) == case["aggs"].as_str())?;
        let grouping = groupings().into_iter().chain(groupings_ad(true)).find(|g| Some(g.name) == case["group"].as_str())?;
        let (where_name, where_) = wheres().into_iter().find(|(n, _)| Some(*n) == case["where"].as_str())?;
        let (having_name, having) = havings(&aggs[0]).into_iter().find(|(n, _)| Some(*n) == case["having"].as_str())?;
        Some(QDesc { list, aggs, grouping, where_name, where_, having_name, having })
    }
}

// ---------------------------------------------------------------------------
// oracle
// ---------------------------------------------------------------------------

/// Class of the argument values of `agg` over the rows of `t` that pass `where_` and, when
/// `group` is given (grouping expressions + the blamed group's key), belong to that group.
fn input_class(spec: &TableSpec, agg: &Agg, where_: &Option<Expr>, group: Option<(&[Expr], &[V])>) -> &'static str {
    let schema = Schema::of_table("t", &spec.columns());
    let mut vals = vec![];
    for r in spec.model_rows() {
        let mut keep = match where_ {
            None => true,
            Some(w) => w.eval_truth(&r, &schema) == Ok(Some(true)),
        };
        if let Some((gexprs, key)) = group {
            for (g, k) in gexprs.iter().zip(key.iter()) {
                let v = g.eval(&r, &schema).unwrap_or(V::Null);
                if ex::total_cmp(&v, k) != std::cmp::Ordering::Equal {
                    keep = false;
                }
            }
        }
        if keep {
            vals.push(match &agg.arg {
                None => {
                    // COUNT(*): NULL-ness of the whole row
                    let nulls = r.iter().filter(|v| v.is_null()).count();
                    if nulls == r.len() {
                        V::Null
                    } else if nulls > 0 {
                        V::Other("partly-null".into())
                    } else {
                        V::Int(0)
                    }
                }
                Some(a) => a.eval(&r, &schema).unwrap_or(V::Null),
            });
        }
    }
    if vals.is_empty() {
        "empty"
    } else if vals.iter().all(|v| v.is_null()) {
        "all-null"
    } else if vals.iter().any(|v| v.is_null() || matches!(v, V::Other(_))) {
        "some-null"
    } else {
        "no-null"
    }
}

fn vclass(v: &V) -> &'static str {
    match v {
        V::Null => "null",
        V::Int(0) => "zero",
        V::Float(f) if *f == 0.0 => "zero",
        V::Int(_) | V::Float(_) => "num",
        V::Text(_) => "text",
        V::Bool(_) => "bool",
        V::Blob(_) => "blob",
        V::Other(_) => "other",
    }
}

/// (index of the blamed aggregate in the select list, "<expected class>><observed class>")
fn classify(nkeys: usize, exp: &[Row], obs: &[Row]) -> (usize, String, Option<Row>) {
    let width = exp.first().map(|r| r.len());
    if let Some(w) = width {
        if obs.iter().any(|r| r.len() != w) {
            return (0, "groups>wrong-columns".into(), None);
        }
    }
    if obs.len() < exp.len() {
        return (0, "groups>fewer-groups".into(), None);
    }
    if obs.len() > exp.len() {
        return (0, "groups>more-groups".into(), None);
    }
    let key = |r: &Row| -> Row { r[..nkeys.min(r.len())].to_vec() };
    let ek: Vec<Row> = exp.iter().map(key).collect();
    let ok: Vec<Row> = obs.iter().map(key).collect();
    if !ex::bags_loosely_equal(&ek, &ok) {
        return (0, "groups>wrong-keys".into(), None);
    }
    // same key bag (group keys are distinct in the expected result): compare cell by cell
    for e in exp {
        let Some(o) = obs.iter().find(|o| ex::rows_loosely_equal(&key(o), &key(e))) else { continue };
        for i in nkeys..e.len() {
            if !ex::loosely_equal(&e[i], &o[i]) {
                let (ec, oc) = (vclass(&e[i]), vclass(&o[i]));
                let oc = if ec == oc {
                    match (e[i].as_f64(), o[i].as_f64()) {
                        (Some(x), Some(y)) if y > x => "larger",
                        (Some(_), Some(_)) => "smaller",
                        _ => "other-text",
                    }
                } else {
                    oc
                };
                return (i - nkeys, format!("{ec}>{oc}"), Some(key(e)));
            }
        }
    }
    (0, "groups>duplicate-keys".into(), None)
}

fn plan_ops(plan: &str) -> Vec<String> {
    plan.lines().filter_map(|l| l.trim().strip_prefix("-> ")).map(|l| l.split(|c: char| !c.is_alphanumeric()).next().unwrap_or("").to_string()).collect()
}

#[derive(PartialEq)]
enum Verdict {
    Pass,
    Fail,
    Panicked,
    Skipped,
}

fn check_one(t: &TestDb, mdb: &mq::Database, spec: &TableSpec, qd: &QDesc, rep: &mut Reporter, dry: bool) -> Verdict {
    let q = qd.query();
    let sql = q.to_sql();
    let exp = match q.eval(mdb) {
        Ok(r) => r,
        Err(e) => {
            if !dry {
                rep.count("model_error_skips", 1);
                rep.note(&format!("model error (query skipped): {e} [{} / {} / {}]", qd.list, qd.grouping.name, qd.having_name));
            }
            return Verdict::Skipped;
        }
    };
    let res = t.exec(&sql);
    let nkeys = qd.grouping.keys.len();
    let fail: Option<(usize, String, Option<Row>)> = match &res {
        Res::Rows(rows) => {
            if ex::bags_loosely_equal(rows, &exp.rows) {
                None
            } else {
                Some(classify(nkeys, &exp.rows, rows))
            }
        }
        Res::Panic(_) => Some((0, "rows>panic".into(), None)),
        _ => Some((0, "rows>error".into(), None)),
    };
    let hv = qd.having_sig();
    match fail {
        None => {
            if !dry {
                // vacuity evidence: MIN/MAX answers on either side of zero (an extremum that starts from 0
                // instead of from the first value shows only when all inputs of a group lie on one side)
                for (i, a) in qd.aggs.iter().enumerate() {
                    if matches!(a.func, AggFunc::Min | AggFunc::Max) && (a.kind == "int" || a.kind == "real") {
                        for r in &exp.rows {
                            match r.get(nkeys + i).and_then(|v| v.as_f64()) {
                                Some(x) if x < 0.0 => rep.count(&format!("{}_answers_negative", a.sig()), 1),
                                Some(x) if x > 0.0 => rep.count(&format!("{}_answers_positive", a.sig()), 1),
                                _ => {}
                            }
                        }
                    }
                }
                rep.outcome(&format!("pass/{}/{}/{}/{}", qd.aggs[0].func.sql(), qd.grouping.sig, hv, if exp.rows.is_empty() { "no-rows" } else { "rows" }));
            }
            Verdict::Pass
        }
        Some((bi, cls, key)) => {
            let panicked = cls == "rows>panic";
            if dry {
                return if panicked { Verdict::Panicked } else { Verdict::Fail };
            }
            let blamed = &qd.aggs[bi.min(qd.aggs.len() - 1)];
            let ic = input_class(spec, blamed, &qd.where_, key.as_ref().map(|k| (qd.grouping.keys.as_slice(), k.as_slice())));
            let sig = format!("{PROP}/{}/{}/{}/{}/{}", blamed.sig(), qd.grouping.sig, ic, hv, cls);
            rep.outcome(&format!("fail/{}/{}/{}", blamed.sig(), qd.grouping.sig, cls));
            rep.count(&format!("fail_{}", cls.replace('>', "_to_")), 1);
            rep.violation(PROP, "refmodel-eval", &sig, || qd.json(spec, &sql), &format!("bag {}", refmodel::val::show_rows(&refmodel::val::bag(&exp.rows))), &res.show());
            if panicked {
                Verdict::Panicked
            } else {
                Verdict::Fail
            }
        }
    }
}

/// COUNT(*) through the header fast path and through a scan after each single-row DELETE.
fn check_count_after_deletes(ctx: &Ctx, rep: &mut Reporter, spec: &TableSpec, name: &str, upto: Option<usize>) {
    let (t, _) = match setup(&ctx.scratch, name, spec) {
        Ok(x) => x,
        Err(e) => {
            rep.count("setup_failures", 1);
            rep.note(&format!("setup failed (delete scenario skipped): {}", vcore::util::clip(&e, 200)));
            return;
        }
    };
    let n = spec.rows.len();
    let all_null = spec.rows.iter().all(|(a, c)| a.is_none() && c.is_none());
    let no_null = spec.rows.iter().all(|(a, c)| a.is_some() && c.is_some() && b_of(*a, c.as_deref()).is_some());
    let ic = if all_null { "all-null+deleted" } else if no_null { "no-null+deleted" } else { "some-null+deleted" };
    let last = upto.unwrap_or(n);
    for k in 1..=last.min(n) {
        let del = format!("DELETE FROM t WHERE id = {k}");
        match t.exec(&del) {
            Res::Affected(1, _) => {}
            o => {
                rep.count("delete_scenario_delete_failed", 1);
                rep.note(&format!("DELETE in the COUNT-after-DELETE scenario did not affect 1 row: {}", vcore::util::clip(&o.show(), 120)));
                return;
            }
        }
        if upto.is_some() && k < last {
            continue;
        }
        let want = (n - k) as i64;
        for (label, sql) in [("fast", "SELECT COUNT(*) FROM t"), ("scan", "SELECT COUNT(*) FROM t WHERE ((id IS NULL) OR (id IS NOT NULL))")] {
            let res = t.exec(sql);
            rep.bulk(1, 1);
            rep.count("count_after_delete_checks", 1);
            let ok = matches!(&res, Res::Rows(r) if r.len() == 1 && r[0].len() == 1 && ex::loosely_equal(&r[0][0], &V::Int(want)));
            if ok {
                rep.outcome(&format!("pass/count-after-delete/{label}"));
                continue;
            }
            let cls = match &res {
                Res::Rows(r) if r.len() == 1 && r[0].len() == 1 => {
                    let (ec, oc) = (vclass(&V::Int(want)), vclass(&r[0][0]));
                    let oc = if ec == oc {
                        match r[0][0].as_f64() {
                            Some(y) if y > want as f64 => "larger",
                            _ => "smaller",
                        }
                    } else {
                        oc
                    };
                    format!("{ec}>{oc}")
                }
                Res::Rows(_) => "groups>wrong-shape".into(),
                Res::Panic(_) => "rows>panic".into(),
                _ => "rows>error".into(),
            };
            // COUNT(star-fast) = header fast path, COUNT(star-scan) = same count through a filtered scan
            let sig = format!("{PROP}/COUNT(star-{label})/none/{ic}/nohaving/{cls}");
            rep.violation(PROP, "count-after-delete", &sig, || json!({"variant": "pk", "rows": spec.rows_json(), "scenario": "count-after-delete", "deleted": k}), &format!("[({want})]"), &res.show());
        }
    }
}

/// Constructs that are known-broken on the current tree (findings.d/C16.json); the deep pass
/// (larger tables) leaves them out, the full pass runs them.
fn known_broken(qd: &QDesc) -> Option<u8> {
    if qd.grouping.sig == "expr-key" {
        return Some(6);
    }
    if qd.aggs.iter().any(|a| a.kind.ends_with("+1")) {
        return Some(3);
    }
    if qd.having_sig() == "having-unselected" {
        return Some(4);
    }
    if qd.aggs.iter().any(|a| a.is_text()) {
        return Some(5);
    }
    if qd.aggs.iter().any(|a| a.func == AggFunc::Count && a.arg.is_some()) {
        return Some(2);
    }
    None
}

/// All queries of the selected aggregate lists on one table, on one fresh database.
fn run_table(ctx: &Ctx, rep: &mut Reporter, spec: &TableSpec, ti: usize, lists: &[(String, Vec<Agg>)], explain: bool, deep: bool) {
    let ad = spec.ad.is_some();
    let name = format!("{}{ti}", if ad { "ad" } else { "t" });
    let (mut t, mdb) = match setup(&ctx.scratch, &name, spec) {
        Ok(x) => x,
        Err(e) => {
            rep.count("setup_failures", 1);
            rep.note(&format!("setup failed (table skipped): {}", vcore::util::clip(&e, 200)));
            return;
        }
    };
    let mut dirty = false;
    let mut n = 0u64;
    for (list, aggs) in lists {
        for grouping in if ad { groupings_ad(spec.fixed) } else { groupings() } {
            for (where_name, where_) in if ad { wheres_ad() } else { wheres() } {
                for (having_name, having) in if ad { havings_ad(&aggs[0]) } else { havings(&aggs[0]) } {
                    if !ad && aggs[0].arg.is_none() && aggs.len() == 1 && having_name == "count>1" {
                        continue; // same SQL as agg>k
                    }
                    let qd = QDesc { list: list.clone(), aggs: aggs.clone(), grouping: grouping.clone(), where_name, where_: where_.clone(), having_name, having };
                    if deep {
                        if let Some(k) = known_broken(&qd) {
                            rep.pruned(1);
                            rep.count(&format!("deep_pass_left_out_KF-C16-{k:02}"), 1);
                            continue;
                        }
                    }
                    if dirty && check_one(&t, &mdb, spec, &qd, rep, true) == Verdict::Fail {
                        rep.count("rechecked_on_fresh_db_after_panic", 1);
                        drop(t);
                        match setup(&ctx.scratch, &name, spec) {
                            Ok(x) => t = x.0,
                            Err(_) => {
                                rep.count("setup_failures", 1);
                                return;
                            }
                        }
                        dirty = false;
                    }
                    let v = check_one(&t, &mdb, spec, &qd, rep, false);
                    if v == Verdict::Panicked {
                        dirty = true;
                    }
                    if v != Verdict::Skipped {
                        n += 1;
                        if qd.having.is_some() {
                            rep.count("queries_having", 1);
                        }
                        if qd.where_.is_some() {
                            rep.count("queries_where", 1);
                        }
                        rep.count(&format!("queries_grouping_{}", qd.grouping.sig), 1);
                        if !deep && known_broken(&qd).is_some() {
                            rep.count(if v == Verdict::Pass { "full_pass_known_broken_construct_passed" } else { "full_pass_known_broken_construct_failed" }, 1);
                        }
                    }
                    if explain {
                        let sql = qd.query().to_sql();
                        match sqlh::explain(t.db(), &sql) {
                            Some(p) => {
                                let ops = plan_ops(&p);
                                for o in &ops {
                                    rep.count(&format!("plan_op_{o}"), 1);
                                }
                                rep.outcome(&format!("plan:{}", ops.join(">")));
                                // `is_simple_count_star`: one COUNT aggregate directly over an unfiltered scan
                                if ops == ["Project", "HashAggregate", "TableScan"] && aggs.len() == 1 && aggs[0].func == AggFunc::Count && qd.grouping.keys.is_empty() && qd.where_.is_none() && qd.having.is_none() {
                                    rep.count(if aggs[0].arg.is_none() { "count_header_fast_path_shape_COUNT(*)" } else { "count_header_fast_path_shape_COUNT(x)" }, 1);
                                }
                            }
                            None => rep.count("explain_failed", 1),
                        }
                    }
                }
            }
        }
        if ctx.expired() {
            rep.capped("deadline inside a table");
            break;
        }
    }
    rep.bulk(n, if spec.nrows() == 0 { 0 } else { n });
    rep.count("queries", n);
    rep.count(if ad { "queries_same_type_keys_family" } else if spec.sign != 0 { "queries_sign_variants" } else if deep { "queries_deep_pass" } else { "queries_full_pass" }, n);
}

struct C16;

impl Check for C16 {
    fn specs(&self) -> Vec<Spec> {
        let mut s = Spec::new(
            PROP,
            "exploration",
            "a case is one aggregate query on one table.  Tables: every multiset of <=4 (quick) / <=6 (thorough) rows over (a,c) in {NULL,1,2}x{NULL,'a','b'} with the REAL column b a fixed function of (a,c) (values NULL/0.5/1.5/2.5), as t(a INT,b REAL,c TEXT) and with an INT PRIMARY KEY, incl. the empty and all-NULL tables, plus five fixed 8-row tables.  Queries: SELECT [g,] agg FROM t [WHERE p] [GROUP BY g[,h]] [HAVING agg cmp k]: 23 single aggregates (COUNT(*), COUNT/MIN/MAX over a,b,a+1,b+1,c, SUM/AVG over a,b,a+1,b+1) + 2 multi-aggregate lists x 6 groupings (none,a,c,a+1,(a,c),(c,a+1)) x 4 WHERE (none, a>1, c='a', a<0) x 4 HAVING (none, agg>1, agg=1, COUNT(*)>1) on tables of <=3 (quick) / <=4 (thorough) rows and the fixed tables (full pass); on the larger tables (deep pass) the same with the constructs of the open findings KF-C16-02..06 left out (counted as pruned).  Sign variants: the enumerated tables of <=2 (quick) / <=3 (thorough) rows and the fixed tables with the numeric columns a,b negated (all values negative) and mixed-sign, on the deep-pass query space.  A second table family t(a INT,d INT,c TEXT) (all multisets of <=3 / <=4 rows over (a,d) in {NULL,1,2}^2 + one fixed 10-row table, x2 variants) runs GROUP BY a,d | d,a (fixed table: also a,d,c | c,d,a) x 9 single aggregates + 1 multi list x HAVING {none, COUNT(*)>1}: grouping columns of the same type with overlapping domains.  On every pk table of the full pass: COUNT(*) via the header fast path and via a scan after each of n single-row DELETEs.  Expected rows = refmodel Query::eval of the same Query value that rendered the SQL; compared as bags.  Distinct = distinct (table, SQL text) by construction; non-trivial = table not empty.",
        );
        s.assumptions = &[
            "oracle = refmodel::sql (cross-checked against SQLite): aggregates ignore NULL except COUNT(*); empty or all-NULL input gives COUNT 0 and NULL for SUM/AVG/MIN/MAX; one group per distinct key with NULL keys forming one group; an aggregate query without GROUP BY has exactly one row; HAVING keeps groups whose condition is TRUE",
            "tolerances: Int(n) ~ Float(n.0), floats within 1e-9 relative, row order free; nothing else",
            "every database is fresh; a failure observed after a panic on the same handle is re-checked on a fresh database before it is reported",
            "EXPLAIN plan-operator counters are sampled (every 16th table + the fixed tables); the COUNT header fast path is recognised by its plan shape + query shape (is_simple_count_star has no other observable)", "work is split by table (one fresh database per table), the fixed tables by (table, aggregate list)",
        ];
        s.cap_quick_s = 100;
        s.cap_thorough_s = 1700;
        vec![s]
    }

    fn run(&self, ctx: &Ctx, rep: &mut Reporter) {
        // recorded first so that a capped run still carries a sample
        rep.sample(|| json!({"variant": "plain", "rows": [[2, "a"], [null, "b"], [1, null]], "aggs": "SUM(a)", "group": "c", "where": "none", "having": "agg>k", "sql": "SELECT c, SUM(a) FROM t GROUP BY c HAVING (SUM(a) > 1)"}));
        let kmax = ctx.opt("kmax").and_then(|s| s.parse().ok()).unwrap_or(ctx.tier.pick(4usize, 6usize));
        let kfull = ctx.opt("kfull").and_then(|s| s.parse().ok()).unwrap_or(ctx.tier.pick(3usize, 4usize));
        rep.bound("max_rows_enumerated_tables", json!(kmax));
        rep.bound("full_alphabet_max_rows", json!(kfull));
        for c in ["queries", "queries_having", "queries_where", "plan_op_HashAggregate", "count_header_fast_path_shape_COUNT(*)", "count_after_delete_checks"] {
            rep.expect_nonzero(c);
        }
        // family "ad" first (cheap): two grouping columns of the same type with overlapping domains
        let kad = ctx.opt("kad").and_then(|s| s.parse().ok()).unwrap_or(ctx.tier.pick(3usize, 4usize));
        rep.bound("same_type_keys_family_max_rows", json!(kad));
        rep.expect_nonzero("queries_same_type_keys_family");
        let lists_ad = agg_lists_ad();
        for (ti, spec) in ad_tables(kad).iter().enumerate() {
            if ctx.mine(ti as u64) {
                run_table(ctx, rep, spec, ti, &lists_ad, spec.fixed, false);
                rep.count("tables_same_type_keys_family", 1);
            }
            if ctx.expired() {
                rep.capped("deadline in the same-type-keys family");
                return;
            }
        }
        let ksign = ctx.opt("ksign").and_then(|s| s.parse().ok()).unwrap_or(ctx.tier.pick(2usize, 3usize));
        rep.bound("sign_variant_tables_max_rows", json!(ksign));
        for f in ["MIN", "MAX"] {
            for k in ["int", "real"] {
                for side in ["negative", "positive"] {
                    rep.expect_nonzero(&format!("{f}({k})_answers_{side}"));
                }
            }
        }
        rep.expect_nonzero("tables_sign_variant");
        let tables = all_tables(kmax, kfull, ksign);
        rep.bound("tables", json!(tables.len()));
        let lists = agg_lists();
        // work is split by table (one database per table); a fixed 8-row table is split by list
        let mut slot = 0u64;
        for (ti, spec) in tables.iter().enumerate() {
            // the sign variants run like the deep pass: without the constructs of the open findings
            let deep = (!spec.fixed && spec.rows.len() > kfull) || spec.sign != 0;
            let mine: Vec<(String, Vec<Agg>)> = if spec.fixed {
                lists
                    .iter()
                    .filter(|_| {
                        slot += 1;
                        ctx.mine(slot)
                    })
                    .cloned()
                    .collect()
            } else {
                slot += 1;
                if ctx.mine(slot) {
                    lists.clone()
                } else {
                    vec![]
                }
            };
            if !mine.is_empty() {
                let first = mine[0].0 == "COUNT(*)";
                let explain = spec.fixed || (ti / 2) % 16 == 3;
                run_table(ctx, rep, spec, ti, &mine, explain, deep);
                if first {
                    // (a fixed table is shared by several workers: count it once)
                    rep.count("tables", 1);
                    if spec.sign != 0 {
                        rep.count("tables_sign_variant", 1);
                    }
                    if spec.rows.is_empty() {
                        rep.count("tables_empty", 1);
                    } else if spec.rows.iter().all(|(a, c)| a.is_none() && c.is_none()) {
                        rep.count("tables_all_null", 1);
                    }
                    if deep && spec.sign == 0 {
                        rep.count("tables_deep_pass", 1);
                    }
                }
            }
            slot += 1;
            if spec.pk && !deep && !spec.rows.is_empty() && ctx.mine(slot) {
                rep.count("tables_with_delete_scenario", 1);
                check_count_after_deletes(ctx, rep, spec, &format!("d{ti}"), None);
            }
            if ctx.expired() {
                rep.capped(&format!("deadline at table #{ti} ({} rows{}): every table with fewer rows was covered", spec.rows.len(), if spec.fixed { ", fixed" } else { "" }));
                return;
            }
        }
    }

    fn replay(&self, ctx: &Ctx, case: &Value, rep: &mut Reporter) {
        let spec = TableSpec::from_json(case);
        if case["scenario"].as_str() == Some("count-after-delete") {
            check_count_after_deletes(ctx, rep, &spec, "replay", Some(case["deleted"].as_u64().unwrap_or(1) as usize));
            return;
        }
        let Some(qd) = QDesc::from_json(case) else {
            rep.note("replay: cannot parse the query description");
            return;
        };
        let (t, mdb) = match setup(&ctx.scratch, "replay", &spec) {
            Ok(x) => x,
            Err(e) => {
                rep.note(&format!("replay: setup failed: {e}"));
                return;
            }
        };
        check_one(&t, &mdb, &spec, &qd, rep, false);
        rep.bulk(1, 1);
    }
}

fn main() {
    vcore::main(&C16)
}
