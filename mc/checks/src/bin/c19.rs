//! C19 — equivalent query formulations return identical results (QRY engine, metamorphic:
//! TurDB against TurDB, no reference model).
//!
//! For every predicate p of the C14 grammar (refmodel enumerators; here only used as a generator of
//! SQL text) a base query is compared with semantically equivalent rewrites of itself.  Tables:
//!   t(id PK, a INT, b REAL, c TEXT)                      the 125-row cross product of C14
//!   u(uid PK, ua INT, uc TEXT)                            5 rows, join partner
//!   d(id PK, a, b, c, e VECTOR(2), j JSONB)               the same 125 rows plus a vector and a JSONB column
//! Rewrite kinds (signature component 2):
//!   partition-not        bag(WHERE p) + bag(WHERE NOT p) + bag(WHERE (p) IS NULL) = whole table
//!   partition-eqfalse    the same with `(p) = FALSE` instead of `NOT p`                      (NOT-free)
//!   split-isnull/-pkrange  bag(WHERE p AND s) + bag(WHERE p AND s') = bag(WHERE p) for a two-valued split s
//!   commute-top/-all     AND/OR operands exchanged (at the root / at every node)
//!   and-true and-1eq1 or-false true-and    neutral conjunct / disjunct added
//!   and3-<place>[k] / or3-<place>[k]      for an AND (OR) root l,r: an always-true conjunct k in {1=1, TRUE, 'x'='x', 1<>2}
//!                        (always-false disjunct {1=0, FALSE, 'x'='y', 1<>1}) placed mid / first / last / left-nested / right-nested
//!   join-swapped join-on-commuted comma-vs-join comma-swapped join-select-permuted   (x join key kind)
//!   select-permuted      select list permuted (compared up to the column permutation)
//!   vector-where-vs-select  `WHERE (e <-> q) < r AND p` vs distances computed in the select list, filtered by the harness
//!   vector-topk          `ORDER BY e <-> q LIMIT k` vs the first k of the full ordered list (ties by distance)
//!   json-where-vs-select `WHERE (j->>'s') = 'x' AND p` vs the accessor in the select list, filtered by the harness
//!   window-*             COUNT(*) OVER () / ROW_NUMBER() vs the plain query, permuted select list, SUM OVER (PARTITION BY) vs GROUP BY
//! Any difference is a violation: C19/<rewrite kind>/<predicate shape as in C14>/<missing-rows|extra-rows|
//! different-rows|error-one-side|panic>.  Defects that are the same on both sides cancel by construction.
use checks::sqlh::{self, Res, TestDb};
use refmodel::sql::expr::*;
use refmodel::sql::{Schema, Ty};
use refmodel::val::{Row, V};
use std::collections::{BTreeMap, BTreeSet};
use vcore::{json, Check, Ctx, Reporter, Spec, Value};

const NROWS: usize = 125;

// ---------------------------------------------------------------------------
// shapes (same vocabulary as C14)
// ---------------------------------------------------------------------------
fn col_kind(name: &str) -> &'static str {
    match name {
        "id" => "id_pkcol",
        "a" => "int_col",
        "b" => "real_col",
        "c" => "text_col",
        "e" => "vector_col",
        "j" => "jsonb_col",
        _ => "any_col",
    }
}
fn is_pred(e: &Expr) -> bool {
    matches!(e, Expr::Cmp(..) | Expr::And(..) | Expr::Or(..) | Expr::Not(..) | Expr::IsNull(..) | Expr::IsNotNull(..) | Expr::In(..) | Expr::Between(..) | Expr::Like(..))
}
fn kind(e: &Expr) -> String {
    match e {
        Expr::Lit(V::Null) => "NULL".into(),
        Expr::Lit(V::Int(_)) => "int_const".into(),
        Expr::Lit(V::Float(_)) => "real_const".into(),
        Expr::Lit(V::Text(_)) => "text_const".into(),
        Expr::Lit(V::Bool(_)) => "bool_const".into(),
        Expr::Lit(V::Other(s)) => {
            if s.contains("<->") || s.contains("<=>") {
                "vdist_expr".into()
            } else if s.contains("->") {
                "json_expr".into()
            } else {
                "raw_expr".into()
            }
        }
        Expr::Lit(_) => "raw_expr".into(),
        Expr::Col(c) => col_kind(&c.name).to_string(),
        o => brief(o).to_string(),
    }
}
fn kind_short(e: &Expr) -> &'static str {
    match e {
        Expr::Lit(V::Null) => "NULL",
        Expr::Lit(_) => "const",
        Expr::Col(_) => "col",
        _ => "expr",
    }
}
fn op_name(op: CmpOp) -> &'static str {
    match op {
        CmpOp::Eq => "eq",
        CmpOp::Ne => "ne",
        CmpOp::Lt => "lt",
        CmpOp::Le => "le",
        CmpOp::Gt => "gt",
        CmpOp::Ge => "ge",
    }
}
fn brief(e: &Expr) -> &'static str {
    match e {
        Expr::Cmp(..) => "cmp",
        Expr::And(..) => "AND",
        Expr::Or(..) => "OR",
        Expr::Not(..) => "NOT",
        Expr::IsNull(..) => "isnull",
        Expr::IsNotNull(..) => "isnotnull",
        Expr::In(_, _, false) => "in",
        Expr::In(_, _, true) => "notin",
        Expr::Between(_, _, _, false) => "between",
        Expr::Between(_, _, _, true) => "notbetween",
        Expr::Like(_, _, false) => "like",
        Expr::Like(_, _, true) => "notlike",
        Expr::Lit(_) => "lit",
        Expr::Col(_) => "col",
        _ => "other",
    }
}
/// operand of a connective: operator family, plus `@json` / `@vec` when it reads the JSONB / VECTOR column
/// (those accessors can produce "no value" inside TurDB's evaluator, a different path from a NULL column)
fn operand(e: &Expr) -> String {
    fn marks(e: &Expr, json: &mut bool, vec: &mut bool) {
        match e {
            Expr::Lit(V::Other(s)) => {
                if s.contains("<->") || s.contains("<=>") {
                    *vec = true;
                } else if s.contains("->") {
                    *json = true;
                }
            }
            Expr::Col(c) => {
                if c.name == "j" {
                    *json = true;
                } else if c.name == "e" {
                    *vec = true;
                }
            }
            o => {
                for c in o.children() {
                    marks(c, json, vec);
                }
            }
        }
    }
    let (mut j, mut v) = (false, false);
    marks(e, &mut j, &mut v);
    format!("{}{}{}", brief(e), if j { "@json" } else { "" }, if v { "@vec" } else { "" })
}
fn is_atom(e: &Expr) -> bool {
    match e {
        Expr::And(..) | Expr::Or(..) | Expr::Not(..) => false,
        Expr::IsNull(a) | Expr::IsNotNull(a) => !is_pred(a),
        _ => true,
    }
}
fn shape(e: &Expr) -> String {
    match e {
        Expr::Cmp(op, a, b) => format!("cmp_{}({},{})", op_name(*op), kind(a), kind(b)),
        Expr::IsNull(a) | Expr::IsNotNull(a) => format!("{}({})", brief(e), if is_pred(a) { format!("pred:{}", operand(a)) } else { kind(a) }),
        Expr::In(x, list, _) => format!("{}({},[{}])", brief(e), kind(x), list.iter().map(kind_short).collect::<Vec<_>>().join(",")),
        Expr::Between(x, lo, hi, _) => format!("{}({},{},{})", brief(e), kind(x), kind_short(lo), kind_short(hi)),
        Expr::Like(x, p, _) => format!("{}({},{})", brief(e), kind(x), kind_short(p)),
        Expr::Not(a) => {
            if is_atom(a) {
                format!("NOT({})", shape(a))
            } else {
                format!("NOT({})", brief(a))
            }
        }
        Expr::And(a, b) => format!("AND({},{})", operand(a), operand(b)),
        Expr::Or(a, b) => format!("OR({},{})", operand(a), operand(b)),
        o => brief(o).to_string(),
    }
}

// ---------------------------------------------------------------------------
// predicate <-> JSON
// ---------------------------------------------------------------------------
fn enc(e: &Expr) -> Value {
    match e {
        Expr::Lit(V::Null) => json!({"k": "null"}),
        Expr::Lit(V::Int(i)) => json!({"k": "int", "v": i}),
        Expr::Lit(V::Float(f)) => json!({"k": "float", "v": f}),
        Expr::Lit(V::Text(s)) => json!({"k": "text", "v": s}),
        Expr::Lit(V::Bool(b)) => json!({"k": "bool", "v": b}),
        Expr::Lit(V::Other(s)) => json!({"k": "raw", "v": s}),
        Expr::Lit(V::Blob(_)) => json!({"k": "unsupported"}),
        Expr::Col(c) => json!({"k": "col", "v": c.to_sql()}),
        Expr::Cmp(op, a, b) => json!({"k": "cmp", "op": op.sql(), "a": enc(a), "b": enc(b)}),
        Expr::And(a, b) => json!({"k": "and", "a": enc(a), "b": enc(b)}),
        Expr::Or(a, b) => json!({"k": "or", "a": enc(a), "b": enc(b)}),
        Expr::Not(a) => json!({"k": "not", "a": enc(a)}),
        Expr::IsNull(a) => json!({"k": "isnull", "a": enc(a)}),
        Expr::IsNotNull(a) => json!({"k": "isnotnull", "a": enc(a)}),
        Expr::In(a, l, n) => json!({"k": "in", "neg": n, "a": enc(a), "list": l.iter().map(enc).collect::<Vec<_>>()}),
        Expr::Between(a, lo, hi, n) => json!({"k": "between", "neg": n, "a": enc(a), "lo": enc(lo), "hi": enc(hi)}),
        Expr::Like(a, p, n) => json!({"k": "like", "neg": n, "a": enc(a), "p": enc(p)}),
        _ => json!({"k": "unsupported"}),
    }
}
fn dec(v: &Value) -> Option<Expr> {
    let sub = |k: &str| dec(&v[k]);
    Some(match v["k"].as_str()? {
        "null" => null(),
        "int" => int(v["v"].as_i64()?),
        "float" => float(v["v"].as_f64()?),
        "text" => text(v["v"].as_str()?),
        "bool" => boolean(v["v"].as_bool()?),
        "raw" => lit(V::Other(v["v"].as_str()?.to_string())),
        "col" => col(v["v"].as_str()?),
        "cmp" => {
            let op = *CmpOp::ALL.iter().find(|o| o.sql() == v["op"].as_str().unwrap_or(""))?;
            cmp(op, sub("a")?, sub("b")?)
        }
        "and" => and(sub("a")?, sub("b")?),
        "or" => or(sub("a")?, sub("b")?),
        "not" => not(sub("a")?),
        "isnull" => is_null(sub("a")?),
        "isnotnull" => is_not_null(sub("a")?),
        "in" => {
            let l: Option<Vec<Expr>> = v["list"].as_array()?.iter().map(dec).collect();
            Expr::In(Box::new(sub("a")?), l?, v["neg"].as_bool()?)
        }
        "between" => Expr::Between(Box::new(sub("a")?), Box::new(sub("lo")?), Box::new(sub("hi")?), v["neg"].as_bool()?),
        "like" => Expr::Like(Box::new(sub("a")?), Box::new(sub("p")?), v["neg"].as_bool()?),
        _ => return None,
    })
}

// ---------------------------------------------------------------------------
// tree enumeration by index (same order as refmodel `trees`)
// ---------------------------------------------------------------------------
struct Gen {
    levels: Vec<Vec<Expr>>,
}
impl Gen {
    fn new(atoms: &[Expr]) -> Gen {
        Gen { levels: vec![atoms.to_vec()] }
    }
    fn lower_total(&self, below: usize) -> usize {
        self.levels[..below].iter().map(|l| l.len()).sum()
    }
    fn nth_lower(&self, below: usize, mut i: usize) -> &Expr {
        for l in &self.levels[..below] {
            if i < l.len() {
                return &l[i];
            }
            i -= l.len();
        }
        unreachable!()
    }
    fn level_len(&self, d: usize) -> u128 {
        if d == 0 {
            return self.levels[0].len() as u128;
        }
        let nt = self.levels[d - 1].len() as u128;
        let nl = self.lower_total(d - 1) as u128;
        nt + 2 * (nt * (nt + nl) + nl * nt)
    }
    fn make(&self, d: usize, pos: u128) -> Option<Expr> {
        if d == 0 {
            return self.levels[0].get(pos as usize).cloned();
        }
        let top = &self.levels[d - 1];
        let nt = top.len() as u128;
        let nl = self.lower_total(d - 1) as u128;
        let all = nt + nl;
        if pos < nt {
            return Some(not(top[pos as usize].clone()));
        }
        let mut p = pos - nt;
        let per_op = nt * all + nl * nt;
        if per_op == 0 || p / per_op >= 2 {
            return None;
        }
        let op = p / per_op;
        p %= per_op;
        let pick_all = |i: u128| -> Expr {
            if i < nl {
                self.nth_lower(d - 1, i as usize).clone()
            } else {
                top[(i - nl) as usize].clone()
            }
        };
        let (l, r) = if p < nt * all {
            (top[(p / all) as usize].clone(), pick_all(p % all))
        } else {
            let q = p - nt * all;
            (self.nth_lower(d - 1, (q / nt) as usize).clone(), top[(q % nt) as usize].clone())
        };
        Some(if op == 0 { and(l, r) } else { or(l, r) })
    }
    fn materialize(&mut self, d: usize) {
        if self.levels.len() > d {
            return;
        }
        let n = self.level_len(d);
        let v: Vec<Expr> = (0..n).filter_map(|p| self.make(d, p)).collect();
        self.levels.push(v);
    }
}

// ---------------------------------------------------------------------------
// fixture
// ---------------------------------------------------------------------------
struct Fx {
    db: TestDb,
    plant: Option<String>,
    /// id -> distance to q (from `SELECT id, (e <-> q) FROM d WHERE 1=1`), per query vector
    dist: BTreeMap<&'static str, Result<BTreeMap<i64, V>, String>>,
}
const QVECS: [&str; 2] = ["[0.0, 0.0]", "[1.0, 0.5]"];

fn domain_rows() -> Vec<Vec<V>> {
    let a = [V::Null, V::Int(-1), V::Int(0), V::Int(1), V::Int(2)];
    let b = [V::Null, V::Float(-1.0), V::Float(0.5), V::Float(1.0), V::Float(2.0)];
    let c = [V::Null, V::Text("".into()), V::Text("a".into()), V::Text("ab".into()), V::Text("b".into())];
    let mut rows = vec![];
    for x in &a {
        for y in &b {
            for z in &c {
                rows.push(vec![V::Int(rows.len() as i64 + 1), x.clone(), y.clone(), z.clone()]);
            }
        }
    }
    rows
}
fn vec_lit(id: i64) -> String {
    if id % 13 == 0 {
        "NULL".into()
    } else {
        format!("'[{:.1}, {:.1}]'", (id % 7) as f64 * 0.5 - 1.0, (id % 11) as f64 * 0.5)
    }
}
fn json_lit(id: i64) -> &'static str {
    const J: [&str; 6] = ["'{\"k\": 1, \"s\": \"x\"}'", "'{\"k\": 2}'", "'{\"s\": \"y\"}'", "NULL", "'{\"k\": null, \"s\": \"xy\"}'", "'{\"k\": 1.5, \"s\": \"\"}'"];
    J[((id + id / 5) % 6) as usize]
}

impl Fx {
    fn new(ctx: &Ctx) -> Result<Fx, String> {
        let db = TestDb::create(&ctx.scratch, "c19db")?;
        let rows = domain_rows();
        let run = |sql: &str| -> Result<(), String> {
            let r = db.exec(sql);
            if r.ok() {
                Ok(())
            } else {
                Err(format!("{}: {}", vcore::util::clip(sql, 160), r.show()))
            }
        };
        run("CREATE TABLE t(id INT PRIMARY KEY, a INT, b REAL, c TEXT)")?;
        run("CREATE TABLE d(id INT PRIMARY KEY, a INT, b REAL, c TEXT, e VECTOR(2), j JSONB)")?;
        run("CREATE TABLE u(uid INT PRIMARY KEY, ua INT, uc TEXT)")?;
        for chunk in rows.chunks(25) {
            let vals: Vec<String> = chunk.iter().map(|r| format!("({})", r.iter().map(lit_sql).collect::<Vec<_>>().join(", "))).collect();
            run(&format!("INSERT INTO t VALUES {}", vals.join(", ")))?;
            let vals: Vec<String> = chunk
                .iter()
                .map(|r| {
                    let id = match r[0] {
                        V::Int(i) => i,
                        _ => 0,
                    };
                    format!("({}, {}, {})", r.iter().map(lit_sql).collect::<Vec<_>>().join(", "), vec_lit(id), json_lit(id))
                })
                .collect();
            run(&format!("INSERT INTO d VALUES {}", vals.join(", ")))?;
        }
        run("INSERT INTO u VALUES (1, 0, 'a'), (2, 1, 'ab'), (3, NULL, NULL), (4, 1, 'b'), (5, 7, 'zz')")?;
        for (tb, n) in [("t", NROWS), ("d", NROWS), ("u", 5)] {
            match db.exec(&format!("SELECT * FROM {tb}")) {
                Res::Rows(got) if got.len() == n => {
                    if tb == "t" && refmodel::val::bag(&got) != refmodel::val::bag(&rows) {
                        return Err("table t does not read back as loaded".into());
                    }
                }
                o => return Err(format!("SELECT * FROM {tb}: {}", vcore::util::clip(&o.show(), 200))),
            }
        }
        let mut fx = Fx { db, plant: ctx.opt("plant").map(|s| s.to_string()), dist: BTreeMap::new() };
        for q in QVECS {
            let r = match fx.db.exec(&format!("SELECT id, (e <-> '{q}') FROM d WHERE 1=1")) {
                Res::Rows(rows) if rows.len() == NROWS && rows.iter().all(|r| r.len() == 2) => {
                    let mut m = BTreeMap::new();
                    for r in rows {
                        if let V::Int(i) = r[0] {
                            m.insert(i, r[1].clone());
                        }
                    }
                    Ok(m)
                }
                o => Err(vcore::util::clip(&o.show(), 200)),
            };
            fx.dist.insert(q, r);
        }
        Ok(fx)
    }
}

// ---------------------------------------------------------------------------
// observations
// ---------------------------------------------------------------------------
#[derive(Clone, Debug, PartialEq)]
enum Out {
    Rows(Vec<Row>), // in returned order
    Err(String),
    Panic(String),
}
impl Out {
    fn bag(&self) -> Option<Vec<Row>> {
        match self {
            Out::Rows(r) => Some(refmodel::val::bag(r)),
            _ => None,
        }
    }
    fn show(&self) -> String {
        match self {
            Out::Rows(r) => format!("{} rows {}", r.len(), vcore::util::clip(&refmodel::val::show_rows(&refmodel::val::bag(r)), 600)),
            Out::Err(e) => format!("Err({})", vcore::util::clip(e, 300)),
            Out::Panic(e) => format!("PANIC({})", vcore::util::clip(e, 300)),
        }
    }
}

struct Cx<'a> {
    fx: &'a Fx,
    rep: &'a mut Reporter,
    pass: &'a str,
    table: &'static str,
    pred: &'a Expr,
    pshape: String,
    group: &'static str,
    queries: u64,
    /// number of queries issued inside the current rewrite group (the first one is the base)
    group_q: u32,
}

impl<'a> Cx<'a> {
    fn q(&mut self, sql: &str) -> Out {
        self.queries += 1;
        self.group_q += 1;
        // harness self-test only (`--opt plant=<name>`): perturb what is sent to the subject
        let sql = match self.fx.plant.as_deref() {
            Some("and-true") => sql.replace(" AND TRUE", " AND (b > 0.5)"),
            Some("commute") if self.group == "commute" && self.group_q >= 2 => sql.replacen(" AND ", " OR ", 1),
            Some("topk") => sql.replace("LIMIT 3", "LIMIT 2"),
            // emulates a folding rule that forgets the conjunct after an always-true one: l AND 1=1 OR 1=0 AND r == l
            Some("and3") => sql.replace(" AND 1=1 AND ", " AND 1=1 OR 1=0 AND "),
            Some("join") => sql.replace("FROM u JOIN t ON a = ua", "FROM u JOIN t ON a < ua"),
            _ => sql.to_string(),
        };
        match self.fx.db.exec(&sql) {
            Res::Rows(r) => Out::Rows(r),
            Res::Err(e) => Out::Err(e),
            Res::Panic(e) => Out::Panic(e),
            o => Out::Err(format!("not a row result: {}", o.show())),
        }
    }
    fn case(&self, kind: &str, sqls: &[&str]) -> Value {
        json!({"pass": self.pass, "group": self.group, "kind": kind, "table": self.table, "pred": enc(self.pred), "pred_sql": self.pred.to_sql(), "queries": sqls})
    }
    fn report(&mut self, kind: &str, what: &str, sqls: &[&str], expected: &str, observed: &str) {
        let sig = format!("C19/{kind}/{}/{what}", self.pshape);
        let case = self.case(kind, sqls);
        self.rep.outcome(&format!("{kind}:{what}"));
        self.rep.violation("C19", kind, &sig, || case, expected, observed);
    }
    /// the two bags must be equal.  `base` is the original formulation, `other` the rewrite.
    fn same_bag(&mut self, kind: &str, base_sql: &str, base: &Out, other_sql: &str, other: &Out) -> bool {
        self.rep.count(&format!("rewrite.{kind}"), 1);
        let sqls = [base_sql, other_sql];
        match (base, other) {
            (Out::Panic(p), _) | (_, Out::Panic(p)) => {
                self.report(kind, "panic", &sqls, "both formulations return rows", &format!("panic: {p}"));
                false
            }
            (Out::Err(_), Out::Err(_)) => {
                self.rep.outcome(&format!("{kind}:both-error"));
                self.rep.count("both_sides_error", 1);
                true
            }
            (Out::Err(e), Out::Rows(_)) | (Out::Rows(_), Out::Err(e)) => {
                self.report(kind, "error-one-side", &sqls, &format!("same outcome; base: {}", base.show()), &format!("rewrite: {} ({e})", other.show()));
                false
            }
            (Out::Rows(_), Out::Rows(_)) => {
                let (a, b) = (base.bag().unwrap(), other.bag().unwrap());
                if a == b {
                    self.rep.outcome(&format!("{kind}:equal"));
                    return true;
                }
                let (missing, extra) = bag_diff(&a, &b);
                let what = match (missing.is_empty(), extra.is_empty()) {
                    (false, true) => "missing-rows",
                    (true, false) => "extra-rows",
                    _ => "different-rows",
                };
                self.report(kind, what, &sqls, &format!("the rewrite returns the same bag as the base: {}", base.show()), &format!("rewrite lacks {} and adds {}", refmodel::val::show_rows(&missing), refmodel::val::show_rows(&extra)));
                false
            }
        }
    }
}

/// (rows of a not in b, rows of b not in a) as multisets; both inputs sorted
fn bag_diff(a: &[Row], b: &[Row]) -> (Vec<Row>, Vec<Row>) {
    let (mut i, mut j) = (0, 0);
    let (mut missing, mut extra) = (vec![], vec![]);
    while i < a.len() || j < b.len() {
        if j >= b.len() {
            missing.push(a[i].clone());
            i += 1;
        } else if i >= a.len() {
            extra.push(b[j].clone());
            j += 1;
        } else {
            match a[i].cmp(&b[j]) {
                std::cmp::Ordering::Equal => {
                    i += 1;
                    j += 1;
                }
                std::cmp::Ordering::Less => {
                    missing.push(a[i].clone());
                    i += 1;
                }
                std::cmp::Ordering::Greater => {
                    extra.push(b[j].clone());
                    j += 1;
                }
            }
        }
    }
    (missing, extra)
}
fn union_out(parts: &[&Out]) -> Out {
    let mut all = vec![];
    for p in parts {
        match p {
            Out::Rows(r) => all.extend(r.iter().cloned()),
            Out::Panic(e) => return Out::Panic(e.clone()),
            Out::Err(e) => return Out::Err(e.clone()),
        }
    }
    Out::Rows(all)
}
fn permute_cols(o: &Out, perm: &[usize]) -> Out {
    match o {
        Out::Rows(rows) => {
            if rows.iter().any(|r| r.len() != perm.len()) {
                return Out::Err(format!("column count is not {}", perm.len()));
            }
            Out::Rows(rows.iter().map(|r| perm.iter().map(|i| r[*i].clone()).collect()).collect())
        }
        o => o.clone(),
    }
}
fn mirror(e: &Expr) -> Expr {
    match e {
        Expr::And(a, b) => and(mirror(b), mirror(a)),
        Expr::Or(a, b) => or(mirror(b), mirror(a)),
        Expr::Not(a) => not(mirror(a)),
        o => o.clone(),
    }
}

// ---------------------------------------------------------------------------
// rewrite groups
// ---------------------------------------------------------------------------
const GROUPS: [&str; 10] = ["partition", "nf-partition", "commute", "neutral", "neutral3", "join", "select-perm", "vector", "json", "window"];

fn run_group(cx: &mut Cx, group: &'static str) {
    cx.group = group;
    cx.group_q = 0;
    let tb = cx.table;
    let p = cx.pred.to_sql();
    let base_sql = format!("SELECT id FROM {tb} WHERE {p}");
    match group {
        "partition" => {
            let whole_sql = format!("SELECT id FROM {tb} WHERE 1=1");
            let whole = cx.q(&whole_sql);
            let s2 = format!("SELECT id FROM {tb} WHERE (NOT {p})");
            let s3 = format!("SELECT id FROM {tb} WHERE ({p} IS NULL)");
            let (o1, o2, o3) = (cx.q(&base_sql), cx.q(&s2), cx.q(&s3));
            let u = union_out(&[&o1, &o2, &o3]);
            cx.same_bag("partition-not", &whole_sql, &whole, &format!("{base_sql} ⊎ {s2} ⊎ {s3}"), &u);
        }
        "nf-partition" => {
            let whole_sql = format!("SELECT id FROM {tb} WHERE 1=1");
            let whole = cx.q(&whole_sql);
            let base = cx.q(&base_sql);
            let s2 = format!("SELECT id FROM {tb} WHERE ({p} = FALSE)");
            let s3 = format!("SELECT id FROM {tb} WHERE ({p} IS NULL)");
            let (o2, o3) = (cx.q(&s2), cx.q(&s3));
            let u = union_out(&[&base, &o2, &o3]);
            cx.same_bag("partition-eqfalse", &whole_sql, &whole, &format!("{base_sql} ⊎ {s2} ⊎ {s3}"), &u);
            for (kind, s, s_) in [("split-isnull", "(a IS NULL)", "(a IS NOT NULL)"), ("split-pkrange", "(id <= 62)", "(id > 62)")] {
                let q1 = format!("SELECT id FROM {tb} WHERE ({p} AND {s})");
                let q2 = format!("SELECT id FROM {tb} WHERE ({p} AND {s_})");
                let (o1, o2) = (cx.q(&q1), cx.q(&q2));
                let u = union_out(&[&o1, &o2]);
                cx.same_bag(kind, &base_sql, &base, &format!("{q1} ⊎ {q2}"), &u);
            }
        }
        "commute" => {
            let top = match cx.pred {
                Expr::And(a, b) => Some(and((**b).clone(), (**a).clone())),
                Expr::Or(a, b) => Some(or((**b).clone(), (**a).clone())),
                _ => None,
            };
            let Some(top) = top else {
                cx.rep.count("commute_not_applicable", 1);
                return;
            };
            let base = cx.q(&base_sql);
            let s = format!("SELECT id FROM {tb} WHERE {}", top.to_sql());
            let o = cx.q(&s);
            cx.same_bag("commute-top", &base_sql, &base, &s, &o);
            let all = mirror(cx.pred);
            if all != top {
                let s = format!("SELECT id FROM {tb} WHERE {}", all.to_sql());
                let o = cx.q(&s);
                cx.same_bag("commute-all", &base_sql, &base, &s, &o);
            }
        }
        "neutral" => {
            let base = cx.q(&base_sql);
            for (kind, w) in [("and-true", format!("({p} AND TRUE)")), ("and-1eq1", format!("({p} AND 1=1)")), ("or-false", format!("({p} OR FALSE)")), ("true-and", format!("(TRUE AND {p})"))] {
                let s = format!("SELECT id FROM {tb} WHERE {w}");
                let o = cx.q(&s);
                cx.same_bag(kind, &base_sql, &base, &s, &o);
            }
        }
        "neutral3" => {
            // three-operand placements of an always-true conjunct (always-false disjunct) around the two
            // operands of an AND (OR) root: every placement must return the bag of `l AND r` (`l OR r`)
            let (word, l, r, consts): (&str, &Expr, &Expr, [&str; 4]) = match cx.pred {
                Expr::And(l, r) => ("AND", &**l, &**r, ["1=1", "TRUE", "'x'='x'", "1<>2"]),
                Expr::Or(l, r) => ("OR", &**l, &**r, ["1=0", "FALSE", "'x'='y'", "1<>1"]),
                _ => {
                    cx.rep.count("neutral3_not_applicable", 1);
                    return;
                }
            };
            let (l, r) = (l.to_sql(), r.to_sql());
            let pre = if word == "AND" { "and3" } else { "or3" };
            let base = cx.q(&base_sql);
            for k in consts {
                for (place, w) in [
                    ("mid", format!("({l} {word} {k} {word} {r})")),
                    ("first", format!("({k} {word} {l} {word} {r})")),
                    ("last", format!("({l} {word} {r} {word} {k})")),
                    ("left-nested", format!("(({l} {word} {k}) {word} {r})")),
                    ("right-nested", format!("({l} {word} ({k} {word} {r}))")),
                ] {
                    let s = format!("SELECT id FROM {tb} WHERE {w}");
                    let o = cx.q(&s);
                    cx.same_bag(&format!("{pre}-{place}[{k}]"), &base_sql, &base, &s, &o);
                }
            }
        }
        "join" => {
            for (key, jc, jc_rev) in [("nullable-key", "a = ua", "ua = a"), ("pk-key", "id = uid", "uid = id")] {
                let b_sql = format!("SELECT id, uid FROM {tb} JOIN u ON {jc} WHERE {p}");
                let base = cx.q(&b_sql);
                let s = format!("SELECT id, uid FROM u JOIN {tb} ON {jc} WHERE {p}");
                let o = cx.q(&s);
                cx.same_bag(&format!("join-swapped[{key}]"), &b_sql, &base, &s, &o);
                let s = format!("SELECT id, uid FROM {tb} JOIN u ON {jc_rev} WHERE {p}");
                let o = cx.q(&s);
                cx.same_bag(&format!("join-on-commuted[{key}]"), &b_sql, &base, &s, &o);
                let s = format!("SELECT uid, id FROM {tb} JOIN u ON {jc} WHERE {p}");
                let o = permute_cols(&cx.q(&s), &[1, 0]);
                cx.same_bag(&format!("join-select-permuted[{key}]"), &b_sql, &base, &s, &o);
                let c_sql = format!("SELECT id, uid FROM {tb}, u WHERE (({jc}) AND {p})");
                let comma = cx.q(&c_sql);
                cx.same_bag(&format!("comma-vs-join[{key}]"), &b_sql, &base, &c_sql, &comma);
                let s = format!("SELECT id, uid FROM u, {tb} WHERE (({jc}) AND {p})");
                let o = cx.q(&s);
                cx.same_bag(&format!("comma-swapped[{key}]"), &c_sql, &comma, &s, &o);
            }
        }
        "select-perm" => {
            let b_sql = format!("SELECT id, a, c FROM {tb} WHERE {p}");
            let base = cx.q(&b_sql);
            for (cols, perm) in [("c, a, id", [2usize, 1, 0]), ("a, id, c", [1, 0, 2]), ("c, id, a", [1, 2, 0])] {
                let s = format!("SELECT {cols} FROM {tb} WHERE {p}");
                let o = permute_cols(&cx.q(&s), &perm);
                cx.same_bag("select-permuted", &b_sql, &base, &s, &o);
            }
            // the ids of the 3-column projection are the ids of the 1-column projection
            let ids = cx.q(&base_sql);
            let proj = match &base {
                Out::Rows(r) => Out::Rows(r.iter().map(|x| x[..1.min(x.len())].to_vec()).collect()),
                o => o.clone(),
            };
            cx.same_bag("select-widened", &base_sql, &ids, &b_sql, &proj);
        }
        "vector" => {
            for q in QVECS {
                let sel_sql = format!("SELECT id, (e <-> '{q}') FROM d WHERE {p}");
                let sel = cx.q(&sel_sql);
                for r in [1.5f64, 2.75] {
                    let w_sql = format!("SELECT id FROM d WHERE (((e <-> '{q}') < {r:?}) AND {p})");
                    let w = cx.q(&w_sql);
                    let filtered = match &sel {
                        Out::Rows(rows) => {
                            if rows.iter().any(|x| x.len() != 2) {
                                Out::Err("select-list form does not return 2 columns".into())
                            } else {
                                Out::Rows(rows.iter().filter(|x| matches!(x[1].as_f64(), Some(dv) if dv < r)).map(|x| vec![x[0].clone()]).collect())
                            }
                        }
                        o => o.clone(),
                    };
                    cx.same_bag("vector-where-vs-select", &format!("{sel_sql} [harness keeps distance < {r:?}]"), &filtered, &w_sql, &w);
                }
                // top-k
                // (sort keys containing NULL trip a separate defect: the second variant keeps them out)
                for (kind, w) in [("vector-topk", p.clone()), ("vector-topk[nonnull-keys]", format!("((e IS NOT NULL) AND {p})"))] {
                    let full_sql = format!("SELECT id FROM d WHERE {w} ORDER BY e <-> '{q}'");
                    let full = cx.q(&full_sql);
                    for k in [1usize, 3, 10] {
                        let k_sql = format!("{full_sql} LIMIT {k}");
                        let topk = cx.q(&k_sql);
                        topk_check(cx, kind, q, k, &full_sql, &full, &k_sql, &topk);
                    }
                }
            }
        }
        "json" => {
            let accessors: [(&str, &str, fn(&V) -> bool); 3] = [
                ("(j->>'s')", "= 'x'", |v| matches!(v, V::Text(s) if s == "x")),
                ("(j->'k')", "= 1", |v| matches!(v.as_f64(), Some(f) if f == 1.0)),
                ("(j->'k')", "IS NULL", |v| v.is_null()),
            ];
            for (acc, test, keep) in accessors {
                let sel_sql = format!("SELECT id, {acc} FROM d WHERE {p}");
                let sel = cx.q(&sel_sql);
                let w_sql = format!("SELECT id FROM d WHERE (({acc} {test}) AND {p})");
                let w = cx.q(&w_sql);
                let filtered = match &sel {
                    Out::Rows(rows) => {
                        if rows.iter().any(|x| x.len() != 2) {
                            Out::Err("select-list form does not return 2 columns".into())
                        } else {
                            Out::Rows(rows.iter().filter(|x| keep(&x[1])).map(|x| vec![x[0].clone()]).collect())
                        }
                    }
                    o => o.clone(),
                };
                cx.same_bag("json-where-vs-select", &format!("{sel_sql} [harness keeps {acc} {test}]"), &filtered, &w_sql, &w);
            }
        }
        "window" => {
            let base = cx.q(&base_sql);
            let w_sql = format!("SELECT id, COUNT(*) OVER (), ROW_NUMBER() OVER (ORDER BY id) FROM {tb} WHERE {p}");
            let w = cx.q(&w_sql);
            // what the plain query implies for the window columns
            let implied = match &base {
                Out::Rows(rows) => {
                    let mut ids: Vec<V> = rows.iter().filter_map(|r| r.first().cloned()).collect();
                    ids.sort();
                    let n = ids.len() as i64;
                    Out::Rows(ids.into_iter().enumerate().map(|(i, id)| vec![id, V::Int(n), V::Int(i as i64 + 1)]).collect())
                }
                o => o.clone(),
            };
            cx.same_bag("window-count-rownumber-vs-plain", &format!("{base_sql} [harness numbers the ids]"), &implied, &w_sql, &w);
            let s = format!("SELECT COUNT(*) OVER (), id, ROW_NUMBER() OVER (ORDER BY id) FROM {tb} WHERE {p}");
            let o = permute_cols(&cx.q(&s), &[1, 0, 2]);
            cx.same_bag("window-select-permuted", &w_sql, &w, &s, &o);
            // SUM(a) OVER (PARTITION BY b) takes, per b, the value GROUP BY b computes
            let g_sql = format!("SELECT b, SUM(a) FROM {tb} WHERE {p} GROUP BY b");
            let g = cx.q(&g_sql);
            let s = format!("SELECT b, SUM(a) OVER (PARTITION BY b) FROM {tb} WHERE {p}");
            let o = match cx.q(&s) {
                Out::Rows(rows) => {
                    let set: BTreeSet<Row> = rows.into_iter().collect();
                    Out::Rows(set.into_iter().collect())
                }
                o => o,
            };
            cx.same_bag("window-sum-vs-groupby", &g_sql, &g, &format!("{s} [distinct rows]"), &o);
        }
        _ => {}
    }
}

/// `LIMIT k` must be a valid top-k of the full ordered list: k rows (or all if fewer), each of them a row of
/// the full list, and the multiset of their distances equals that of the first k rows of the full list.
fn topk_check(cx: &mut Cx, kind: &str, q: &'static str, k: usize, full_sql: &str, full: &Out, k_sql: &str, topk: &Out) {
    cx.rep.count(&format!("rewrite.{kind}"), 1);
    let sqls = [full_sql, k_sql];
    let (f, t) = match (full, topk) {
        (Out::Panic(p), _) | (_, Out::Panic(p)) => {
            cx.report(kind, "panic", &sqls, "both formulations return rows", &format!("panic: {p}"));
            return;
        }
        (Out::Err(_), Out::Err(_)) => {
            cx.rep.count("both_sides_error", 1);
            return;
        }
        (Out::Rows(f), Out::Rows(t)) => (f, t),
        _ => {
            cx.report(kind, "error-one-side", &sqls, &format!("full: {}", full.show()), &format!("limit {k}: {}", topk.show()));
            return;
        }
    };
    let dist = match cx.fx.dist.get(q) {
        Some(Ok(m)) => m,
        _ => {
            cx.rep.count("topk_no_distance_map", 1);
            return;
        }
    };
    let id_of = |r: &Row| match r.first() {
        Some(V::Int(i)) => *i,
        _ => -1,
    };
    let want = k.min(f.len());
    let what = if t.len() < want {
        Some("missing-rows")
    } else if t.len() > want {
        Some("extra-rows")
    } else {
        let fids: BTreeSet<i64> = f.iter().map(id_of).collect();
        let dk = |rows: &[Row]| -> Vec<V> {
            let mut v: Vec<V> = rows.iter().map(|r| dist.get(&id_of(r)).cloned().unwrap_or(V::Other("?".into()))).collect();
            v.sort();
            v
        };
        let tids: BTreeSet<i64> = t.iter().map(id_of).collect();
        if tids.len() != t.len() || !tids.is_subset(&fids) || dk(t) != dk(&f[..want]) {
            Some("different-rows")
        } else {
            None
        }
    };
    match what {
        None => cx.rep.outcome(&format!("{kind}:equal")),
        Some(w) => {
            let show = |rows: &[Row]| rows.iter().map(|r| format!("{}@{}", id_of(r), dist.get(&id_of(r)).map(|v| v.show()).unwrap_or_default())).collect::<Vec<_>>().join(" ");
            cx.report(kind, w, &sqls, &format!("first {want} of the full list: {}", show(&f[..want])), &format!("LIMIT {k}: {}", show(t)));
        }
    }
}

// ---------------------------------------------------------------------------
// atoms
// ---------------------------------------------------------------------------
fn abc_schema() -> Schema {
    Schema::of(&[("a", Ty::Int), ("b", Ty::Real), ("c", Ty::Text)])
}
fn raw(s: &str) -> Expr {
    lit(V::Other(s.to_string()))
}
/// atoms over the VECTOR / JSONB columns of table d
fn dialect_atoms() -> Vec<Expr> {
    vec![
        lt(raw("(e <-> '[0.0, 0.0]')"), float(1.5)),
        le(raw("(e <-> '[1.0, 0.5]')"), float(1.0)),
        gt(raw("(e <-> '[0.0, 0.0]')"), float(2.0)),
        lt(raw("(e <=> '[1.0, 0.5]')"), float(0.25)),
        is_null(col("e")),
        is_not_null(col("e")),
        eq(raw("(j->>'s')"), text("x")),
        like(raw("(j->>'s')"), text("x%")),
        eq(raw("(j->'k')"), int(1)),
        gt(raw("(j->'k')"), int(1)),
        is_null(raw("(j->'k')")),
        is_null(col("j")),
    ]
}
fn mini_core() -> Vec<Expr> {
    vec![
        gt(col("a"), int(0)),
        eq(col("a"), int(1)),
        le(col("c"), text("ab")),
        lt(col("a"), col("b")),
        is_null(col("a")),
        in_list(col("a"), vec![int(0), null()]),
        not_between(col("b"), float(0.5), float(1.0)),
        like(col("c"), text("a%")),
        eq(col("b"), null()),
        not_in_list(col("c"), vec![text("a"), text("ab")]),
    ]
}

struct Job<'a> {
    name: &'a str,
    table: &'static str,
    groups: &'a [&'static str],
}
struct Run<'a> {
    ctx: &'a Ctx,
    idx: u64,
    since: u32,
    expired: bool,
}
impl<'a> Run<'a> {
    fn one(&mut self, fx: &Fx, rep: &mut Reporter, job: &Job, p: &Expr) {
        self.idx += 1;
        if self.expired || !self.ctx.mine(self.idx) {
            return;
        }
        self.since += 1;
        if self.since >= 8 {
            self.since = 0;
            if self.ctx.expired() {
                self.expired = true;
                return;
            }
        }
        check_pred(fx, rep, job.name, job.table, job.groups, p);
        rep.count(&format!("pass.{}.predicates", job.name), 1);
        rep.sample(|| json!({"pass": job.name, "table": job.table, "pred": p.to_sql(), "shape": shape(p), "groups": job.groups}));
    }
    fn trees(&mut self, fx: &Fx, rep: &mut Reporter, job: &Job, atoms: &[Expr], depth: usize) {
        // development aid: `--opt passes=R4,P4` runs only the passes whose name starts with one of the prefixes
        if let Some(only) = self.ctx.opt("passes") {
            if !only.split(',').any(|p| job.name.starts_with(p)) {
                return;
            }
        }
        let was_expired = self.expired;
        let mut g = Gen::new(atoms);
        let mut total: u128 = 0;
        for d in 0..=depth {
            let n = g.level_len(d);
            total += n;
            for pos in 0..n {
                if self.expired {
                    break;
                }
                if self.ctx.mine(self.idx + 1) {
                    let e = g.make(d, pos).expect("index within level");
                    self.one(fx, rep, job, &e);
                } else {
                    self.idx += 1;
                }
            }
            if d < depth {
                g.materialize(d);
            }
        }
        rep.bound(&format!("pass.{}", job.name), json!({"table": job.table, "atoms": atoms.len(), "depth": depth, "predicates": total.to_string(), "rewrite_groups": job.groups}));
        if was_expired {
            rep.capped(&format!("pass {} not run (the deadline was hit in an earlier pass)", job.name));
        } else if self.expired {
            rep.capped(&format!("deadline inside pass {} (earlier passes are complete; pass.{}.predicates = number done)", job.name, job.name));
        }
    }
}

fn check_pred(fx: &Fx, rep: &mut Reporter, pass: &str, table: &'static str, groups: &[&'static str], p: &Expr) {
    let before = rep.violation_count();
    let mut cx = Cx { fx, rep, pass, table, pred: p, pshape: shape(p), group: "", queries: 0, group_q: 0 };
    // vacuity: how selective is the base query
    let base = cx.q(&format!("SELECT id FROM {table} WHERE {}", p.to_sql()));
    let n = match &base {
        Out::Rows(r) => r.len(),
        _ => usize::MAX,
    };
    let sel = match n {
        0 => "base_empty",
        NROWS => "base_whole_table",
        usize::MAX => "base_error",
        _ => "base_proper_subset",
    };
    for g in groups {
        run_group(&mut cx, g);
    }
    let queries = cx.queries;
    rep.count(sel, 1);
    rep.count("queries", queries);
    rep.count("predicates", 1);
    rep.case(vcore::util::hash_of(&(table, groups, p)), n != 0 && n != NROWS && n != usize::MAX);
    if rep.violation_count() == before {
        rep.outcome("all-rewrites-equal");
    }
}

struct C19;

impl Check for C19 {
    fn specs(&self) -> Vec<Spec> {
        let mut s = Spec::new(
            "C19",
            "exploration",
            "a case is one (predicate, table, set of rewrite groups): predicates are the C14 grammar (refmodel atoms/core_atoms over a INT, b REAL, c TEXT with NULLs; NOT/AND/OR trees, simplest first) over the 125-row cross-product table t, and the core plus 12 VECTOR/JSONB atoms over table d (same rows + e VECTOR(2), j JSONB); every case runs the base query and all its rewrites of the groups partition (p / NOT p / p IS NULL), nf-partition (p / p = FALSE / p IS NULL, split by a IS [NOT] NULL, split by id range), commute (root, all nodes), neutral (AND TRUE, AND 1=1, OR FALSE, TRUE AND), neutral3 (for every AND/OR-rooted predicate l op r: an always-true conjunct / always-false disjunct from 4 spellings in 5 three-operand placements l k r, k l r, l r k, (l k) r, l (k r)), join (t JOIN u vs u JOIN t vs comma joins vs commuted ON vs permuted select list, on a nullable key and on the primary key), select-perm, vector (WHERE distance vs select-list distance; ORDER BY distance LIMIT k vs prefix of the full order), json (accessor in WHERE vs select list), window (COUNT(*) OVER()/ROW_NUMBER() vs plain, permuted select list, SUM OVER (PARTITION BY b) vs GROUP BY b). quick: all atoms and depth<=1 over the core with every group, depth<=1 over core+dialect atoms on d; thorough: additionally depth<=2 over a 10-atom mini core with every group and depth<=2 over the whole core with the single-table groups (time-capped). Distinct = distinct (predicate, table, groups); non-trivial = the base query returns a proper non-empty subset of the table.",
        );
        s.assumptions = &[
            "no reference model: only TurDB results are compared with each other, so a defect that affects both formulations identically is invisible here (C14 covers the absolute semantics)",
            "the harness itself only filters select-list values by `distance < r`, `= 'x'`, `= 1`, `IS NULL`, numbers ids, permutes columns and forms multiset unions",
            "LIMIT k under distance ties: any k rows whose distance multiset equals that of the first k rows of the full ordered list are accepted",
        ];
        s.cap_quick_s = 90;
        s.cap_thorough_s = 1380;
        vec![s]
    }

    fn run(&self, ctx: &Ctx, rep: &mut Reporter) {
        let fx = match Fx::new(ctx) {
            Ok(f) => f,
            Err(e) => {
                if ctx.worker == 0 {
                    rep.case(0, false);
                    rep.violation("C19", "fixture", "C19/fixture/load", || json!({"fixture": true}), "tables t, d, u load and read back", &e);
                }
                return;
            }
        };
        let k = Consts::c14();
        let all = atoms(&abc_schema(), &k);
        let core = core_atoms(&abc_schema(), &k);
        let mut dcore = core.clone();
        dcore.extend(dialect_atoms());
        rep.bound("atoms", json!({"all": all.len(), "core": core.len(), "dialect": dialect_atoms().len(), "mini_core": mini_core().len()}));
        for c in ["predicates", "queries", "base_proper_subset", "rewrite.partition-not", "rewrite.partition-eqfalse", "rewrite.split-isnull", "rewrite.split-pkrange", "rewrite.commute-top", "rewrite.and-true", "rewrite.and-1eq1", "rewrite.or-false", "rewrite.true-and", "rewrite.and3-mid[1=1]", "rewrite.and3-mid[TRUE]", "rewrite.and3-mid['x'='x']", "rewrite.and3-mid[1<>2]", "rewrite.and3-first[1=1]", "rewrite.and3-last[1=1]", "rewrite.and3-left-nested[1=1]", "rewrite.and3-right-nested[1=1]", "rewrite.or3-mid[1=0]", "rewrite.or3-mid[FALSE]", "rewrite.or3-right-nested[1<>1]", "rewrite.join-swapped[nullable-key]", "rewrite.comma-vs-join[pk-key]", "rewrite.select-permuted", "rewrite.vector-where-vs-select", "rewrite.vector-topk", "rewrite.vector-topk[nonnull-keys]", "rewrite.json-where-vs-select", "rewrite.window-count-rownumber-vs-plain", "rewrite.window-sum-vs-groupby"] {
            rep.expect_nonzero(c);
        }
        // physical operators behind the rewritten queries (once, worker 0)
        if ctx.worker == 0 {
            for sql in [
                "SELECT id, uid FROM t JOIN u ON a = ua WHERE (a > 0)",
                "SELECT id, uid FROM u JOIN t ON a = ua WHERE (a > 0)",
                "SELECT id, uid FROM t, u WHERE ((a = ua) AND (a > 0))",
                "SELECT id, uid FROM t JOIN u ON id = uid WHERE (a > 0)",
                "SELECT id, uid FROM u, t WHERE ((id = uid) AND (a > 0))",
                "SELECT id FROM d WHERE (a > 0) ORDER BY e <-> '[0.0, 0.0]' LIMIT 3",
                "SELECT id FROM d WHERE (a > 0) ORDER BY e <-> '[0.0, 0.0]'",
                "SELECT id, COUNT(*) OVER (), ROW_NUMBER() OVER (ORDER BY id) FROM t WHERE (a > 0)",
                "SELECT b, SUM(a) FROM t WHERE (a > 0) GROUP BY b",
                "SELECT id FROM t WHERE ((a > 0) AND (id <= 62))",
            ] {
                if let Some(plan) = sqlh::explain(fx.db.db(), sql) {
                    for line in plan.lines() {
                        if let Some(op) = line.trim().strip_prefix("-> ") {
                            let name: String = op.chars().take_while(|c| c.is_alphanumeric()).collect();
                            rep.count(&format!("plan.{name}"), 1);
                        }
                    }
                }
            }
        }
        let single: [&'static str; 6] = ["nf-partition", "commute", "neutral", "neutral3", "select-perm", "window"];
        let not_free_all: [&'static str; 7] = ["nf-partition", "commute", "neutral", "neutral3", "join", "select-perm", "window"];
        let dgroups: [&'static str; 6] = ["nf-partition", "commute", "neutral", "select-perm", "vector", "json"];
        let part: [&'static str; 1] = ["partition"];
        let mut run = Run { ctx, idx: 0, since: 0, expired: false };
        // ---- P: the partition rewrite (involves NOT: fails on the NOT defect for almost every p) ----
        run.trees(&fx, rep, &Job { name: "P1-partition-all-atoms", table: "t", groups: &part }, &all, 0);
        run.trees(&fx, rep, &Job { name: "P2-partition-core-depth1", table: "t", groups: &part }, &core, 1);
        run.trees(&fx, rep, &Job { name: "P3-partition-dialect-depth1", table: "d", groups: &part }, &dcore, ctx.tier.pick(0, 1));
        // ---- R: rewrites that do not involve NOT (p itself may: it is the same on both sides) ----
        run.trees(&fx, rep, &Job { name: "R1-all-atoms", table: "t", groups: &not_free_all }, &all, 0);
        run.trees(&fx, rep, &Job { name: "R2-core-depth1", table: "t", groups: &not_free_all }, &core, 1);
        run.trees(&fx, rep, &Job { name: "R3-dialect-depth1", table: "d", groups: &dgroups }, &dcore, 1);
        if !ctx.quick() {
            run.trees(&fx, rep, &Job { name: "R4-mini-depth2", table: "t", groups: &not_free_all }, &mini_core(), 2);
            run.trees(&fx, rep, &Job { name: "P4-partition-mini-depth2", table: "t", groups: &part }, &mini_core(), 2);
            run.trees(&fx, rep, &Job { name: "R5-core-depth2", table: "t", groups: &single }, &core, 2);
        }
    }

    fn replay(&self, ctx: &Ctx, case: &Value, rep: &mut Reporter) {
        let fx = match Fx::new(ctx) {
            Ok(f) => f,
            Err(e) => {
                rep.case(0, false);
                rep.violation("C19", "fixture", "C19/fixture/load", || json!({"fixture": true}), "tables t, d, u load and read back", &e);
                return;
            }
        };
        if case["fixture"].as_bool() == Some(true) {
            rep.case(0, false);
            return;
        }
        let Some(p) = dec(&case["pred"]) else {
            rep.note("replay: predicate does not decode");
            return;
        };
        let table = if case["table"].as_str() == Some("d") { "d" } else { "t" };
        let Some(group) = GROUPS.iter().find(|g| Some(**g) == case["group"].as_str()) else {
            rep.note("replay: unknown rewrite group");
            return;
        };
        check_pred(&fx, rep, case["pass"].as_str().unwrap_or("replay"), table, &[*group], &p);
    }
}

fn main() {
    vcore::main(&C19)
}
