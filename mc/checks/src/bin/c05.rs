//! C05 — DML results match a relational reference model (SQLH engine, model_checking).
//!
//! Every history (sequence of INSERT / UPDATE / DELETE / TRUNCATE statements, each with and
//! without `RETURNING *`) up to a depth over a small collision-forcing alphabet (keys 1..3) is
//! executed on a fresh real `Database` in lock-step with `refmodel::sql::rel`.  After EVERY
//! statement the oracle compares
//!   error     Ok/Err class of the statement                      (vs model)
//!   affected  affected-row count                                 (vs model)
//!   returning RETURNING rows as a bag                            (vs model)
//!   rows      `SELECT * FROM t` as a bag                         (vs model: deleted rows stay deleted)
//!   count-star `SELECT COUNT(*)` (header fast path)              (vs number of rows `SELECT *` shows)
//!   pk-lookup `SELECT * FROM t WHERE id = k`, k = 1..3           (vs the `SELECT *` rows with that id)
//!   idx-lookup (schema pkidx) `WHERE a = v` for every value a ever held (vs the `SELECT *` rows)
//! and stops the history at its first divergent statement (the observation-only oracles `returning`
//! and `idx-lookup` are "soft": reported once per history, then switched off for its extensions, because
//! the table state is checked against the model at the same step anyway).  Every failing oracle of a
//! statement is reported; its signature carries the MINIMAL operation pattern, obtained by shrinking
//! the failing history (drop statements / drop RETURNING / split two-row inserts / keyed form of a
//! set-up DELETE- or UPDATE-all, while the same oracle still fails with the same class).  The recorded
//! case IS the shrunk history, so replay re-derives the same signature.
//!
//! Exploration: histories are not merged (hidden state: tombstones, header counters); every history
//! runs on its own fresh database (prefix re-execution without oracle, last statement with oracle).
//! Iterative deepening over all passes and schema kinds: length 1 everywhere, then 2, ... so that a
//! deadline cuts every pass at the same length and the first report of a defect is a shortest one.
//! Histories of length <= S (split) are numbered breadth-first and distributed with `ctx.mine`; the
//! owner of a length-S history owns the whole subtree below it, so it knows every divergence above
//! the histories it extends.
//!
//! Passes (per schema kind): `full` = whole alphabet in every state, every oracle strict (contains the
//! known defects, lower depth); `live-plain` / `live-ret` / `live-mixed` = state-aware alphabet without
//! the constructs listed in findings.d/C05.json (see `enabled`), in the three RETURNING families, so
//! the defect-free remainder reaches full depth; `txn` = 14 operations without RETURNING over keys 1, 2 where an
//! operation is a statement submitted in autocommit, as `BEGIN; stmt; COMMIT` or as `BEGIN; stmt; ROLLBACK`
//! (the model brackets it the same way): a committed statement must leave exactly what the autocommit form
//! leaves, a rolled-back one nothing — in SELECT *, in the header-answered COUNT(*) and in the lookups.
use checks::sqlh::*;
use refmodel::sql::expr::{add, col, eq, int};
use refmodel::sql::rel::{ColumnDef, CreateIndex, CreateTable, Delete, Insert, Outcome, State, Stmt, TableDef, Update};
use refmodel::sql::Ty;
use refmodel::val::{bag, show_rows, Row, V};
use std::collections::{BTreeMap, BTreeSet, HashMap};
use std::path::Path;
use vcore::{json, Check, Ctx, Reporter, Spec, Value};

// ---------------------------------------------------------------------------
// schema kinds
// ---------------------------------------------------------------------------
#[derive(Clone, Copy, PartialEq, Eq, Hash, Debug, PartialOrd, Ord)]
enum Kind {
    NoPk,
    Pk,
    PkIdx,
    Toast,
    /// t(id INT PRIMARY KEY, a INT, d INT DEFAULT 7, e TEXT DEFAULT 'x'): the single-row INSERT names only
    /// (id, a), the two-row INSERT names (id, a, d) — the omitted columns take their defaults
    Dflt,
}
const KINDS: [Kind; 5] = [Kind::NoPk, Kind::Pk, Kind::PkIdx, Kind::Toast, Kind::Dflt];
impl Kind {
    fn name(self) -> &'static str {
        match self {
            Kind::NoPk => "nopk",
            Kind::Pk => "pk",
            Kind::PkIdx => "pkidx",
            Kind::Toast => "toast",
            Kind::Dflt => "dflt",
        }
    }
    fn parse(s: &str) -> Option<Kind> {
        KINDS.iter().copied().find(|k| k.name() == s)
    }
    fn has_pk(self) -> bool {
        self != Kind::NoPk
    }
    fn ddl(self) -> Vec<Stmt> {
        let id = if self.has_pk() { ColumnDef::new("id", Ty::Int).primary_key() } else { ColumnDef::new("id", Ty::Int) };
        let mut def = TableDef::new("t").col(id).col(ColumnDef::new("a", Ty::Int));
        if self == Kind::Toast {
            def = def.col(ColumnDef::new("b", Ty::Text));
        }
        if self == Kind::Dflt {
            def = def.col(ColumnDef::new("d", Ty::Int).default(V::Int(7))).col(ColumnDef::new("e", Ty::Text).default(V::Text("x".into())));
        }
        let mut v = vec![Stmt::CreateTable(CreateTable::new(def))];
        if self == Kind::PkIdx {
            v.push(Stmt::CreateIndex(CreateIndex::new("ia", "t", &["a"], false)));
        }
        v
    }
}

/// the 1.5 KB value of the TOAST schema (TOAST_THRESHOLD is 1000 bytes)
fn big(c: i64) -> String {
    let mut s = format!("{c:06}:");
    let ch = (b'a' + (c.rem_euclid(26)) as u8) as char;
    while s.len() < 1500 {
        s.push(ch);
    }
    s
}

// ---------------------------------------------------------------------------
// alphabet
// ---------------------------------------------------------------------------
#[derive(Clone, Copy, PartialEq, Eq, Hash, Debug, PartialOrd, Ord)]
enum OpK {
    Ins(u8),
    Ins2(u8, u8),
    Upd(u8),
    UpdAll,
    Del(u8),
    DelAll,
    Trunc,
}
/// how the statement is submitted: on its own (autocommit) or as the only statement of an explicit
/// transaction that is committed / rolled back (`BEGIN; stmt; COMMIT|ROLLBACK` is ONE operation of a history)
#[derive(Clone, Copy, PartialEq, Eq, Hash, Debug, PartialOrd, Ord)]
enum Tx {
    Auto,
    Commit,
    Rollback,
}
impl Tx {
    fn name(self) -> &'static str {
        match self {
            Tx::Auto => "auto",
            Tx::Commit => "commit",
            Tx::Rollback => "rollback",
        }
    }
    fn suffix(self) -> &'static str {
        match self {
            Tx::Auto => "",
            Tx::Commit => "+C",
            Tx::Rollback => "+RB",
        }
    }
    fn end_stmt(self) -> Option<Stmt> {
        match self {
            Tx::Auto => None,
            Tx::Commit => Some(Stmt::Commit),
            Tx::Rollback => Some(Stmt::Rollback),
        }
    }
}
#[derive(Clone, Copy, PartialEq, Eq, Hash, Debug, PartialOrd, Ord)]
struct Op {
    k: OpK,
    ret: bool,
    tx: Tx,
}
impl Op {
    fn kind_name(self) -> &'static str {
        match self.k {
            OpK::Ins(_) => "INS",
            OpK::Ins2(..) => "INS2",
            OpK::Upd(_) => "UPD",
            OpK::UpdAll => "UPDALL",
            OpK::Del(_) => "DEL",
            OpK::DelAll => "DELALL",
            OpK::Trunc => "TRUNC",
        }
    }
    fn keys(self) -> Vec<u8> {
        match self.k {
            OpK::Ins(k) | OpK::Upd(k) | OpK::Del(k) => vec![k],
            OpK::Ins2(a, b) => vec![a, b],
            _ => vec![],
        }
    }
    fn counter_name(self) -> String {
        format!("op:{}{}{}", self.kind_name(), if self.ret { "+R" } else { "" }, self.tx.suffix())
    }
}
fn base_ops() -> Vec<OpK> {
    vec![OpK::Ins(1), OpK::Ins(2), OpK::Ins(3), OpK::Ins2(1, 2), OpK::Upd(1), OpK::Upd(2), OpK::Upd(3), OpK::UpdAll, OpK::Del(1), OpK::Del(2), OpK::Del(3), OpK::DelAll, OpK::Trunc]
}
/// every operation, plain first then with RETURNING * (TRUNCATE has no RETURNING)
fn all_ops() -> Vec<Op> {
    let mut v: Vec<Op> = base_ops().into_iter().map(|k| Op { k, ret: false, tx: Tx::Auto }).collect();
    v.extend(base_ops().into_iter().filter(|k| *k != OpK::Trunc).map(|k| Op { k, ret: true, tx: Tx::Auto }));
    v
}
/// alphabet of pass `txn` (no RETURNING, keys 1 and 2): autocommit statements that build and empty the table,
/// every statement kind inside BEGIN..COMMIT, and the single-/all-row kinds inside BEGIN..ROLLBACK
fn txn_ops() -> Vec<Op> {
    let mut v = vec![];
    for k in [OpK::Ins(1), OpK::Ins(2), OpK::Del(1), OpK::DelAll] {
        v.push(Op { k, ret: false, tx: Tx::Auto });
    }
    for k in [OpK::Ins(1), OpK::Ins2(1, 2), OpK::Upd(1), OpK::UpdAll, OpK::Del(1), OpK::DelAll] {
        v.push(Op { k, ret: false, tx: Tx::Commit });
    }
    for k in [OpK::Ins(1), OpK::Upd(1), OpK::Del(1), OpK::DelAll] {
        v.push(Op { k, ret: false, tx: Tx::Rollback });
    }
    v
}

/// one concrete statement: the operation plus its fresh value `c`
#[derive(Clone, Debug)]
struct CStmt {
    op: Op,
    c: i64,
    stmt: Stmt,
    sql: String,
}
impl CStmt {
    /// `strict` (pass `full`): the UPDATE of the TOAST schema also rewrites the 1.5 KB column (KF-C05-08 keeps
    /// that out of the other passes, where it only sets a)
    fn new(op: Op, c: i64, kind: Kind, strict: bool) -> CStmt {
        let row = |k: u8, c: i64| -> Row {
            let mut r = vec![V::Int(k as i64), V::Int(c)];
            if kind == Kind::Toast {
                r.push(V::Text(big(c)));
            }
            r
        };
        let stmt = match op.k {
            OpK::Ins(k) if kind == Kind::Dflt => {
                let i = Insert::literals("t", &["id", "a"], vec![row(k, c)]);
                Stmt::Insert(if op.ret { i.returning_all() } else { i })
            }
            OpK::Ins2(k1, k2) if kind == Kind::Dflt => {
                let with_d = |mut r: Row| -> Row {
                    r.push(V::Int(9));
                    r
                };
                let i = Insert::literals("t", &["id", "a", "d"], vec![with_d(row(k1, c)), with_d(row(k2, c + 50))]);
                Stmt::Insert(if op.ret { i.returning_all() } else { i })
            }
            OpK::Ins(k) => {
                let i = Insert::literals("t", &[], vec![row(k, c)]);
                Stmt::Insert(if op.ret { i.returning_all() } else { i })
            }
            OpK::Ins2(k1, k2) => {
                let i = Insert::literals("t", &[], vec![row(k1, c), row(k2, c + 50)]);
                Stmt::Insert(if op.ret { i.returning_all() } else { i })
            }
            OpK::Upd(k) => {
                let mut set = vec![("a", int(c))];
                if kind == Kind::Toast && strict {
                    set.push(("b", refmodel::sql::expr::lit(V::Text(big(c)))));
                }
                let u = Update::new("t", set, Some(eq(col("id"), int(k as i64))));
                Stmt::Update(if op.ret { u.returning_all() } else { u })
            }
            OpK::UpdAll => {
                let u = Update::new("t", vec![("a", add(col("a"), int(1)))], None);
                Stmt::Update(if op.ret { u.returning_all() } else { u })
            }
            OpK::Del(k) => {
                let d = Delete::new("t", Some(eq(col("id"), int(k as i64))));
                Stmt::Delete(if op.ret { d.returning_all() } else { d })
            }
            OpK::DelAll => {
                let d = Delete::new("t", None);
                Stmt::Delete(if op.ret { d.returning_all() } else { d })
            }
            OpK::Trunc => Stmt::Truncate { table: "t".into() },
        };
        let sql = stmt.to_sql();
        CStmt { op, c, stmt, sql }
    }
    /// the statement with its transaction bracket, for display
    fn full_sql(&self) -> String {
        match self.op.tx {
            Tx::Auto => self.sql.clone(),
            Tx::Commit => format!("BEGIN; {}; COMMIT", self.sql),
            Tx::Rollback => format!("BEGIN; {}; ROLLBACK", self.sql),
        }
    }
    /// the value counter of the statement at position `step` of a history
    fn at(op: Op, step: usize, kind: Kind, strict: bool) -> CStmt {
        CStmt::new(op, 100 * (step as i64 + 1), kind, strict)
    }
    fn to_json(&self) -> Value {
        if self.op.tx == Tx::Auto {
            json!({"op": self.op.kind_name(), "keys": self.op.keys(), "ret": self.op.ret, "c": self.c})
        } else {
            json!({"op": self.op.kind_name(), "keys": self.op.keys(), "ret": self.op.ret, "c": self.c, "tx": self.op.tx.name()})
        }
    }
    fn from_json(v: &Value, kind: Kind, strict: bool) -> Option<CStmt> {
        let keys: Vec<u8> = v["keys"].as_array()?.iter().filter_map(|x| x.as_u64().map(|k| k as u8)).collect();
        let k = match (v["op"].as_str()?, keys.as_slice()) {
            ("INS", [k]) => OpK::Ins(*k),
            ("INS2", [a, b]) => OpK::Ins2(*a, *b),
            ("UPD", [k]) => OpK::Upd(*k),
            ("UPDALL", []) => OpK::UpdAll,
            ("DEL", [k]) => OpK::Del(*k),
            ("DELALL", []) => OpK::DelAll,
            ("TRUNC", []) => OpK::Trunc,
            _ => return None,
        };
        let tx = match v["tx"].as_str() {
            Some("commit") => Tx::Commit,
            Some("rollback") => Tx::Rollback,
            _ => Tx::Auto,
        };
        Some(CStmt::new(Op { k, ret: v["ret"].as_bool()?, tx }, v["c"].as_i64()?, kind, strict))
    }
}
fn history_json(kind: Kind, pass: &str, h: &[CStmt]) -> Value {
    json!({"kind": kind.name(), "pass": pass, "history": h.iter().map(|c| c.to_json()).collect::<Vec<_>>(), "sql": h.iter().map(|c| vcore::util::clip(&c.full_sql(), 120)).collect::<Vec<_>>()})
}

/// canonical operation pattern: keys renamed k, j, m in order of first appearance, values dropped
fn pattern(h: &[CStmt]) -> String {
    let names = ["k", "j", "m"];
    let mut seen: Vec<u8> = vec![];
    let mut parts = vec![];
    for c in h {
        let ks: Vec<&str> = c
            .op
            .keys()
            .iter()
            .map(|k| {
                let i = match seen.iter().position(|x| x == k) {
                    Some(i) => i,
                    None => {
                        seen.push(*k);
                        seen.len() - 1
                    }
                };
                names[i.min(2)]
            })
            .collect();
        let mut s = c.op.kind_name().to_string();
        if !ks.is_empty() {
            s.push(' ');
            s.push_str(&ks.join(","));
        }
        if c.op.ret {
            s.push_str("+R");
        }
        s.push_str(c.op.tx.suffix());
        parts.push(s);
    }
    format!("[{}]", parts.join(";"))
}

// ---------------------------------------------------------------------------
// lock-step execution and oracle
// ---------------------------------------------------------------------------
#[derive(Clone, Debug)]
struct Fail {
    oracle: &'static str,
    cls: String,
    expected: String,
    observed: String,
}
fn fail(oracle: &'static str, cls: &str, expected: String, observed: String) -> Fail {
    Fail { oracle, cls: cls.to_string(), expected, observed }
}

/// Hidden extra statement simulating a defect of the subject (self-test of the harness, `--opt plant=..`)
#[derive(Clone, Copy, PartialEq, Eq, Debug)]
enum Plant {
    None,
    /// after every UPDATE-all the row with id 3 silently disappears
    LostRow,
    /// after every single-row INSERT of key 2 the value of a is one too large
    WrongValue,
    /// kind dflt: RETURNING of an INSERT shows NULL in the columns the statement omitted (the stored row is right)
    ReturningNullDefault,
}
impl Plant {
    fn from_ctx(ctx: &Ctx) -> Plant {
        match ctx.opt("plant") {
            Some("lost-row") => Plant::LostRow,
            Some("wrong-value") => Plant::WrongValue,
            Some("returning-null-default") => Plant::ReturningNullDefault,
            Some(o) => vcore::machinery(&format!("unknown plant {o}")),
            None => Plant::None,
        }
    }
}

/// the model and the harness-side bookkeeping that travel with a history prefix
#[derive(Clone)]
struct Track {
    st: State,
    /// every value column a ever held (probed through the secondary index)
    seen_a: BTreeSet<i64>,
    /// keys that carry a tombstone (deleted by DELETE since the last TRUNCATE; a re-insert gets a new row id)
    tomb: BTreeSet<u8>,
    /// some row was tombstoned since the table was created / truncated
    any_tomb: bool,
    /// soft oracles that already failed on this history (reported once, then switched off for its extensions)
    off: BTreeSet<&'static str>,
}
impl Track {
    fn new(kind: Kind) -> Track {
        let mut st = State::new();
        for s in kind.ddl() {
            s.apply(&mut st).expect("model DDL");
        }
        Track { st, seen_a: BTreeSet::new(), tomb: BTreeSet::new(), any_tomb: false, off: BTreeSet::new() }
    }
    fn live_keys(&self) -> Vec<u8> {
        let mut v: Vec<u8> = self.st.rows("t").iter().filter_map(|r| if let V::Int(i) = r[0] { Some(i as u8) } else { None }).collect();
        v.sort();
        v
    }
    fn note_values(&mut self, rows: &[Row]) {
        for r in rows {
            if let Some(V::Int(a)) = r.get(1) {
                self.seen_a.insert(*a);
            }
        }
    }
    /// bookkeeping of tombstones BEFORE the model applies the statement
    fn before(&mut self, op: Op) {
        let live = self.live_keys();
        match op.k {
            OpK::Del(k) => {
                if live.contains(&k) {
                    self.tomb.insert(k);
                    self.any_tomb = true;
                }
            }
            OpK::DelAll => {
                for k in live {
                    self.tomb.insert(k);
                    self.any_tomb = true;
                }
            }
            OpK::Trunc => {
                self.tomb.clear();
                self.any_tomb = false;
            }
            _ => {}
        }
    }
}

/// the operation on the model: the statement, bracketed by BEGIN .. COMMIT / ROLLBACK when the operation says so
/// (a rolled-back statement leaves no tombstone bookkeeping behind: its rows were never deleted for the model)
fn model_step(tr: &mut Track, cs: &CStmt) -> Result<Outcome, refmodel::sql::rel::ModelErr> {
    match cs.op.tx.end_stmt() {
        None => {
            tr.before(cs.op);
            cs.stmt.apply(&mut tr.st)
        }
        Some(end) => {
            if cs.op.tx == Tx::Commit {
                tr.before(cs.op);
            }
            Stmt::Begin.apply(&mut tr.st).unwrap_or_else(|e| vcore::machinery(&format!("C05: model refuses BEGIN: {e:?}")));
            let r = cs.stmt.apply(&mut tr.st);
            end.apply(&mut tr.st).unwrap_or_else(|e| vcore::machinery(&format!("C05: model refuses {}: {e:?}", end.to_sql())));
            r
        }
    }
}
/// the operation on the database: result of the statement itself and, if BEGIN / COMMIT / ROLLBACK was refused,
/// which one and how
fn exec_op(t: &TestDb, cs: &CStmt) -> (Res, Option<(&'static str, Res)>) {
    let Some(end) = cs.op.tx.end_stmt() else { return (t.exec(&cs.sql), None) };
    let b = t.exec("BEGIN");
    if !b.ok() {
        return (b.clone(), Some(("begin", b)));
    }
    let got = t.exec(&cs.sql);
    let e = t.exec(&end.to_sql());
    let bad = if e.ok() { None } else { Some((if cs.op.tx == Tx::Commit { "commit" } else { "rollback" }, e)) };
    (got, bad)
}

fn fresh_db(base: &Path, name: &str, kind: Kind) -> TestDb {
    let t = TestDb::create(base, name).unwrap_or_else(|e| vcore::machinery(&format!("create database: {e}")));
    for s in kind.ddl() {
        let r = t.exec(&s.to_sql());
        if !r.ok() {
            vcore::machinery(&format!("DDL {} failed: {}", s.to_sql(), r.show()));
        }
    }
    t
}

fn rows_cls(exp: &[Row], obs: &[Row]) -> &'static str {
    if obs.len() > exp.len() {
        "bag>more-rows"
    } else if obs.len() < exp.len() {
        "bag>fewer-rows"
    } else {
        "bag>different-rows"
    }
}

/// Execute one statement on the database and on the model, observe, compare.  Returns every
/// failing oracle (empty = agreement).
fn step(t: &TestDb, tr: &mut Track, cs: &CStmt, kind: Kind, strict: bool, plant: Plant, mut rep: Option<&mut Reporter>) -> Vec<Fail> {
    let mut fails = vec![];
    let exp = model_step(tr, cs);
    let (mut got, txn_bad) = exec_op(t, cs);
    if let Some((what, r)) = &txn_bad {
        fails.push(fail("error", &format!("ok>{what}-refused"), format!("{} succeeds", cs.full_sql().chars().take(100).collect::<String>()), format!("{} => {}", what.to_uppercase(), r.show())));
    }
    if plant == Plant::ReturningNullDefault && kind == Kind::Dflt {
        if let (OpK::Ins(_) | OpK::Ins2(..), Res::Affected(_, Some(rows))) = (cs.op.k, &mut got) {
            let keep = if matches!(cs.op.k, OpK::Ins(_)) { 2 } else { 3 };
            for r in rows.iter_mut() {
                for v in r.iter_mut().skip(keep) {
                    *v = V::Null;
                }
            }
        }
    }
    match (plant, cs.op.k) {
        (Plant::LostRow, OpK::UpdAll) => {
            let _ = t.exec("DELETE FROM t WHERE id = 3");
        }
        (Plant::WrongValue, OpK::Ins(2)) if got.ok() => {
            let _ = t.exec(&format!("UPDATE t SET a = a + 1 WHERE id = 2 AND a = {}", cs.c));
        }
        _ => {}
    }
    let model_rows = tr.st.rows("t");
    tr.note_values(&model_rows);
    if let Some(r) = rep.as_deref_mut() {
        r.count(&cs.op.counter_name(), 1);
        r.outcome(&format!("{}:{}", cs.op.kind_name(), got.class()));
        match &exp {
            Err(e) => r.count(&format!("model_err:{}", e.class()), 1),
            Ok(Outcome::Affected { count, .. }) => {
                if *count == 0 {
                    r.count("model_affected_zero", 1)
                } else if *count > 1 {
                    r.count("model_affected_multi", 1)
                }
            }
            _ => {}
        }
        if let Res::Err(e) = &got {
            let c = if e.contains("PRIMARY KEY") { "primary-key" } else { "other" };
            r.count(&format!("impl_err:{c}"), 1);
        }
        if kind == Kind::Dflt && got.ok() {
            if let (OpK::Ins(_) | OpK::Ins2(..), Ok(Outcome::Affected { count, .. })) = (cs.op.k, &exp) {
                r.count(if cs.op.ret { "default_rows_inserted_with_returning" } else { "default_rows_inserted" }, *count as u64);
            }
        }
        if kind == Kind::Toast && got.ok() {
            if let (OpK::Ins(_) | OpK::Ins2(..) | OpK::Upd(_), Ok(Outcome::Affected { count, .. })) = (cs.op.k, &exp) {
                if matches!(cs.op.k, OpK::Upd(_)) && !strict {
                    r.count("toast_rows_rewritten_keeping_pointer", *count as u64);
                } else {
                    r.count("toast_rows_written", *count as u64);
                }
            }
        }
    }
    // ---- statement result
    match (&exp, &got) {
        (Ok(Outcome::Affected { count, returning, .. }), Res::Affected(n, ret)) => {
            if n != count {
                fails.push(fail("affected", if n > count { "exact>more" } else { "exact>fewer" }, format!("{count} rows affected by {}", vcore::util::clip(&cs.sql, 100)), format!("{n} rows affected")));
            }
            match (returning, ret) {
                (Some(e), Some(o)) => {
                    // tolerance of the non-strict passes (KF-C05-06): the TOAST column of RETURNING rows is not compared
                    let cut = |rows: &[Row]| -> Vec<Row> { if !strict && kind == Kind::Toast { rows.iter().map(|r| r.iter().take(2).cloned().collect()).collect() } else { rows.to_vec() } };
                    let (eb, ob) = (bag(&cut(e)), bag(&cut(o)));
                    if eb != ob {
                        fails.push(fail("returning", rows_cls(&eb, &ob), format!("RETURNING {}", show_rows(&eb)), format!("RETURNING {}", show_rows(&ob))));
                    }
                }
                (Some(e), None) => fails.push(fail("returning", "bag>none", format!("RETURNING {}", show_rows(&bag(e))), "no RETURNING rows reported (returned = None)".into())),
                (None, Some(o)) if !o.is_empty() => fails.push(fail("returning", "none>rows", "no RETURNING clause".into(), format!("RETURNING {}", show_rows(o)))),
                _ => {}
            }
        }
        (Ok(_), Res::Err(e)) => fails.push(fail("error", "ok>err", format!("{} succeeds", vcore::util::clip(&cs.sql, 100)), format!("Err({})", vcore::util::clip(e, 200)))),
        (Ok(_), Res::Panic(e)) => fails.push(fail("error", "ok>panic", format!("{} succeeds", vcore::util::clip(&cs.sql, 100)), format!("PANIC({})", vcore::util::clip(e, 200)))),
        (Err(m), Res::Panic(e)) => fails.push(fail("error", "err>panic", format!("error {}", m.class()), format!("PANIC({})", vcore::util::clip(e, 200)))),
        (Err(m), Res::Err(_)) => {
            let _ = m;
        }
        (Err(m), o) => fails.push(fail("error", &format!("err({})>ok", m.class()), format!("{} fails with {:?}", vcore::util::clip(&cs.sql, 100), m), o.show())),
        (Ok(_), o) => fails.push(fail("error", "affected>other", "an affected-row result".into(), o.show())),
    }
    // ---- observations
    let exp_rows = bag(&model_rows);
    let obs_rows: Option<Vec<Row>> = match t.exec("SELECT * FROM t") {
        Res::Rows(r) => Some(bag(&r)),
        o => {
            fails.push(fail("rows", &format!("bag>{}", o.class()), format!("SELECT * = {}", show_rows(&exp_rows)), o.show()));
            None
        }
    };
    if let Some(obs) = &obs_rows {
        tr.note_values(obs);
        if *obs != exp_rows {
            fails.push(fail("rows", rows_cls(&exp_rows, obs), format!("SELECT * = {}", show_rows(&exp_rows)), format!("SELECT * = {}", show_rows(obs))));
        }
        match t.exec("SELECT COUNT(*) FROM t") {
            Res::Rows(r) if r.len() == 1 && r[0].len() == 1 => {
                let n = match &r[0][0] {
                    V::Int(i) => *i,
                    _ => -1,
                };
                if n != obs.len() as i64 {
                    fails.push(fail("count-star", if n > obs.len() as i64 { "visible>more" } else { "visible>fewer" }, format!("COUNT(*) = {} (rows shown by SELECT *)", obs.len()), format!("COUNT(*) = {}", r[0][0].show())));
                }
            }
            o => fails.push(fail("count-star", &format!("visible>{}", o.class()), format!("COUNT(*) = {}", obs.len()), o.show())),
        }
        let mut lookups = 0u64;
        for k in 1..=3i64 {
            let want: Vec<Row> = obs.iter().filter(|r| r[0] == V::Int(k)).cloned().collect();
            lookups += 1;
            match t.exec(&format!("SELECT * FROM t WHERE id = {k}")) {
                Res::Rows(r) => {
                    let b = bag(&r);
                    if b != want {
                        let cls = if want.is_empty() { "absent>present" } else if b.is_empty() { "present>absent" } else { rows_cls(&want, &b) };
                        fails.push(fail("pk-lookup", cls, format!("WHERE id = {k} gives {} (the rows SELECT * shows)", show_rows(&want)), show_rows(&b)));
                        break;
                    }
                }
                o => {
                    fails.push(fail("pk-lookup", &format!("bag>{}", o.class()), format!("WHERE id = {k} gives {}", show_rows(&want)), o.show()));
                    break;
                }
            }
        }
        if let Some(r) = rep.as_deref_mut() {
            r.count(if kind.has_pk() { "pk_point_lookups" } else { "id_filter_scans" }, lookups);
        }
        if kind == Kind::PkIdx && strict && !tr.off.contains("idx-lookup") {
            let mut n = 0u64;
            for v in tr.seen_a.clone() {
                let want: Vec<Row> = obs.iter().filter(|r| r[1] == V::Int(v)).cloned().collect();
                n += 1;
                match t.exec(&format!("SELECT * FROM t WHERE a = {v}")) {
                    Res::Rows(r) => {
                        let b = bag(&r);
                        if b != want {
                            let cls = if want.is_empty() { "absent>present" } else if b.is_empty() { "present>absent" } else { rows_cls(&want, &b) };
                            fails.push(fail("idx-lookup", cls, format!("WHERE a = {v} gives {} (the rows SELECT * shows)", show_rows(&want)), show_rows(&b)));
                            break;
                        }
                    }
                    o => {
                        fails.push(fail("idx-lookup", &format!("bag>{}", o.class()), format!("WHERE a = {v} gives {}", show_rows(&want)), o.show()));
                        break;
                    }
                }
            }
            if let Some(r) = rep.as_deref_mut() {
                r.count("secondary_index_lookups", n);
            }
        }
    }
    fails.retain(|f| !tr.off.contains(f.oracle));
    fails
}

/// Observation-only oracles: a mismatch says nothing about the table state (which `rows` checks
/// against the model at the same step), so the history is NOT cut there; the oracle is reported once
/// and switched off for the extensions of that history.
const SOFT: [&str; 2] = ["returning", "idx-lookup"];
/// record soft failures in the track; true = the step is a real divergence (cut the history here)
fn settle(tr: &mut Track, fails: &[Fail]) -> bool {
    let mut fatal = false;
    for f in fails {
        if SOFT.contains(&f.oracle) {
            tr.off.insert(f.oracle);
        } else {
            fatal = true;
        }
    }
    fatal
}

/// Run a whole history on a fresh database with the oracle after every statement: every step with a
/// failing oracle, up to and including the first real divergence.
fn run_all(base: &Path, kind: Kind, h: &[CStmt], strict: bool, plant: Plant) -> Vec<(usize, Vec<Fail>)> {
    let t = fresh_db(base, "shrink", kind);
    let mut tr = Track::new(kind);
    let mut out = vec![];
    for (i, cs) in h.iter().enumerate() {
        let f = step(&t, &mut tr, cs, kind, strict, plant, None);
        if !f.is_empty() {
            let fatal = settle(&mut tr, &f);
            out.push((i, f));
            if fatal {
                break;
            }
        }
    }
    out
}

/// Shrink a failing history while oracle `oracle` still fails with class `cls`.
fn shrink(base: &Path, kind: Kind, h: &[CStmt], oracle: &str, cls: &str, strict: bool, plant: Plant, runs: &mut u64) -> Vec<CStmt> {
    let mut cur: Vec<CStmt> = h.to_vec();
    let still = |cand: &[CStmt], runs: &mut u64| -> Option<usize> {
        *runs += 1;
        run_all(base, kind, cand, strict, plant).into_iter().find(|(_, fs)| fs.iter().any(|f| f.oracle == oracle && f.cls == cls)).map(|(i, _)| i)
    };
    loop {
        let mut changed = false;
        // drop one statement
        let mut i = 0;
        while i < cur.len() {
            let mut cand = cur.clone();
            cand.remove(i);
            if !cand.is_empty() {
                if let Some(at) = still(&cand, runs) {
                    cand.truncate(at + 1);
                    cur = cand;
                    changed = true;
                    continue;
                }
            }
            i += 1;
        }
        // simplify one statement: drop RETURNING, split a two-row insert
        for i in 0..cur.len() {
            let mut alts: Vec<Op> = vec![];
            let tx = cur[i].op.tx;
            // a statement that fails just as well without its transaction bracket is blamed without it
            if tx != Tx::Auto {
                alts.push(Op { k: cur[i].op.k, ret: cur[i].op.ret, tx: Tx::Auto });
            }
            if cur[i].op.ret {
                alts.push(Op { k: cur[i].op.k, ret: false, tx });
            }
            if let OpK::Ins2(a, b) = cur[i].op.k {
                alts.push(Op { k: OpK::Ins(a), ret: cur[i].op.ret, tx });
                alts.push(Op { k: OpK::Ins(b), ret: cur[i].op.ret, tx });
            }
            // set-up statements (not the failing one): prefer the keyed single-row form
            if i + 1 < cur.len() {
                for k in 1..=3u8 {
                    match cur[i].op.k {
                        OpK::DelAll => alts.push(Op { k: OpK::Del(k), ret: cur[i].op.ret, tx }),
                        OpK::UpdAll => alts.push(Op { k: OpK::Upd(k), ret: cur[i].op.ret, tx }),
                        _ => {}
                    }
                }
            }
            for alt in alts {
                let mut cand = cur.clone();
                cand[i] = CStmt::new(alt, cur[i].c, kind, strict);
                if let Some(at) = still(&cand, runs) {
                    cand.truncate(at + 1);
                    cur = cand;
                    changed = true;
                    break;
                }
            }
            if i >= cur.len() {
                break;
            }
        }
        if !changed {
            return cur;
        }
    }
}

/// Histories obtainable from `h` by the shrink moves (drop statements, drop RETURNING, split a two-row
/// INSERT, keyed form of a set-up DELETE/UPDATE-all) that have exactly the shape of `min` with its
/// keys renamed one-to-one; they end with the last statement of `h`.  Concrete values come from `h`.
fn embeddings(h: &[CStmt], min: &[CStmt], kind: Kind, strict: bool) -> Vec<Vec<CStmt>> {
    // map: (key of min, key of h)
    fn bind(map: &mut Vec<(u8, u8)>, a: u8, b: u8) -> Option<bool> {
        match map.iter().find(|(x, y)| *x == a || *y == b) {
            Some((x, y)) if *x == a && *y == b => Some(false),
            Some(_) => None,
            None => {
                map.push((a, b));
                Some(true)
            }
        }
    }
    #[allow(clippy::too_many_arguments)]
    fn go(h: &[CStmt], min: &[CStmt], hi: usize, mi: usize, map: &mut Vec<(u8, u8)>, pick: &mut Vec<(usize, Op)>, out: &mut Vec<Vec<(usize, Op)>>) {
        if out.len() >= 4 {
            return;
        }
        if mi == min.len() {
            out.push(pick.clone());
            return;
        }
        let remaining = min.len() - mi;
        let last = remaining == 1;
        for i in hi..h.len() {
            if h.len() - i < remaining {
                break;
            }
            if last && i + 1 != h.len() {
                continue;
            }
            let (ho, mo) = (h[i].op, min[mi].op);
            if !(mo.ret == ho.ret || (ho.ret && !mo.ret)) {
                continue;
            }
            if !(mo.tx == ho.tx || mo.tx == Tx::Auto) {
                continue;
            }
            // candidate key bindings (min key -> h key) that make h[i] an instance / generalisation of min[mi]
            let options: Vec<Vec<(u8, u8)>> = match (mo.k, ho.k) {
                (OpK::Ins(x), OpK::Ins(a)) | (OpK::Upd(x), OpK::Upd(a)) | (OpK::Del(x), OpK::Del(a)) => vec![vec![(x, a)]],
                (OpK::Ins2(x, y), OpK::Ins2(a, b)) => vec![vec![(x, a), (y, b)]],
                (OpK::Ins(x), OpK::Ins2(a, b)) => vec![vec![(x, a)], vec![(x, b)]],
                (OpK::Del(x), OpK::DelAll) | (OpK::Upd(x), OpK::UpdAll) if !last => (1..=3u8).map(|k| vec![(x, k)]).collect(),
                (OpK::UpdAll, OpK::UpdAll) | (OpK::DelAll, OpK::DelAll) | (OpK::Trunc, OpK::Trunc) => vec![vec![]],
                _ => vec![],
            };
            for opt in options {
                let mark = map.len();
                let mut ok = true;
                for (a, b) in &opt {
                    if bind(map, *a, *b).is_none() {
                        ok = false;
                        break;
                    }
                }
                if ok {
                    let k = match mo.k {
                        OpK::Ins(_) => OpK::Ins(opt[0].1),
                        OpK::Upd(_) => OpK::Upd(opt[0].1),
                        OpK::Del(_) => OpK::Del(opt[0].1),
                        OpK::Ins2(..) => OpK::Ins2(opt[0].1, opt[1].1),
                        o => o,
                    };
                    pick.push((i, Op { k, ret: mo.ret, tx: mo.tx }));
                    go(h, min, i + 1, mi + 1, map, pick, out);
                    pick.pop();
                }
                map.truncate(mark);
            }
        }
    }
    if min.is_empty() || min.len() > h.len() {
        return vec![];
    }
    let mut picks = vec![];
    go(h, min, 0, 0, &mut vec![], &mut vec![], &mut picks);
    picks.into_iter().map(|p| p.into_iter().map(|(i, op)| CStmt::new(op, h[i].c, kind, strict)).collect::<Vec<CStmt>>()).filter(|c: &Vec<CStmt>| pattern(c) == pattern(min)).collect()
}

fn signature(kind: Kind, oracle: &str, minimal: &[CStmt], cls: &str) -> String {
    format!("C05/{}/{}/{}/{}", oracle, kind.name(), pattern(minimal), cls)
}

// ---------------------------------------------------------------------------
// passes
// ---------------------------------------------------------------------------
#[derive(Clone, Copy, PartialEq, Eq, Debug)]
enum Rule {
    /// every operation in every state, every oracle strict
    Full,
    /// the constructs listed in findings.d/C05.json are excluded (state-aware alphabet, two tolerances)
    Live,
}
#[derive(Clone, Copy, PartialEq, Eq, Debug)]
enum Family {
    /// plain and RETURNING forms mixed (25 operations)
    Mixed,
    /// no RETURNING anywhere (13 operations)
    Plain,
    /// every INSERT/UPDATE/DELETE carries RETURNING * (12 operations + TRUNCATE)
    Ret,
    /// `txn_ops()`: 4 autocommit + 6 committed + 4 rolled-back operations
    Txn,
}
struct Pass {
    name: &'static str,
    rule: Rule,
    family: Family,
    depth_q: usize,
    depth_t: usize,
}
const PASSES: [Pass; 5] = [
    Pass { name: "txn", rule: Rule::Full, family: Family::Txn, depth_q: 3, depth_t: 4 },
    Pass { name: "full", rule: Rule::Full, family: Family::Mixed, depth_q: 3, depth_t: 4 },
    Pass { name: "live-plain", rule: Rule::Live, family: Family::Plain, depth_q: 4, depth_t: 6 },
    Pass { name: "live-ret", rule: Rule::Live, family: Family::Ret, depth_q: 4, depth_t: 6 },
    Pass { name: "live-mixed", rule: Rule::Live, family: Family::Mixed, depth_q: 4, depth_t: 5 },
];
fn pass_by_name(n: &str) -> &'static Pass {
    PASSES.iter().find(|p| p.name == n).unwrap_or_else(|| PASSES.iter().find(|p| p.name == "full").expect("pass full"))
}
impl Pass {
    fn strict(&self) -> bool {
        self.rule == Rule::Full
    }
    fn ops(&self) -> Vec<Op> {
        if self.family == Family::Txn {
            return txn_ops();
        }
        all_ops()
            .into_iter()
            .filter(|op| match self.family {
                Family::Mixed => true,
                Family::Plain => !op.ret,
                Family::Ret => op.ret || op.k == OpK::Trunc,
                Family::Txn => false,
            })
            .collect()
    }
}

/// operations of the pass alphabet enabled in the (model) state `tr`.
///
/// Rule::Live leaves out exactly the constructs of the open findings (see findings.d/C05.json):
///  * a statement whose WHERE clause (or absence of one) covers a tombstoned row: UPDATE/DELETE
///    without WHERE and TRUNCATE once any row was deleted; `WHERE id = k` when k carries a
///    tombstone and (PK kinds) k is not live (a live k is found through the PK index, which
///    holds only the live row) or (no PK) k was ever deleted;
///  * `WHERE id = k` for a key that never existed (0-row statements; covered by pass `full`, left
///    out here only to spend the depth on state-changing statements);
///  * the two-row INSERT when its first row would succeed and its second row collides;
///  * `UPDATE .. WHERE id = k RETURNING *` through the one-pass PK path (kinds pk, pkidx).
fn enabled(pass: &Pass, kind: Kind, tr: &Track) -> Vec<Op> {
    let live = tr.live_keys();
    pass.ops()
        .into_iter()
        .filter(|op| match pass.rule {
            Rule::Full => true,
            Rule::Live => match op.k {
                OpK::Del(k) | OpK::Upd(k) => {
                    if matches!(op.k, OpK::Upd(_)) && op.ret && matches!(kind, Kind::Pk | Kind::PkIdx) {
                        return false;
                    }
                    if kind.has_pk() {
                        live.contains(&k)
                    } else {
                        live.contains(&k) && !tr.tomb.contains(&k)
                    }
                }
                OpK::UpdAll | OpK::DelAll | OpK::Trunc => !tr.any_tomb,
                OpK::Ins(_) => true,
                OpK::Ins2(a, b) => !(kind.has_pk() && !live.contains(&a) && live.contains(&b)),
            },
        })
        .collect()
}

type AbsKey = (Vec<u8>, Vec<u8>, bool);
/// abstract state that determines the enabled sets of all extensions (for counting)
fn abs_key(tr: &Track) -> AbsKey {
    (tr.live_keys(), tr.tomb.iter().copied().collect(), tr.any_tomb)
}
/// number of histories of the pass that properly extend the prefix in state `tr` by 1..=rem statements
fn count_ext(pass: &Pass, kind: Kind, tr: &Track, step: usize, rem: usize, memo: &mut HashMap<(AbsKey, usize), u64>) -> u64 {
    if rem == 0 {
        return 0;
    }
    if pass.rule == Rule::Full {
        let b = pass.ops().len() as u64;
        return (1..=rem as u32).map(|i| b.pow(i)).sum();
    }
    let key = (abs_key(tr), rem);
    if let Some(n) = memo.get(&key) {
        return *n;
    }
    let mut n = 0;
    for op in enabled(pass, kind, tr) {
        let cs = CStmt::at(op, step, kind, pass.strict());
        let mut t2 = tr.clone();
        let _ = model_step(&mut t2, &cs);
        n += 1 + count_ext(pass, kind, &t2, step + 1, rem - 1, memo);
    }
    memo.insert(key, n);
    n
}

// ---------------------------------------------------------------------------
// exploration
// ---------------------------------------------------------------------------
struct Explorer<'a> {
    ctx: &'a Ctx,
    plant: Plant,
    db_seq: u64,
    /// (kind, oracle, cls, pattern of the unshrunk divergent history) -> (signature, minimal case)
    shrink_memo: BTreeMap<(Kind, String, String, String), (String, Value)>,
    ext_memo: HashMap<(AbsKey, usize), u64>,
    capped: bool,
    since_check: u32,
    index_plan: BTreeMap<Kind, bool>,
    /// what this worker learnt about executed histories: real divergence (nothing below is explored)
    /// and soft oracles that failed there (switched off below)
    known: HashMap<(usize, Kind, Vec<Op>), PrefixInfo>,
    /// minimal failing histories established by a full shrink, per (kind, strict, oracle, class)
    minimals: BTreeMap<(Kind, bool, String, String), Vec<(Vec<CStmt>, String, Value)>>,
}
struct PrefixInfo {
    fatal: bool,
    off: Vec<&'static str>,
}

impl<'a> Explorer<'a> {
    fn new(ctx: &'a Ctx) -> Explorer<'a> {
        Explorer { ctx, plant: Plant::from_ctx(ctx), db_seq: 0, shrink_memo: BTreeMap::new(), ext_memo: HashMap::new(), capped: false, since_check: 0, index_plan: BTreeMap::new(), known: HashMap::new(), minimals: BTreeMap::new() }
    }
    fn fresh(&mut self, kind: Kind) -> TestDb {
        self.db_seq += 1;
        fresh_db(&self.ctx.scratch, &format!("d{}", self.db_seq % 64), kind)
    }
    fn plant_after(&self, t: &TestDb, cs: &CStmt) {
        match (self.plant, cs.op.k) {
            (Plant::LostRow, OpK::UpdAll) => {
                let _ = t.exec("DELETE FROM t WHERE id = 3");
            }
            (Plant::WrongValue, OpK::Ins(2)) => {
                let _ = t.exec(&format!("UPDATE t SET a = a + 1 WHERE id = 2 AND a = {}", cs.c));
            }
            _ => {}
        }
    }
    fn check_deadline(&mut self, rep: &mut Reporter, what: &str) -> bool {
        if self.capped {
            return true;
        }
        self.since_check += 1;
        if self.since_check >= 16 {
            self.since_check = 0;
            if self.ctx.expired() {
                rep.capped(&format!("deadline during {what}"));
                self.capped = true;
            }
        }
        self.capped
    }

    /// plans of the lookup probes (once per kind per worker)
    fn plans(&mut self, kind: Kind, rep: &mut Reporter) {
        if self.index_plan.contains_key(&kind) {
            return;
        }
        let t = self.fresh(kind);
        for (i, op) in [OpK::Ins(1), OpK::Ins(2), OpK::Ins(3)].into_iter().enumerate() {
            let _ = t.exec(&CStmt::at(Op { k: op, ret: false, tx: Tx::Auto }, i, kind, true).sql);
        }
        let p = explain(t.db(), "SELECT * FROM t WHERE id = 2").unwrap_or_default();
        let via_index = p.contains("IndexScan");
        self.index_plan.insert(kind, via_index);
        rep.outcome(&format!("plan:{}:id-lookup:{}", kind.name(), if p.contains("SecondaryIndexScan") { "SecondaryIndexScan" } else if via_index { "IndexScan" } else if p.contains("Scan") { "TableScan+Filter" } else { "other" }));
        if kind == Kind::PkIdx {
            let p = explain(t.db(), "SELECT * FROM t WHERE a = 200").unwrap_or_default();
            rep.outcome(&format!("plan:pkidx:a-lookup:{}", if p.contains("using ia") || p.contains("SecondaryIndexScan") { "SecondaryIndexScan" } else { "no-index" }));
            if p.contains("IndexScan") {
                rep.count("explain_secondary_index_plan", 1);
            }
        }
        if kind == Kind::Toast {
            // the 1.5 KB values really went to the TOAST file
            let mut sz = 0;
            for e in std::fs::read_dir(t.dir.join("root")).into_iter().flatten().flatten() {
                if e.file_name().to_string_lossy().contains("toast") {
                    sz += e.metadata().map(|m| m.len()).unwrap_or(0);
                }
            }
            rep.bound("toast_file_bytes_after_3_inserts", json!(sz));
        }
    }

    fn report(&mut self, rep: &mut Reporter, pass: &Pass, kind: Kind, h: &[CStmt], fails: &[Fail]) {
        for f in fails {
            let key = (kind, f.oracle.to_string(), f.cls.clone(), pattern(h));
            let mkey = (kind, pass.strict(), f.oracle.to_string(), f.cls.clone());
            let mut found = self.shrink_memo.get(&key).cloned();
            if found.is_some() {
                rep.count("shrink_memo_hits", 1);
            }
            // shortcut: a minimal pattern already established for this oracle/class that is embedded in
            // `h` (same operations, keys renamed) and — checked by one execution — fails on its own
            if found.is_none() {
                let mut runs = 0u64;
                'outer: for (min, sig, case) in self.minimals.get(&mkey).cloned().unwrap_or_default() {
                    for cand in embeddings(h, &min, kind, pass.strict()).into_iter().take(3) {
                        runs += 1;
                        let ok = run_all(&self.ctx.scratch, kind, &cand, pass.strict(), self.plant).iter().any(|(i, fs)| *i + 1 == cand.len() && fs.iter().any(|x| x.oracle == f.oracle && x.cls == f.cls));
                        if ok {
                            found = Some((sig.clone(), case.clone()));
                            rep.count("shrink_shortcut_hits", 1);
                            break 'outer;
                        }
                    }
                }
                rep.count("shrink_runs", runs);
                if let Some(x) = &found {
                    self.shrink_memo.insert(key.clone(), x.clone());
                }
            }
            let (sig, case) = match found {
                Some(x) => x,
                None => {
                    let mut runs = 0;
                    let min = shrink(&self.ctx.scratch, kind, h, f.oracle, &f.cls, pass.strict(), self.plant, &mut runs);
                    rep.count("shrink_runs", runs);
                    rep.count("shrink_full", 1);
                    let sig = signature(kind, f.oracle, &min, &f.cls);
                    let mut case = history_json(kind, pass.name, &min);
                    case["found_in"] = json!({"pattern": pattern(h)});
                    self.shrink_memo.insert(key, (sig.clone(), case.clone()));
                    let e = self.minimals.entry(mkey).or_default();
                    if !e.iter().any(|(_, s, _)| *s == sig) {
                        e.push((min, sig.clone(), case.clone()));
                    }
                    (sig, case)
                }
            };
            rep.count(&format!("divergence:{}:{}", pass.name, f.oracle), 1);
            rep.violation("C05", f.oracle, &sig, || case, &f.expected, &f.observed);
        }
    }

    /// one executed history (its last statement is the transition under test)
    fn account(&self, rep: &mut Reporter, kind: Kind, h: &[CStmt], tr_before: &Track, tr_after: &Track) {
        let ops: Vec<Op> = h.iter().map(|c| c.op).collect();
        let changed = tr_before.st.rows("t") != tr_after.st.rows("t");
        rep.case(vcore::util::hash_of(&(kind, &ops)), changed || h.last().map(|c| matches!(c.op.k, OpK::Ins(_) | OpK::Ins2(..))).unwrap_or(false));
        rep.add_states(1);
        rep.add_transitions(1);
        rep.add_traces_validated(1);
        rep.count(&format!("histories:len{}", h.len()), 1);
    }

    /// Execute the history `ops` on a fresh database; the LAST statement is the transition under test
    /// (oracle, accounting, report).  For `ops.len() <= split` the prefix statements run with the
    /// oracle too (their owners are other workers, so nothing is known about them here); deeper
    /// prefixes were executed by this worker on an earlier level: what it learnt is in `known`.
    fn run_leaf(&mut self, rep: &mut Reporter, pi: usize, kind: Kind, ops: &[Op], split: usize, depth: usize) {
        let pass = &PASSES[pi];
        let t = self.fresh(kind);
        let mut tr = Track::new(kind);
        let mut h: Vec<CStmt> = Vec::with_capacity(ops.len());
        let n = ops.len();
        for (i, op) in ops.iter().enumerate() {
            let last = i + 1 == n;
            let cs = CStmt::at(*op, i, kind, pass.strict());
            let before = if last { Some(tr.clone()) } else { None };
            if last || n <= split {
                let fails = step(&t, &mut tr, &cs, kind, pass.strict(), self.plant, if last { Some(rep) } else { None });
                h.push(cs);
                let new_off: Vec<&'static str> = fails.iter().filter(|f| SOFT.contains(&f.oracle)).map(|f| f.oracle).collect();
                let fatal = settle(&mut tr, &fails);
                if fatal || !new_off.is_empty() {
                    self.known.insert((pi, kind, ops[..=i].to_vec()), PrefixInfo { fatal, off: new_off });
                }
                if last {
                    self.account(rep, kind, &h, before.as_ref().unwrap(), &tr);
                    if !fails.is_empty() {
                        self.report(rep, pass, kind, &h, &fails);
                    }
                    if fatal {
                        let n = count_ext(pass, kind, &tr, h.len(), depth - h.len(), &mut self.ext_memo);
                        rep.pruned(n);
                        rep.count(&format!("pruned:{}", pass.name), n);
                    } else if n == depth {
                        self.leaf(rep, kind, &t);
                    }
                } else if fatal {
                    return; // reported by the owner of that prefix
                }
            } else {
                // known-good prefix statement: execute without oracle, keep the model in step
                let _ = exec_op(&t, &cs);
                self.plant_after(&t, &cs);
                let _ = model_step(&mut tr, &cs);
                let rows = tr.st.rows("t");
                tr.note_values(&rows);
                if let Some(info) = self.known.get(&(pi, kind, ops[..=i].to_vec())) {
                    for o in &info.off {
                        tr.off.insert(o);
                    }
                }
                h.push(cs);
                rep.count("prefix_statements_reexecuted", 1);
            }
        }
    }

    /// end of a full-depth history: occasionally re-validate the plan of the PK lookup
    fn leaf(&mut self, rep: &mut Reporter, kind: Kind, t: &TestDb) {
        if kind.has_pk() && self.db_seq % 256 == 0 {
            let p = explain(t.db(), "SELECT * FROM t WHERE id = 2").unwrap_or_default();
            rep.count(if p.contains("IndexScan") { "explain_pk_index_plan" } else { "explain_pk_other_plan" }, 1);
        }
    }

    fn is_fatal(&self, pi: usize, kind: Kind, ops: &[Op]) -> bool {
        self.known.get(&(pi, kind, ops.to_vec())).map(|i| i.fatal).unwrap_or(false)
    }

    /// all histories of exactly length `len` below the owned prefix `ops` (model-only walk; real
    /// execution at the leaves), skipping what lies below a divergent history
    #[allow(clippy::too_many_arguments)]
    fn walk(&mut self, rep: &mut Reporter, pi: usize, kind: Kind, ops: &mut Vec<Op>, tr: &Track, len: usize, split: usize, depth: usize) {
        let pass = &PASSES[pi];
        for op in enabled(pass, kind, tr) {
            if self.capped {
                return;
            }
            ops.push(op);
            if ops.len() == len {
                if !self.check_deadline(rep, &format!("pass {} kind {} length {}", pass.name, kind.name(), len)) {
                    self.run_leaf(rep, pi, kind, ops, split, depth);
                }
            } else if !self.is_fatal(pi, kind, ops) {
                let mut t2 = tr.clone();
                let _ = model_step(&mut t2, &CStmt::at(op, ops.len() - 1, kind, pass.strict()));
                self.walk(rep, pi, kind, ops, &t2, len, split, depth);
            }
            ops.pop();
        }
    }

    /// Level by level (iterative deepening over ALL passes and kinds): when the deadline cuts the
    /// run, every pass/kind has been explored to the same length.
    fn explore(&mut self, rep: &mut Reporter) {
        let only_kind = self.ctx.opt("kind").and_then(Kind::parse);
        let only_pass = self.ctx.opt("pass").map(|s| s.to_string());
        // kind dflt differs from kind pk only in the INSERT forms: its largest pass (live-mixed) runs one statement shorter
        let depth_of = |pass: &Pass, kind: Kind| -> usize {
            self.ctx.opt("depth").and_then(|d| d.parse().ok()).unwrap_or(self.ctx.tier.pick(pass.depth_q, pass.depth_t) - (kind == Kind::Dflt && pass.name == "live-mixed") as usize)
        };
        let split = self.ctx.tier.pick(2usize, 3usize);
        let max_depth = PASSES.iter().map(|p| depth_of(p, Kind::Pk)).max().unwrap_or(1);
        for (pi, pass) in PASSES.iter().enumerate() {
            for kind in KINDS {
                let depth = depth_of(pass, kind);
                rep.bound(&format!("depth:{}:{}", pass.name, kind.name()), json!(depth));
                rep.bound(&format!("histories:{}:{}", pass.name, kind.name()), json!(count_ext(pass, kind, &Track::new(kind), 0, depth, &mut HashMap::new())));
                let _ = pi;
            }
        }
        for len in 1..=max_depth {
            let mut unit: u64 = 0;
            for (pi, pass) in PASSES.iter().enumerate() {
                if only_pass.as_deref().map(|p| p != pass.name).unwrap_or(false) {
                    continue;
                }
                for kind in KINDS {
                    let depth = depth_of(pass, kind);
                    if len > depth {
                        continue;
                    }
                    if only_kind.map(|k| k != kind).unwrap_or(false) {
                        continue;
                    }
                    self.plans(kind, rep);
                    self.ext_memo.clear();
                    // the ownership units: histories of length min(len, split), breadth-first over the model
                    let ulen = len.min(split);
                    let mut level: Vec<(Vec<Op>, Track)> = vec![(vec![], Track::new(kind))];
                    for _ in 0..ulen {
                        let mut next = vec![];
                        for (ops, tr) in &level {
                            for op in enabled(pass, kind, tr) {
                                let mut o2 = ops.clone();
                                o2.push(op);
                                let mut t2 = tr.clone();
                                let _ = model_step(&mut t2, &CStmt::at(op, ops.len(), kind, pass.strict()));
                                next.push((o2, t2));
                            }
                        }
                        level = next;
                    }
                    for (ops, tr) in &level {
                        let mine = self.ctx.mine(unit);
                        unit += 1;
                        if !mine || self.capped {
                            continue;
                        }
                        if len <= split {
                            if !self.check_deadline(rep, &format!("pass {} kind {} length {}", pass.name, kind.name(), len)) {
                                self.run_leaf(rep, pi, kind, ops, split, depth);
                            }
                        } else if !(1..=ops.len()).any(|i| self.is_fatal(pi, kind, &ops[..i])) {
                            let mut o = ops.clone();
                            self.walk(rep, pi, kind, &mut o, tr, len, split, depth);
                        }
                    }
                }
            }
            if !self.capped {
                rep.count(&format!("workers_completed_length:{len}"), 1);
            }
        }
    }
}

struct C05;

impl Check for C05 {
    fn specs(&self) -> Vec<Spec> {
        let mut s = Spec::new(
            "C05",
            "model_checking",
            "a case is one history: a sequence of statements over the alphabet {INSERT k (k in 1..3, fresh value), two-row INSERT, UPDATE SET a=c WHERE id=k, UPDATE SET a=a+1, DELETE WHERE id=k, DELETE, TRUNCATE; each also with RETURNING *} of every length up to the pass depth, per schema kind (no PK / INT PRIMARY KEY / PK + secondary index / PK + 1.5 KB TEXT / PK + DEFAULT columns that the INSERTs omit through a column list), executed from a fresh database in lock-step with the relational model; the oracle (error class, affected count, RETURNING bag, SELECT * bag, COUNT(*), point lookups per key, secondary-index lookups per value) judges the last statement, prefixes having been judged as shorter histories (shortest first). Pass `full`: all 25 operations in every state; pass `txn`: {INSERT 1, INSERT 2, DELETE 1, DELETE all} in autocommit, {INSERT 1, two-row INSERT, UPDATE 1, UPDATE all, DELETE 1, DELETE all} as BEGIN; stmt; COMMIT and {INSERT 1, UPDATE 1, DELETE 1, DELETE all} as BEGIN; stmt; ROLLBACK (one operation each), every oracle after the closing COMMIT / ROLLBACK, depth 3 (quick) / 4; passes `live-*`: state-aware alphabet without the constructs of the open findings (plain / all-RETURNING / mixed families). State = executed history, transition = its last statement. Distinct = distinct (schema kind, operation sequence); non-trivial = the last statement is an INSERT or changes the model table.",
        );
        s.assumptions = &[
            "reference semantics = refmodel::sql::rel (cross-checked against SQLite); TRUNCATE's affected count is taken to be the number of rows removed (ExecuteResult::Truncate reports rows_affected)",
            "COUNT(*) and the point lookups are judged against the rows the same database shows through SELECT * (self-consistency), SELECT * against the model",
            "single handle, WAL off (default); autocommit except pass txn, whose transactions hold exactly one statement (multi-statement transactions, savepoints, second handles: C07/C08); no constraint other than PRIMARY KEY (C09)",
            "passes live-*: (KF-C05-06) the TOAST column of RETURNING rows is not compared, (KF-C05-07) secondary-index lookups are not judged, (KF-C05-08) UPDATE by key on the TOAST schema sets only a; statements covering tombstoned rows, partially failing two-row INSERTs, UPDATE..WHERE id=k RETURNING on pk/pkidx and WHERE id=k for never-inserted keys are outside their alphabet (pass full keeps all of them)",
        ];
        s.cap_quick_s = 90;
        s.cap_thorough_s = 1500;
        // development aid for a heavily shared machine: NAME_CAP_S=<seconds> lifts both deadlines
        if let Some(c) = std::env::var("C05_CAP_S").ok().and_then(|v| v.parse().ok()) {
            s.cap_quick_s = c;
            s.cap_thorough_s = c;
        }
        vec![s]
    }

    fn run(&self, ctx: &Ctx, rep: &mut Reporter) {
        for c in ["pk_point_lookups", "secondary_index_lookups", "toast_rows_written", "model_err:pk", "impl_err:primary-key", "model_affected_multi", "model_affected_zero", "explain_secondary_index_plan", "default_rows_inserted", "default_rows_inserted_with_returning", "op:INS+C", "op:DEL+C", "op:DELALL+C", "op:UPD+C", "op:INS+RB", "op:DEL+RB"] {
            rep.expect_nonzero(c);
        }
        let mut ex = Explorer::new(ctx);
        ex.explore(rep);
    }

    fn replay(&self, ctx: &Ctx, case: &Value, rep: &mut Reporter) {
        let Some(kind) = case["kind"].as_str().and_then(Kind::parse) else {
            rep.note("replay: unknown kind");
            return;
        };
        let pass = pass_by_name(case["pass"].as_str().unwrap_or("full"));
        let strict = pass.strict();
        let h: Vec<CStmt> = case["history"].as_array().map(|a| a.iter().filter_map(|x| CStmt::from_json(x, kind, strict)).collect()).unwrap_or_default();
        let plant = Plant::from_ctx(ctx);
        let ops: Vec<Op> = h.iter().map(|c| c.op).collect();
        rep.case(vcore::util::hash_of(&(kind, &ops)), true);
        rep.add_states(1);
        rep.add_transitions(h.len() as u64);
        rep.add_traces_validated(1);
        for (at, fails) in run_all(&ctx.scratch, kind, &h, strict, plant) {
            let hv = &h[..=at];
            for f in &fails {
                let mut runs = 0;
                let min = shrink(&ctx.scratch, kind, hv, f.oracle, &f.cls, strict, plant, &mut runs);
                let sig = signature(kind, f.oracle, &min, &f.cls);
                rep.violation("C05", f.oracle, &sig, || history_json(kind, pass.name, &min), &f.expected, &f.observed);
            }
        }
    }
}

fn bench() {
    vcore::quiet_panics();
    let base = std::path::PathBuf::from(format!("/dev/shm/turdb_verif/c05bench_{}", std::process::id()));
    let n = 50;
    let t0 = std::time::Instant::now();
    for i in 0..n {
        let t = TestDb::create(&base, &format!("a{}", i % 4)).unwrap();
        drop(t);
    }
    println!("Database::create + drop: {} us", t0.elapsed().as_micros() / n);
    let t = TestDb::create(&base, "b").unwrap();
    let t0 = std::time::Instant::now();
    for i in 0..n {
        t.exec(&format!("CREATE TABLE t{i}(id INT PRIMARY KEY, a INT)"));
    }
    println!("CREATE TABLE (pk): {} us", t0.elapsed().as_micros() / n);
    let t0 = std::time::Instant::now();
    for i in 0..n {
        t.exec(&format!("DROP TABLE t{i}"));
    }
    println!("DROP TABLE: {} us", t0.elapsed().as_micros() / n);
    t.exec("CREATE TABLE t(id INT PRIMARY KEY, a INT)");
    let t0 = std::time::Instant::now();
    for i in 0..n {
        t.exec(&format!("INSERT INTO t VALUES ({i}, 1)"));
    }
    println!("INSERT: {} us", t0.elapsed().as_micros() / n);
    let t0 = std::time::Instant::now();
    for i in 0..n {
        t.exec(&format!("SELECT * FROM t WHERE id = {i}"));
    }
    println!("SELECT pk: {} us", t0.elapsed().as_micros() / n);
    let t0 = std::time::Instant::now();
    for _ in 0..n {
        t.exec("SELECT COUNT(*) FROM t");
    }
    println!("COUNT(*): {} us", t0.elapsed().as_micros() / n);
    let t0 = std::time::Instant::now();
    for i in 0..n {
        t.exec(&format!("DELETE FROM t WHERE id = {i}"));
    }
    println!("DELETE pk: {} us", t0.elapsed().as_micros() / n);
    let t0 = std::time::Instant::now();
    for _ in 0..n {
        t.exec("TRUNCATE TABLE t");
    }
    println!("TRUNCATE: {} us", t0.elapsed().as_micros() / n);
    drop(t);
    let _ = std::fs::remove_dir_all(&base);
}

fn main() {
    if std::env::var("C05_BENCH").is_ok() {
        bench();
        return;
    }
    if std::env::var("C05_COUNT").is_ok() {
        for pass in PASSES.iter() {
            for kind in KINDS {
                let v: Vec<u64> = (1..=6).map(|d| count_ext(pass, kind, &Track::new(kind), 0, d, &mut HashMap::new())).collect();
                println!("{:11} {:6} histories up to depth 1..6: {:?}", pass.name, kind.name(), v);
            }
        }
        return;
    }
    vcore::main(&C05)
}
