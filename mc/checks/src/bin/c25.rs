//! C25 — HNSW search returns live, correctly ranked neighbours.
//!
//! Every operation history up to a depth over a small alphabet is replayed on a
//! fresh `.hnsw` file (the index has no snapshot API); after the last operation
//! of every history the real `PersistentHnswIndex::search` / `search_filtered`
//! is called for every query of the domain and k in {1, 2, live, live+1} and
//! compared with brute force over the harness-owned row -> vector map.
//! The index stores no vectors: the harness map is the `get_vector` callback and
//! answers `None` for deleted rows exactly as a table lookup would.
//!
//! Further sections of the same property: SQ8 quantisation (lattice sweep) and a
//! small SQL-level pass (`CREATE INDEX .. USING HNSW`, `ORDER BY v <-> q LIMIT k`).
use std::collections::{BTreeMap, BTreeSet, HashSet};
use std::path::PathBuf;
use turdb::hnsw::quantization::{SQ8Vector, SQ8VectorRef};
use turdb::hnsw::search::HnswSearchContext;
use turdb::hnsw::{DistanceFunction, NodeId, PersistentHnswIndex, QuantizationType};
use vcore::{json, Check, Ctx, Reporter, Spec, Value};

const DOMAIN: [[f32; 2]; 6] = [[0.0, 0.0], [1.0, 0.0], [0.0, 1.0], [1.0, 1.0], [2.0, 0.0], [-1.0, 0.0]];
const EF_SEARCH: u16 = 32;
const R_LOW: f64 = 0.9; // select_level -> 0
const R_HIGH: f64 = 1e-9; // select_level -> a high level

fn dist2(a: &[f32; 2], b: &[f32; 2]) -> f32 {
    let d0 = a[0] - b[0];
    let d1 = a[1] - b[1];
    d0 * d0 + d1 * d1
}

// ---------------------------------------------------------------------------------------------
// operations and the model
// ---------------------------------------------------------------------------------------------
#[derive(Clone, Copy, PartialEq, Eq, Debug, Hash, PartialOrd, Ord)]
enum Op {
    Ins { v: u8, hi: bool },
    Del { row: u8 },
    Vac,
    Reopen,
}
impl Op {
    fn code(self) -> u8 {
        match self {
            Op::Ins { v, hi } => v * 2 + hi as u8,
            Op::Del { row } => 16 + row,
            Op::Vac => 60,
            Op::Reopen => 61,
        }
    }
    fn name(self) -> String {
        match self {
            Op::Ins { v, hi } => format!("i{}{}", v, if hi { 'h' } else { 'l' }),
            Op::Del { row } => format!("d{row}"),
            Op::Vac => "vac".into(),
            Op::Reopen => "reopen".into(),
        }
    }
    fn parse(s: &str) -> Option<Op> {
        if s == "vac" {
            return Some(Op::Vac);
        }
        if s == "reopen" {
            return Some(Op::Reopen);
        }
        let b = s.as_bytes();
        if b.len() == 3 && b[0] == b'i' {
            let v = b[1].checked_sub(b'0')?;
            if (v as usize) < DOMAIN.len() {
                return Some(Op::Ins { v, hi: b[2] == b'h' });
            }
        }
        if b.len() >= 2 && b[0] == b'd' {
            return s[1..].parse().ok().map(|row| Op::Del { row });
        }
        None
    }
}

#[derive(Clone, Default)]
struct Model {
    next_row: u8,
    live: BTreeMap<u64, [f32; 2]>,
    dead: BTreeSet<u64>,
    pending_vacuum: usize,
    last_reopen: bool,
    /// row the design makes the entry point: the first inserted node, replaced when a node with a
    /// higher level than any before is inserted
    entry: Option<u64>,
    max_hi: bool,
    reopened: bool,
}
impl Model {
    fn new() -> Self {
        Model { next_row: 1, ..Default::default() }
    }
    fn entry_deleted(&self) -> bool {
        self.entry.map(|e| self.dead.contains(&e)).unwrap_or(false)
    }
    fn class(&self) -> &'static str {
        if self.entry_deleted() {
            "entry-deleted"
        } else if !self.dead.is_empty() {
            "nonentry-deleted"
        } else {
            "no-deletes"
        }
    }
    fn step(&mut self, op: Op) {
        self.last_reopen = false;
        match op {
            Op::Ins { v, hi } => {
                let row = self.next_row as u64;
                self.next_row += 1;
                self.live.insert(row, DOMAIN[v as usize]);
                if self.entry.is_none() || (hi && !self.max_hi) {
                    self.entry = Some(row);
                }
                self.max_hi |= hi;
            }
            Op::Del { row } => {
                self.live.remove(&(row as u64));
                self.dead.insert(row as u64);
                self.pending_vacuum += 1;
            }
            Op::Vac => self.pending_vacuum = 0,
            Op::Reopen => {
                self.pending_vacuum = 0;
                self.last_reopen = true;
                self.reopened = true;
            }
        }
    }
}

#[derive(Clone, Copy, PartialEq, Eq, Debug)]
enum Api {
    Plain,
    Filtered,
}
impl Api {
    fn name(self) -> &'static str {
        match self {
            Api::Plain => "search",
            Api::Filtered => "search_filtered",
        }
    }
}

#[derive(Clone)]
struct Pass {
    name: &'static str,
    apis: &'static [Api],
    /// insert_with_callback (vectors visible during construction) or plain insert (as the SQL layer does)
    insert_cb: bool,
    deletes: bool,
    /// may the (design-rule) entry point be deleted
    delete_entry: bool,
    /// may an insert follow a delete
    insert_after_delete: bool,
    /// also ask plain search for k = live+1 (more than there are live rows); search_filtered always is
    k_above_live: bool,
    vecs: &'static [u8],
    depth_q: usize,
    depth_t: usize,
}

const ALL: &[u8] = &[0, 1, 2, 3, 4, 5];
const BOTH: &[Api] = &[Api::Plain, Api::Filtered];

fn passes() -> Vec<Pass> {
    vec![
        // 1. the statement as written, whole alphabet
        Pass { name: "full", apis: BOTH, insert_cb: true, deletes: true, delete_entry: true, insert_after_delete: true, k_above_live: true, vecs: ALL, depth_q: 4, depth_t: 5 },
        // 2. operations only (searches muted) so that histories continue past the search defects
        Pass { name: "ops-succeed-no-searches", apis: &[], insert_cb: true, deletes: true, delete_entry: true, insert_after_delete: true, k_above_live: true, vecs: &[0, 1], depth_q: 4, depth_t: 6 },
        // 3. known-defect triggers removed: no deletes at all / deletes that keep the entry point, no
        //    insert after a delete, plain search only asked for k <= live (search_filtered also k = live+1)
        Pass { name: "no-deletes", apis: BOTH, insert_cb: true, deletes: false, delete_entry: false, insert_after_delete: true, k_above_live: true, vecs: ALL, depth_q: 4, depth_t: 6 },
        Pass { name: "keep-entry-no-insert-after-delete", apis: BOTH, insert_cb: true, deletes: true, delete_entry: false, insert_after_delete: false, k_above_live: false, vecs: ALL, depth_q: 4, depth_t: 6 },
        Pass { name: "insert-without-vectors", apis: BOTH, insert_cb: false, deletes: true, delete_entry: false, insert_after_delete: false, k_above_live: false, vecs: ALL, depth_q: 3, depth_t: 5 },
        Pass { name: "3-points-deeper", apis: BOTH, insert_cb: true, deletes: true, delete_entry: false, insert_after_delete: false, k_above_live: false, vecs: &[0, 1, 5], depth_q: 5, depth_t: 7 },
    ]
}

fn enabled(pass: &Pass, m: &Model) -> Vec<Op> {
    let mut v = Vec::new();
    if m.next_row <= 9 && (pass.insert_after_delete || m.dead.is_empty()) {
        for &p in pass.vecs {
            v.push(Op::Ins { v: p, hi: false });
            v.push(Op::Ins { v: p, hi: true });
        }
    }
    if pass.deletes {
        for &row in m.live.keys() {
            if !pass.delete_entry && m.entry == Some(row) {
                continue;
            }
            v.push(Op::Del { row: row as u8 });
        }
    }
    if m.pending_vacuum > 0 {
        v.push(Op::Vac);
    }
    if !m.last_reopen {
        v.push(Op::Reopen);
    }
    v
}

// ---------------------------------------------------------------------------------------------
// real index
// ---------------------------------------------------------------------------------------------
struct Real {
    idx: Option<PersistentHnswIndex>,
    path: PathBuf,
    node_of_row: BTreeMap<u64, NodeId>,
}

type SearchOut = Result<Vec<(u64, f32)>, String>;

fn open_new(path: &PathBuf) -> Result<PersistentHnswIndex, String> {
    let _ = std::fs::remove_file(path);
    vcore::catch(|| PersistentHnswIndex::create(path, 1, 1, 2, 16, 100, EF_SEARCH, DistanceFunction::L2, QuantizationType::None).map_err(|e| format!("{e:#}")))
        .map_err(|p| format!("PANIC {p}"))
        .and_then(|r| r)
}

impl Real {
    fn apply(&mut self, op: Op, pass: &Pass, m_after: &Model) -> Result<(), String> {
        let idx = self.idx.as_mut().ok_or("index closed")?;
        match op {
            Op::Ins { v, hi } => {
                let row = (m_after.next_row - 1) as u64;
                let vec = DOMAIN[v as usize];
                let r = if hi { R_HIGH } else { R_LOW };
                let live = &m_after.live;
                let res = vcore::catch(|| {
                    if pass.insert_cb {
                        idx.insert_with_callback(row, &vec, r, |rid| live.get(&rid).map(|x| x.to_vec())).map_err(|e| format!("{e:#}"))
                    } else {
                        idx.insert(row, &vec, r).map_err(|e| format!("{e:#}"))
                    }
                });
                match res {
                    Ok(Ok(n)) => {
                        self.node_of_row.insert(row, n);
                        Ok(())
                    }
                    Ok(Err(e)) => Err(format!("error: {e}")),
                    Err(p) => Err(format!("panic: {p}")),
                }
            }
            Op::Del { row } => match vcore::catch(|| idx.delete_by_row_id(row as u64).map_err(|e| format!("{e:#}"))) {
                Ok(Ok(())) => Ok(()),
                Ok(Err(e)) => Err(format!("error: {e}")),
                Err(p) => Err(format!("panic: {p}")),
            },
            Op::Vac => match vcore::catch(|| idx.vacuum_batch(usize::MAX).map_err(|e| format!("{e:#}"))) {
                Ok(Ok(_)) => Ok(()),
                Ok(Err(e)) => Err(format!("error: {e}")),
                Err(p) => Err(format!("panic: {p}")),
            },
            Op::Reopen => {
                match vcore::catch(|| idx.sync().map_err(|e| format!("{e:#}"))) {
                    Ok(Ok(())) => {}
                    Ok(Err(e)) => return Err(format!("error: sync: {e}")),
                    Err(p) => return Err(format!("panic: sync: {p}")),
                }
                self.idx = None;
                let path = self.path.clone();
                match vcore::catch(|| PersistentHnswIndex::open(&path).map_err(|e| format!("{e:#}"))) {
                    Ok(Ok(i)) => {
                        self.idx = Some(i);
                        Ok(())
                    }
                    Ok(Err(e)) => Err(format!("error: open: {e}")),
                    Err(p) => Err(format!("panic: open: {p}")),
                }
            }
        }
    }

    fn search(&self, api: Api, q: &[f32; 2], k: usize, sctx: &mut HnswSearchContext, m: &Model) -> SearchOut {
        let idx = self.idx.as_ref().ok_or("index closed")?;
        let live = &m.live;
        let get = |rid: u64| live.get(&rid).map(|x| x.to_vec());
        let r = vcore::catch(|| match api {
            Api::Plain => idx.search(q, k, sctx, get).map_err(|e| format!("{e:#}")),
            Api::Filtered => idx.search_filtered(q, k, sctx, get, |rid| live.contains_key(&rid)).map_err(|e| format!("{e:#}")),
        });
        match r {
            Ok(Ok(v)) => Ok(v.iter().map(|s| (s.row_id, s.distance)).collect()),
            Ok(Err(e)) => Err(format!("error: {e}")),
            Err(p) => Err(format!("panic: {p}")),
        }
    }
}

fn ks_for(pass: &Pass, api: Api, live: usize) -> Vec<usize> {
    if pass.k_above_live || api == Api::Filtered {
        return ks(live);
    }
    let mut v = vec![1, 2.min(live.max(1)), live.max(1)];
    v.sort();
    v.dedup();
    v
}
fn ks(live: usize) -> Vec<usize> {
    let mut v = vec![1, 2, live.max(1), live + 1];
    v.sort();
    v.dedup();
    v
}

struct Viol {
    oracle: &'static str,
    sig: String,
    detail: Value,
    expected: String,
    observed: String,
}

/// oracles on one result list; returns the first failing oracle
fn check_result(api: Api, class: &str, q: &[f32; 2], k: usize, out: &SearchOut, m: &Model, stats: &mut Stats) -> Option<Viol> {
    let mk = |oracle: &'static str, kind: &str, expected: String, observed: String| Viol {
        oracle,
        sig: format!("C25/{oracle}/{}/{class}/{kind}", api.name()),
        detail: json!({"api": api.name(), "q": q, "k": k}),
        expected,
        observed,
    };
    let res = match out {
        Err(e) => {
            let kind = if e.starts_with("panic") { "ok>panic" } else { "ok>error" };
            return Some(mk("search-call", kind, "Ok(results)".into(), e.clone()));
        }
        Ok(r) => r,
    };
    let rows: Vec<u64> = res.iter().map(|x| x.0).collect();
    let mut want: Vec<f32> = m.live.values().map(|v| dist2(q, v)).collect();
    want.sort_by(|a, b| a.partial_cmp(b).unwrap());
    let show_live = || format!("live rows {:?}", m.live.iter().map(|(r, v)| (*r, dist2(q, v))).collect::<Vec<_>>());
    if let Some(bad) = rows.iter().find(|r| !m.live.contains_key(r)) {
        return Some(mk("live", "live>dead-row", format!("only {}", show_live()), format!("results {:?} contain row {} ({})", res, bad, if m.dead.contains(bad) { "deleted" } else { "never inserted" })));
    }
    let set: BTreeSet<u64> = rows.iter().copied().collect();
    if set.len() != rows.len() {
        return Some(mk("distinct", "distinct>duplicate-row", "distinct row ids".into(), format!("results {:?}", res)));
    }
    if rows.len() > k {
        return Some(mk("at-most-k", "le-k>more-than-k", format!("at most {k} results"), format!("{} results {:?}", rows.len(), res)));
    }
    let got: Vec<f32> = rows.iter().map(|r| dist2(q, &m.live[r])).collect();
    if got.windows(2).any(|w| w[0] > w[1]) {
        return Some(mk("sorted", "ascending>out-of-order", "ascending true distance".into(), format!("true distances {:?} for results {:?}", got, res)));
    }
    if !m.live.is_empty() && k > 0 && rows.is_empty() {
        return Some(mk("nonempty", "some>none", format!("at least one of {}", show_live()), "no result".into()));
    }
    // live count <= ef_search always holds in this bound: the result must be the brute-force top-k (as a distance multiset)
    let exp: Vec<f32> = want.iter().copied().take(k).collect();
    if got != exp {
        let kind = if got.len() < exp.len() { "top-k>misses-neighbours" } else { "top-k>wrong-neighbours" };
        return Some(mk("brute-force", kind, format!("true distances {:?} of {}", exp, show_live()), format!("true distances {:?} for results {:?}", got, res)));
    }
    if exp.len() >= 2 && want.len() > exp.len() && want[exp.len() - 1] == want[exp.len()] {
        stats.tie_at_cut += 1;
    }
    if want.windows(2).any(|w| w[0] == w[1]) {
        stats.ties += 1;
    }
    if res.iter().zip(got.iter()).any(|(r, g)| r.1 != *g) {
        stats.reported_distance_differs += 1;
    }
    None
}

#[derive(Default)]
struct Stats {
    searches: u64,
    tie_at_cut: u64,
    ties: u64,
    reported_distance_differs: u64,
    ins_hi: u64,
    ins_lo: u64,
    entry_replaced: u64,
    del_entry: u64,
    del_nonentry: u64,
    vacuums: u64,
    reopens: u64,
    zero_vector: u64,
    duplicate_vector: u64,
    entry_prediction_mismatch: u64,
    results_total: u64,
    nonempty_results: u64,
}
impl Stats {
    fn flush(&mut self, rep: &mut Reporter) {
        rep.count("searches", self.searches);
        rep.count("searches_with_tie_at_the_k_cut", self.tie_at_cut);
        rep.count("searches_with_equal_distances", self.ties);
        rep.count("searches_where_reported_distance_differs_from_true", self.reported_distance_differs);
        rep.count("last_op_insert_high_level", self.ins_hi);
        rep.count("last_op_insert_level0", self.ins_lo);
        rep.count("last_op_insert_replaces_entry_point", self.entry_replaced);
        rep.count("last_op_delete_entry_point", self.del_entry);
        rep.count("last_op_delete_other", self.del_nonentry);
        rep.count("last_op_vacuum_with_pending", self.vacuums);
        rep.count("last_op_sync_reopen", self.reopens);
        rep.count("histories_with_zero_vector_live", self.zero_vector);
        rep.count("histories_with_duplicate_live_vectors", self.duplicate_vector);
        rep.count("entry_point_prediction_mismatch", self.entry_prediction_mismatch);
        rep.count("result_rows_checked", self.results_total);
        rep.count("searches_with_results", self.nonempty_results);
        *self = Stats::default();
    }
}

struct Runner<'a> {
    ctx: &'a Ctx,
    sctx: HnswSearchContext,
    stats: Stats,
    path: PathBuf,
}

fn case_json(pass: &Pass, hist: &[Op]) -> Value {
    json!({"pass": pass.name, "ops": hist.iter().map(|o| o.name()).collect::<Vec<_>>()})
}

impl<'a> Runner<'a> {
    fn search_all(&mut self, real: &Real, pass: &Pass, m: &Model) -> Vec<(Api, usize, usize, SearchOut)> {
        let mut v = Vec::new();
        for &api in pass.apis {
            for (qi, q) in DOMAIN.iter().enumerate() {
                for k in ks_for(pass, api, m.live.len()) {
                    self.stats.searches += 1;
                    let out = real.search(api, q, k, &mut self.sctx, m);
                    if let Ok(r) = &out {
                        self.stats.results_total += r.len() as u64;
                        self.stats.nonempty_results += (!r.is_empty()) as u64;
                    }
                    v.push((api, qi, k, out));
                }
            }
        }
        v
    }

    /// Replay `hist` on a fresh file, evaluate the oracles after its last operation.
    /// Returns the violations (empty = history conforms).
    fn run_history(&mut self, pass: &Pass, hist: &[Op], rep: &mut Reporter, report: bool) -> Vec<Viol> {
        let mut viols: Vec<Viol> = Vec::new();
        let idx = match open_new(&self.path) {
            Ok(i) => i,
            Err(e) => {
                viols.push(Viol { oracle: "create", sig: "C25/create/ok>error".into(), detail: json!({}), expected: "index file created".into(), observed: e });
                return viols;
            }
        };
        let mut real = Real { idx: Some(idx), path: self.path.clone(), node_of_row: BTreeMap::new() };
        let mut m = Model::new();
        let n = hist.len();
        for (i, &op) in hist.iter().enumerate() {
            let last = i + 1 == n;
            let pre = if last && op == Op::Reopen { Some(self.search_all(&real, pass, &m)) } else { None };
            let before = m.clone();
            m.step(op);
            let r = real.apply(op, pass, &m);
            if let Err(e) = r {
                let what = match op {
                    Op::Ins { .. } => "insert",
                    Op::Del { .. } => "delete",
                    Op::Vac => "vacuum",
                    Op::Reopen => "reopen",
                };
                let kind = if e.starts_with("panic") { "ok>panic" } else { "ok>error" };
                if !last {
                    rep.note("a prefix that conformed earlier failed on replay (non-deterministic subject?)");
                }
                viols.push(Viol { oracle: "op-succeeds", sig: format!("C25/{what}/{}/{kind}", before.class()), detail: json!({"failing_op": op.name(), "step": i}), expected: format!("{what} returns Ok"), observed: e });
                return viols;
            }
            if last {
                if report {
                    match op {
                        Op::Ins { hi, .. } => {
                            if hi {
                                self.stats.ins_hi += 1
                            } else {
                                self.stats.ins_lo += 1
                            }
                            if before.entry.is_some() && before.entry != m.entry {
                                self.stats.entry_replaced += 1;
                            }
                        }
                        Op::Del { row } => {
                            if before.entry == Some(row as u64) {
                                self.stats.del_entry += 1
                            } else {
                                self.stats.del_nonentry += 1
                            }
                        }
                        Op::Vac => self.stats.vacuums += 1,
                        Op::Reopen => self.stats.reopens += 1,
                    }
                    if m.live.values().any(|v| *v == [0.0, 0.0]) {
                        self.stats.zero_vector += 1;
                    }
                    let vs: Vec<_> = m.live.values().map(|v| (v[0].to_bits(), v[1].to_bits())).collect();
                    if vs.iter().collect::<BTreeSet<_>>().len() != vs.len() {
                        self.stats.duplicate_vector += 1;
                    }
                    // the model's entry-point rule vs the real header (only steers restricted passes)
                    let real_entry = real.idx.as_ref().and_then(|i| i.index().entry_point());
                    let pred = m.entry.and_then(|r| real.node_of_row.get(&r).copied());
                    if real_entry != pred {
                        self.stats.entry_prediction_mismatch += 1;
                    }
                }
                let post = self.search_all(&real, pass, &m);
                let class = m.class();
                let mut seen_sig: BTreeSet<String> = BTreeSet::new();
                for (api, qi, k, out) in &post {
                    if let Some(v) = check_result(*api, class, &DOMAIN[*qi], *k, out, &m, &mut self.stats) {
                        if seen_sig.insert(v.sig.clone()) {
                            viols.push(v);
                        }
                    }
                }
                if let Some(pre) = pre {
                    for (a, b) in pre.iter().zip(post.iter()) {
                        let ra = a.3.as_ref().map(|v| v.iter().map(|x| x.0).collect::<Vec<_>>());
                        let rb = b.3.as_ref().map(|v| v.iter().map(|x| x.0).collect::<Vec<_>>());
                        if ra != rb {
                            let sig = format!("C25/reopen/{}/{}/same>different", a.0.name(), before.class());
                            if seen_sig.insert(sig.clone()) {
                                viols.push(Viol { oracle: "reopen", sig, detail: json!({"api": a.0.name(), "q": DOMAIN[a.1], "k": a.2}), expected: format!("{:?}", a.3), observed: format!("{:?}", b.3) });
                            }
                        }
                    }
                }
                if report {
                    rep.outcome(&format!("{}:live{}:{}{}", class, m.live.len(), if m.max_hi { "multi-level" } else { "level0" }, if m.reopened { ":reopened" } else { "" }));
                }
            }
        }
        drop(real);
        viols
    }

    /// enumerate all histories of exactly `len` ops (prefixes known to diverge are not extended)
    #[allow(clippy::too_many_arguments)]
    fn level(&mut self, pass: &Pass, len: usize, hist: &mut Vec<Op>, codes: &mut Vec<u8>, m: &Model, diverged: &mut HashSet<Vec<u8>>, rep: &mut Reporter, idx: &mut u64) -> bool {
        if hist.len() == len {
            *idx += 1;
            // histories of length <= 2 are evaluated by every worker (their verdict prunes the
            // deeper levels everywhere) and reported by one; longer ones are owned by the worker of
            // their 2-op prefix
            let owner = if len <= 2 { self.ctx.mine(*idx) } else { self.ctx.mine(codes[0] as u64 * 64 + codes[1] as u64) };
            if len > 2 && !owner {
                return true;
            }
            if self.ctx.expired() {
                rep.capped(&format!("deadline in pass {} at length {}", pass.name, len));
                return false;
            }
            let viols = self.run_history(pass, hist, rep, owner);
            if owner {
                rep.add_transitions(1);
                rep.add_traces_validated(1);
                let nontrivial = len >= 2 && hist.iter().any(|o| matches!(o, Op::Ins { .. }));
                rep.case(vcore::util::hash_of(&(pass.name, &*codes)), nontrivial);
                if viols.is_empty() {
                    rep.add_states(1);
                }
            }
            if !viols.is_empty() {
                diverged.insert(codes.clone());
                if owner {
                    rep.pruned(1);
                    for v in viols {
                        let mut c = case_json(pass, hist);
                        c["at"] = v.detail.clone();
                        rep.violation("C25", v.oracle, &v.sig, || c, &v.expected, &v.observed);
                    }
                }
            }
            return true;
        }
        if hist.len() >= 2 && len > 2 && !self.ctx.mine(codes[0] as u64 * 64 + codes[1] as u64) {
            return true;
        }
        for op in enabled(pass, m) {
            hist.push(op);
            codes.push(op.code());
            let skip = hist.len() < len && diverged.contains(codes);
            let mut ok = true;
            if !skip {
                let mut m2 = m.clone();
                m2.step(op);
                ok = self.level(pass, len, hist, codes, &m2, diverged, rep, idx);
            }
            hist.pop();
            codes.pop();
            if !ok {
                return false;
            }
        }
        true
    }
}

// ---------------------------------------------------------------------------------------------
// SQ8
// ---------------------------------------------------------------------------------------------
fn ulp(x: f32) -> f64 {
    let a = x.abs();
    if !a.is_finite() {
        return f64::INFINITY;
    }
    if a == f32::MAX {
        return (a as f64) - (f32::from_bits(a.to_bits() - 1) as f64);
    }
    let next = f32::from_bits(a.to_bits() + 1);
    (next as f64) - (a as f64)
}

/// None = within tolerance
fn sq8_check(v: &[f32]) -> Option<(String, String)> {
    let r = vcore::catch(|| {
        let q = SQ8Vector::from_f32(v);
        let dec = q.decode();
        let mut buf = vec![0u8; q.serialized_size()];
        q.write_to(&mut buf);
        let back = SQ8Vector::read_from(&buf, v.len()).map(|b| b.decode()).map_err(|e| format!("{e:#}"));
        let mut via_ref = vec![0f32; v.len()];
        if let Ok(rf) = SQ8VectorRef::from_bytes(&buf) {
            rf.decode_into(&mut via_ref);
        }
        (dec, back, via_ref, q.scale())
    });
    let (dec, back, via_ref, _scale) = match r {
        Err(p) => return Some(("no panic".into(), format!("panic: {p}"))),
        Ok(x) => x,
    };
    if dec.len() != v.len() {
        return Some((format!("{} components", v.len()), format!("{} components", dec.len())));
    }
    if v.is_empty() {
        return None;
    }
    let min = v.iter().cloned().fold(f32::INFINITY, f32::min);
    let max = v.iter().cloned().fold(f32::NEG_INFINITY, f32::max);
    let step = (max as f64 - min as f64) / 255.0;
    let slack = 4.0 * ulp(min.abs().max(max.abs()));
    for (i, (&o, &d)) in v.iter().zip(dec.iter()).enumerate() {
        let err = (d as f64 - o as f64).abs();
        if !(d.is_finite()) || err > step * (1.0 + 1e-6) + slack {
            return Some((format!("component {i}: |decoded - {o:e}| <= one step {step:e} (+{slack:e} rounding)"), format!("decoded {d:e} (error {err:e})")));
        }
    }
    match back {
        Ok(b) => {
            if b.iter().zip(dec.iter()).any(|(x, y)| x.to_bits() != y.to_bits()) {
                return Some(("read_from(write_to(x)) decodes like x".into(), format!("{:?} vs {:?}", b, dec)));
            }
        }
        Err(e) => return Some(("read_from(write_to(x)) Ok".into(), e)),
    }
    if via_ref.iter().zip(dec.iter()).any(|(x, y)| x.to_bits() != y.to_bits()) {
        return Some(("SQ8VectorRef decodes like SQ8Vector".into(), format!("{:?} vs {:?}", via_ref, dec)));
    }
    None
}

const SQ8_RANGES: [(f32, f32); 10] = [(0.0, 1.0), (-1.0, 1.0), (0.0, 255.0), (-128.0, 127.0), (0.1, 0.7), (1e-3, 2e-3), (-1e6, 1e6), (1000.0, 1001.0), (1e7, 1.0000255e7), (-3.0e-39, 5.0e-39)];

fn sq8_boundary() -> Vec<(&'static str, Vec<f32>)> {
    vec![
        ("empty", vec![]),
        ("single", vec![3.5]),
        ("all-equal", vec![2.0, 2.0, 2.0]),
        ("zero-vector", vec![0.0, 0.0]),
        ("signed-zero", vec![0.0, -0.0]),
        ("min-positive", vec![f32::MIN_POSITIVE, 0.0]),
        ("denormal-pair", vec![1e-45, 0.0]),
        ("denormal-ramp", vec![1e-45, 2.8e-45, 4.2e-45]),
        ("max-max", vec![f32::MAX, f32::MAX]),
        ("adjacent-floats", vec![1.0, 1.0000001]),
        ("adjacent-large", vec![1e38, 1.0000001e38]),
        ("integer-limit", vec![16777216.0, 16777218.0, 16777220.0]),
        ("range-just-representable", vec![-1.7e38, 1.7e38, 0.0]),
        ("range-overflows-f32", vec![-3.0e38, 3.0e38, 0.0]),
        ("min-max", vec![f32::MIN, f32::MAX]),
        ("ramp-1536", (0..1536).map(|i| (i as f32) * 0.001 - 0.7).collect()),
    ]
}

fn sq8_pass(ctx: &Ctx, rep: &mut Reporter) {
    let bits = |v: &[f32]| v.iter().map(|x| x.to_bits()).collect::<Vec<u32>>();
    let mut unit = 0u64;
    for (ri, &(lo, hi)) in SQ8_RANGES.iter().enumerate() {
        let s = (hi - lo) / 255.0;
        // 2-D lattice: every pair of lattice values
        for i in 0..256u32 {
            unit += 1;
            if !ctx.mine(unit) {
                continue;
            }
            for j in 0..256u32 {
                let v = [lo + (i as f32) * s, lo + (j as f32) * s];
                if let Some((e, o)) = sq8_check(&v) {
                    rep.violation("C25", "sq8", "C25/sq8/lattice-2d/within-one-step>off-by-more", || json!({"pass": "sq8", "bits": bits(&v)}), &e, &o);
                }
            }
            rep.bulk(256, 256);
        }
        // anchored 3-D: [lo, hi, x] with x on quarter steps (includes every lattice value and every rounding midpoint)
        unit += 1;
        if ctx.mine(unit) {
            for t in 0..=1020u32 {
                let v = [lo, hi, lo + (t as f32) * (s / 4.0)];
                if let Some((e, o)) = sq8_check(&v) {
                    rep.violation("C25", "sq8", "C25/sq8/anchored-3d/within-one-step>off-by-more", || json!({"pass": "sq8", "bits": bits(&v)}), &e, &o);
                }
            }
            rep.bulk(1021, 1021);
            rep.count("sq8_ranges_swept", 1);
        }
        let _ = ri;
    }
    for (name, v) in sq8_boundary() {
        unit += 1;
        if !ctx.mine(unit) {
            continue;
        }
        rep.count("sq8_boundary_vectors", 1);
        if let Some((e, o)) = sq8_check(&v) {
            rep.violation("C25", "sq8", &format!("C25/sq8/boundary:{name}/within-one-step>off-by-more"), || json!({"pass": "sq8", "bits": bits(&v), "name": name}), &e, &o);
            rep.outcome(&format!("sq8:{name}:violates"));
        } else {
            rep.outcome("sq8:boundary-within-step");
        }
        rep.case(vcore::util::hash_of(&("sq8", name)), true);
    }
}

// ---------------------------------------------------------------------------------------------
// SQL-level pass
// ---------------------------------------------------------------------------------------------
#[derive(Clone, Copy, PartialEq, Eq, Debug)]
enum SqlOp {
    Ins(u8),
    Del(u8),
    Reopen,
}
impl SqlOp {
    fn name(self) -> String {
        match self {
            SqlOp::Ins(v) => format!("ins{v}"),
            SqlOp::Del(r) => format!("del{r}"),
            SqlOp::Reopen => "reopen".into(),
        }
    }
    fn parse(s: &str) -> Option<SqlOp> {
        if s == "reopen" {
            Some(SqlOp::Reopen)
        } else if let Some(x) = s.strip_prefix("ins") {
            x.parse().ok().filter(|v| (*v as usize) < DOMAIN.len()).map(SqlOp::Ins)
        } else {
            s.strip_prefix("del").and_then(|x| x.parse().ok()).map(SqlOp::Del)
        }
    }
}

fn sql_history(ctx: &Ctx, hist: &[SqlOp], name: &str) -> Vec<Viol> {
    use checks::sqlh::{Res, TestDb};
    use refmodel::val::V;
    let mut out = Vec::new();
    let mut t = match TestDb::create(&ctx.scratch, name) {
        Ok(t) => t,
        Err(e) => {
            out.push(Viol { oracle: "sql", sig: "C25/sql/create/ok>error".into(), detail: json!({}), expected: "database".into(), observed: e });
            return out;
        }
    };
    let setup = ["CREATE TABLE e (id BIGINT PRIMARY KEY, v VECTOR(2))", "CREATE INDEX iv ON e USING HNSW (v)"];
    for s in setup {
        let r = t.exec(s);
        if !r.ok() {
            out.push(Viol { oracle: "sql", sig: "C25/sql/setup/ok>error".into(), detail: json!({"sql": s}), expected: "Done".into(), observed: r.show() });
            return out;
        }
    }
    let mut live: BTreeMap<i64, [f32; 2]> = BTreeMap::new();
    let mut next = 1i64;
    let mut any_deleted = false;
    for (i, &op) in hist.iter().enumerate() {
        let last = i + 1 == hist.len();
        let (sql, what) = match op {
            SqlOp::Ins(v) => {
                let p = DOMAIN[v as usize];
                live.insert(next, p);
                next += 1;
                (format!("INSERT INTO e VALUES ({}, '[{},{}]')", next - 1, p[0], p[1]), "insert")
            }
            SqlOp::Del(r) => {
                live.remove(&(r as i64));
                any_deleted = true;
                (format!("DELETE FROM e WHERE id = {r}"), "delete")
            }
            SqlOp::Reopen => {
                if let Err(e) = t.close_reopen() {
                    out.push(Viol { oracle: "sql", sig: "C25/sql/reopen/ok>error".into(), detail: json!({"step": i}), expected: "reopen Ok".into(), observed: e });
                    return out;
                }
                (String::new(), "reopen")
            }
        };
        if !sql.is_empty() {
            let r = t.exec(&sql);
            if !matches!(r, Res::Affected(1, _)) {
                let cls = if any_deleted { "after-delete" } else { "no-deletes" };
                out.push(Viol { oracle: "sql", sig: format!("C25/sql/{what}/{cls}/affected-1>{}", r.class()), detail: json!({"sql": sql, "step": i}), expected: "Affected(1)".into(), observed: r.show() });
                return out;
            }
        }
        if !last {
            continue;
        }
        let mut seen = BTreeSet::new();
        for q in DOMAIN.iter() {
            for k in ks(live.len()) {
                let sql = format!("SELECT id FROM e ORDER BY v <-> '[{},{}]' LIMIT {}", q[0], q[1], k);
                let r = t.query(&sql);
                let cls = if any_deleted { "after-delete" } else { "no-deletes" };
                let mut fail = |kind: &str, exp: String, obs: String| {
                    let sig = format!("C25/sql/knn/{cls}/{kind}");
                    if seen.insert(sig.clone()) {
                        out.push(Viol { oracle: "sql", sig, detail: json!({"sql": sql}), expected: exp, observed: obs });
                    }
                };
                let ids: Vec<i64> = match &r {
                    Res::Rows(rows) => rows.iter().map(|r| if let Some(V::Int(i)) = r.first() { *i } else { i64::MIN }).collect(),
                    other => {
                        fail(&format!("rows>{}", other.class()), "rows".into(), other.show());
                        continue;
                    }
                };
                let mut want: Vec<f32> = live.values().map(|v| dist2(q, v)).collect();
                want.sort_by(|a, b| a.partial_cmp(b).unwrap());
                want.truncate(k);
                if ids.iter().any(|i| !live.contains_key(i)) {
                    fail("live>dead-row", format!("ids among {:?}", live.keys().collect::<Vec<_>>()), format!("{ids:?}"));
                    continue;
                }
                if ids.iter().collect::<BTreeSet<_>>().len() != ids.len() {
                    fail("distinct>duplicate-row", "distinct ids".into(), format!("{ids:?}"));
                    continue;
                }
                let got: Vec<f32> = ids.iter().map(|i| dist2(q, &live[i])).collect();
                if got != want {
                    fail("top-k>wrong-rows", format!("true distances {want:?}"), format!("ids {ids:?} with true distances {got:?}"));
                }
            }
        }
    }
    out
}

/// INSERT is not offered once the database was reopened: at this commit any INSERT into a
/// BIGINT-PRIMARY-KEY table after close+open fails with "key already exists" (with or without an
/// HNSW index, also for non-vector tables) - a defect outside this property.
fn sql_enabled(live: &BTreeSet<u8>, reopened: bool, last_reopen: bool) -> Vec<SqlOp> {
    let mut v: Vec<SqlOp> = if reopened { Vec::new() } else { (0..DOMAIN.len() as u8).map(SqlOp::Ins).collect() };
    for &r in live {
        v.push(SqlOp::Del(r));
    }
    if !last_reopen {
        v.push(SqlOp::Reopen);
    }
    v
}

fn sql_pass(ctx: &Ctx, rep: &mut Reporter) {
    let depth = ctx.tier.pick(3usize, 4usize);
    rep.bound("sql_pass_depth", json!(depth));
    let mut diverged: HashSet<Vec<String>> = HashSet::new();
    let mut idx = 0u64;
    for len in 1..=depth {
        // iterative enumeration of all histories of length len
        let mut stack: Vec<(Vec<SqlOp>, BTreeSet<u8>, u8, bool)> = vec![(Vec::new(), BTreeSet::new(), 1, false)];
        // tuple: (history, live ids, next id, last op was reopen); 'reopened' is derived from the history
        while let Some((h, live, next, lr)) = stack.pop() {
            if h.len() == len {
                idx += 1;
                // a history belongs to the worker that owns its first operation (so that worker
                // knows every divergent prefix of the histories it extends)
                let first = match h[0] {
                    SqlOp::Ins(v) => v as u64,
                    SqlOp::Del(_) => 8,
                    SqlOp::Reopen => 9,
                };
                let owner = ctx.mine(first * 5 + 3);
                if !owner {
                    continue;
                }
                if ctx.expired() {
                    rep.capped("deadline in sql pass");
                    return;
                }
                let v = sql_history(ctx, &h, "c25sql");
                let names: Vec<String> = h.iter().map(|o| o.name()).collect();
                if !v.is_empty() {
                    diverged.insert(names.clone());
                }
                if owner {
                    rep.count("sql_histories", 1);
                    rep.case(vcore::util::hash_of(&("sql", &names)), len >= 2);
                    rep.add_transitions(1);
                    rep.add_traces_validated(1);
                    if v.is_empty() {
                        rep.add_states(1);
                    } else {
                        rep.pruned(1);
                    }
                    for x in v {
                        let mut c = json!({"pass": "sql", "ops": names});
                        c["at"] = x.detail.clone();
                        rep.violation("C25", x.oracle, &x.sig, || c, &x.expected, &x.observed);
                    }
                }
                continue;
            }
            let mut ops = sql_enabled(&live, h.contains(&SqlOp::Reopen), lr);
            ops.reverse();
            for op in ops {
                let mut h2 = h.clone();
                h2.push(op);
                if h2.len() < len && diverged.contains(&h2.iter().map(|o| o.name()).collect::<Vec<_>>()) {
                    continue;
                }
                let mut l2 = live.clone();
                let mut n2 = next;
                match op {
                    SqlOp::Ins(_) => {
                        l2.insert(next);
                        n2 += 1;
                    }
                    SqlOp::Del(r) => {
                        l2.remove(&r);
                    }
                    SqlOp::Reopen => {}
                }
                stack.push((h2, l2, n2, op == SqlOp::Reopen));
            }
        }
    }
}

// ---------------------------------------------------------------------------------------------
struct C25;

impl Check for C25 {
    fn specs(&self) -> Vec<Spec> {
        let mut s = Spec::new(
            "C25",
            "model_checking",
            "every history over {insert(next row, v in 6-point 2-D domain incl. zero vector/duplicates/ties, level randomness 0.9 | 1e-9), delete(live row), vacuum_batch (when deletions are pending), sync+reopen} up to the pass depth, each replayed through the real PersistentHnswIndex on a fresh file; after the last op of every history search / search_filtered run for all 6 queries x k in {1,2,live,live+1} and are compared with brute force over the harness's own row->vector map (results live, distinct, <= k, ascending true distance, non-empty, equal to the brute-force top-k distance multiset since live <= ef_search=32; identical before/after reopen). A case = one history (distinct by its op sequence; non-trivial = >= 2 ops with an insert). Histories whose prefix violated are not extended. Passes: full alphabet; no deletes; search_filtered with the entry point never deleted (known-defect triggers removed); the same with vector-less insert() as the SQL layer calls it; 3-point domain one level deeper. Plus SQ8: every pair of a 256-value lattice over 10 ranges, quarter-step sweep, named boundary vectors; plus SQL-level INSERT/DELETE/reopen histories with ORDER BY v <-> q LIMIT k.",
        );
        s.assumptions = &[
            "m=16, ef_construction=100, ef_search=32, L2, 2 dimensions; at most 9 rows, so every index fits one node page and live count <= ef_search",
            "the harness map answers get_vector like a table lookup: None for deleted rows; search_filtered's is_visible = row is live",
            "restricted passes decide 'entry point' by the design rule (first node, replaced by the first node of a higher level); the rule is cross-checked against the real header (counter entry_point_prediction_mismatch)",
            "SQ8 tolerance: |decoded - x| <= (max-min)/255 + 4 ulp(max(|min|,|max|))",
        ];
        s.cap_quick_s = 60;
        s.cap_thorough_s = 1100;
        s.crash_is_verdict = true;
        vec![s]
    }

    fn run(&self, ctx: &Ctx, rep: &mut Reporter) {
        for k in ["searches_with_tie_at_the_k_cut", "searches_with_equal_distances", "last_op_insert_high_level", "last_op_insert_replaces_entry_point", "last_op_delete_entry_point", "last_op_delete_other", "last_op_vacuum_with_pending", "last_op_sync_reopen", "histories_with_zero_vector_live", "histories_with_duplicate_live_vectors", "searches_with_results"] {
            rep.expect_nonzero(k);
        }
        let only = ctx.opt("pass");
        let mut r = Runner { ctx, sctx: HnswSearchContext::new(EF_SEARCH as usize, 1024), stats: Stats::default(), path: ctx.scratch.join("c25.hnsw") };
        let ps = passes();
        rep.bound("passes", json!(ps.iter().map(|p| json!({"name": p.name, "depth": ctx.tier.pick(p.depth_q, p.depth_t), "vectors": p.vecs, "apis": p.apis.iter().map(|a| a.name()).collect::<Vec<_>>()})).collect::<Vec<_>>()));
        rep.sample(|| json!({"pass": "full", "ops": ["i0l", "i1h", "d1", "vac", "reopen"]}));
        if only.is_none() || only == Some("sq8") {
            sq8_pass(ctx, rep);
        }
        if only.is_none() || only == Some("sql") {
            sql_pass(ctx, rep);
        }
        // length-major order: every pass completes length L before any pass starts L+1, so a
        // deadline leaves all passes complete up to the same length
        let sel: Vec<&Pass> = ps.iter().filter(|p| only.is_none() || only == Some(p.name)).collect();
        let depth_of = |p: &Pass| ctx.opt("depth").and_then(|d| d.parse().ok()).unwrap_or(ctx.tier.pick(p.depth_q, p.depth_t));
        let mut diverged: Vec<HashSet<Vec<u8>>> = sel.iter().map(|_| HashSet::new()).collect();
        let maxd = sel.iter().map(|p| depth_of(p)).max().unwrap_or(0);
        'len: for len in 1..=maxd {
            for (pi, pass) in sel.iter().enumerate() {
                if len > depth_of(pass) {
                    continue;
                }
                let mut idx = 0u64;
                rep.begin_case(&format!("{{\"pass\":\"{}\",\"length\":{}}}", pass.name, len));
                let ok = r.level(pass, len, &mut Vec::new(), &mut Vec::new(), &Model::new(), &mut diverged[pi], rep, &mut idx);
                r.stats.flush(rep);
                if !ok {
                    break 'len;
                }
                rep.count(&format!("worker_levels_completed:{}", pass.name), 1);
            }
        }
    }

    fn replay(&self, ctx: &Ctx, case: &Value, rep: &mut Reporter) {
        let pname = case["pass"].as_str().unwrap_or("full");
        let names: Vec<String> = case["ops"].as_array().map(|a| a.iter().filter_map(|x| x.as_str().map(|s| s.to_string())).collect()).unwrap_or_default();
        match pname {
            "sq8" => {
                let v: Vec<f32> = case["bits"].as_array().map(|a| a.iter().map(|x| f32::from_bits(x.as_u64().unwrap_or(0) as u32)).collect()).unwrap_or_default();
                if let Some((e, o)) = sq8_check(&v) {
                    let sig = match case["name"].as_str() {
                        Some(n) => format!("C25/sq8/boundary:{n}/within-one-step>off-by-more"),
                        None if v.len() == 2 => "C25/sq8/lattice-2d/within-one-step>off-by-more".to_string(),
                        None => "C25/sq8/anchored-3d/within-one-step>off-by-more".to_string(),
                    };
                    rep.violation("C25", "sq8", &sig, || case.clone(), &e, &o);
                }
                rep.case(1, true);
            }
            "sql" => {
                let h: Vec<SqlOp> = names.iter().filter_map(|s| SqlOp::parse(s)).collect();
                for x in sql_history(ctx, &h, "c25sql_replay") {
                    rep.violation("C25", x.oracle, &x.sig, || case.clone(), &x.expected, &x.observed);
                }
                rep.case(2, true);
            }
            _ => {
                let Some(pass) = passes().into_iter().find(|p| p.name == pname) else {
                    rep.note("unknown pass in replay case");
                    return;
                };
                let hist: Vec<Op> = names.iter().filter_map(|s| Op::parse(s)).collect();
                let mut r = Runner { ctx, sctx: HnswSearchContext::new(EF_SEARCH as usize, 1024), stats: Stats::default(), path: ctx.scratch.join("c25.hnsw") };
                for v in r.run_history(&pass, &hist, rep, true) {
                    rep.violation("C25", v.oracle, &v.sig, || case.clone(), &v.expected, &v.observed);
                }
                rep.case(3, true);
                rep.add_transitions(1);
                r.stats.flush(rep);
            }
        }
    }
}

fn main() {
    vcore::main(&C25)
}
