//! C21 — Schema changes behave as declared and persist (SQLH engine, model_checking).
//!
//! Every history over a DDL/DML alphabet up to a depth is executed on a fresh real `Database`
//! in lock-step with the relational model `refmodel::sql::rel` (extended locally by a set of
//! schemas: a table inside schema `s` is the model table named "s.t").  `@reopen` (drop the
//! handle, `Database::open` again) is an ordinary letter of the alphabet, so it is inserted at
//! every position.  After the LAST statement of every history (all its proper prefixes were
//! leaves of an earlier, shorter iteration and are known to be clean) the oracle compares, in
//! this order and reporting the first layer that fails:
//!   error-class   Ok/Err of the statement (model rejects <=> TurDB returns Err; a panic is always wrong);
//!                 `open` when the reopen itself fails
//!   for every table of the universe {t, u, s.t} that the model holds:
//!     rows        `SELECT * FROM tbl` as a bag == model rows (added columns read their declared default
//!                 - NULL when none - on old rows and on new rows that omit them, DROP COLUMN keeps the
//!                 other columns, a renamed column keeps its values)
//!     columns     the column names `SELECT *` reports == declared names in declared positions
//!     count       `SELECT COUNT(*)` == number of model rows
//!     pk-lookup   `SELECT * FROM tbl WHERE a = k`, k = 1..3 (tables with a primary key)
//!     index-lookup `WHERE <indexed col> = v` for every value the model holds plus an absent one
//!     names       (table t) for every name of the column universe {a,b,c,e,y,z}: `SELECT * FROM t WHERE
//!                 <name> IS NULL` fails iff the model has no such column (old name gone after RENAME,
//!                 dropped column gone) and otherwise returns the model's rows with a NULL there
//!   and for every table of the universe the model does NOT hold:
//!     table-gone  `SELECT * FROM tbl` must fail
//! When the last letter is `@reopen` the layer is prefixed `after-reopen.`.
//!
//! How the session ends is a dimension of the reopen oracle: `@reopen` drops the handle (Drop does the
//! clean shutdown), `@close-reopen` calls the explicit `close()` API first (Drop of a closed handle does
//! nothing more), `@checkpoint-reopen` calls `checkpoint()` and then drops.  Whatever the last
//! catalog-changing statement of the session was, all three must show the same state after
//! `Database::open` (layer prefixes `after-close-reopen.` / `after-checkpoint-reopen.`).  In the quick
//! tier the two explicit endings are tried only as the last letter of a history (that is: after every
//! history of length depth-1, hence after every DDL kind as last statement); in the thorough tier they
//! are ordinary letters.
//!
//! Statements whose treatment differs between SQL dialects are NOT judged (skipped, counted as
//! `unspecified:*`): DROP COLUMN of a key / indexed / only column (model: `Dependent`), plain
//! `DROP SCHEMA s` of a non-empty schema (RESTRICT vs. MySQL semantics; the alphabet has
//! `DROP SCHEMA s CASCADE` for that state), UPDATE of a primary-key column.
//!
//! Signature = C21/<DDL kinds of the minimal history, the first CREATE TABLE omitted when other DDL
//! follows>/<non-DDL letters after the last DDL: none|insert|update-all|reopen|...>/<layer>:<class>.
//! The minimal history is obtained by delta-debugging (drop letters while the same layer:class still
//! is the first failure of the last letter); the recorded case IS the minimal history.
//!
//! Exploration: iterative deepening (length 1 in every pass, then 2, ...), histories enumerated on
//! the model (a history is extended only through letters the model accepts and whose history was
//! clean on the real database), executed by prefix re-execution from a fresh directory.  Histories
//! of length <= 2 (beyond the pass's setup) are owned one by one (`ctx.mine(hash)`) and run with the
//! oracle after every step (their prefix may belong to another worker); the owner of a length-2
//! prefix owns its whole subtree and verifies the prefix once before descending.
//!
//! Passes: `full:*` whole alphabet, every construct; `clean:*` the same alphabets minus exactly the
//! constructs listed in findings.d/C21.json (see `avoid`), so that the defect-free remainder is
//! explored to full depth.
use checks::sqlh::*;
use refmodel::sql::expr as ex;
use refmodel::sql::rel::{ColumnDef, CreateIndex, CreateTable, Insert, ModelErr, State, Stmt, TableDef, Update};
use refmodel::sql::Ty;
use refmodel::val::{bag, show_rows, Row, V};
use std::collections::BTreeSet;
use std::path::Path;
use vcore::{json, Check, Ctx, Reporter, Spec, Value};

// ---------------------------------------------------------------------------
// alphabet
// ---------------------------------------------------------------------------
#[derive(Clone, Copy, PartialEq, Eq, Hash, Debug, PartialOrd, Ord)]
enum Op {
    CT1,
    CT2,
    DT,
    CU,
    IU,
    DU,
    CI,
    DI,
    TR,
    AZ,
    AZD,
    AYD,
    AZN,
    DCA,
    DCB,
    DCC,
    DCZ,
    RN,
    RNX,
    I1,
    I2,
    IL,
    UPA,
    UPK,
    RO,
    RC,
    RK,
    CS,
    DS,
    DSC,
    CST,
    IST,
    DST,
    TRS,
}
use Op::*;
const ALL_OPS: [Op; 34] = [CT1, CT2, DT, CU, IU, DU, CI, DI, TR, AZ, AZD, AYD, AZN, DCA, DCB, DCC, DCZ, RN, RNX, I1, I2, IL, UPA, UPK, RO, RC, RK, CS, DS, DSC, CST, IST, DST, TRS];
impl Op {
    fn name(self) -> String {
        format!("{self:?}")
    }
    fn parse(s: &str) -> Option<Op> {
        ALL_OPS.iter().copied().find(|o| o.name() == s)
    }
    /// DDL kind (None for DML and reopen)
    fn ddl_kind(self) -> Option<&'static str> {
        Some(match self {
            CT1 | CT2 | CU => "create-table",
            DT | DU => "drop-table",
            CI => "create-index",
            DI => "drop-index",
            TR | TRS => "truncate",
            AZ => "add-col",
            AZD => "add-col-default-int",
            AYD => "add-col-default-text",
            AZN => "add-col-default-neg",
            DCA => "drop-col-first",
            DCB => "drop-col-middle",
            DCC => "drop-col-last",
            DCZ => "drop-col-added",
            RN => "rename-col",
            RNX => "rename-col-onto",
            CS => "create-schema",
            DS => "drop-schema",
            DSC => "drop-schema-cascade",
            CST => "create-table-in-schema",
            DST => "drop-table-in-schema",
            I1 | I2 | IL | UPA | UPK | RO | RC | RK | IU | IST => return None,
        })
    }
    fn dml_kind(self) -> &'static str {
        match self {
            I1 | I2 => "insert",
            IL => "insert-cols",
            UPA => "update-all",
            UPK => "update-key",
            IU => "insert-other",
            IST => "insert-in-schema",
            RO => "reopen",
            RC => "close-reopen",
            RK => "checkpoint-reopen",
            _ => "ddl",
        }
    }
    /// how the session ends before `Database::open` (None for every other letter)
    fn ending(self) -> Option<End> {
        match self {
            RO => Some(End::Drop),
            RC => Some(End::Close),
            RK => Some(End::Checkpoint),
            _ => None,
        }
    }
    fn is_reopen(self) -> bool {
        self.ending().is_some()
    }
    fn is_insert(self) -> bool {
        matches!(self, I1 | I2 | IL | IU | IST)
    }
}

// ---------------------------------------------------------------------------
// model = rel::State + schemas
// ---------------------------------------------------------------------------
#[derive(Clone, Debug, Default)]
struct Model {
    st: State,
    schemas: BTreeSet<String>,
}
const TABLES: [&str; 3] = ["t", "u", "s.t"];
const COLNAMES: [&str; 6] = ["a", "b", "c", "e", "y", "z"];

/// The three ways a session can end before the directory is opened again: the handle is dropped
/// (Drop does the clean shutdown), `close()` is called and the handle dropped afterwards, or
/// `checkpoint()` is called and the handle dropped afterwards.
#[derive(Clone, Copy, PartialEq, Eq, Debug)]
enum End {
    Drop,
    Close,
    Checkpoint,
}
impl End {
    fn layer_prefix(self) -> &'static str {
        match self {
            End::Drop => "after-reopen.",
            End::Close => "after-close-reopen.",
            End::Checkpoint => "after-checkpoint-reopen.",
        }
    }
}

enum Act {
    Rel(Stmt),
    CreateSchema(String),
    DropSchema { name: String, cascade: bool },
    Reopen(End),
}
struct Built {
    sql: String,
    act: Act,
}
#[derive(Clone, Debug, PartialEq)]
enum MStep {
    Ok,
    Err(String),
    Unspec(&'static str),
}

fn shape1() -> TableDef {
    TableDef::new("t").col(ColumnDef::new("a", Ty::Int).primary_key()).col(ColumnDef::new("b", Ty::Int)).col(ColumnDef::new("c", Ty::Text))
}
fn shape2() -> TableDef {
    TableDef::new("t").col(ColumnDef::new("a", Ty::Int)).col(ColumnDef::new("b", Ty::Int)).col(ColumnDef::new("c", Ty::Text))
}
fn small(name: &str) -> TableDef {
    TableDef::new(name).col(ColumnDef::new("a", Ty::Int).primary_key()).col(ColumnDef::new("b", Ty::Int))
}
/// the value key `k` puts into a column (by name, so that it follows the column through DDL)
fn val_for(c: &ColumnDef, k: i64) -> V {
    match c.ty {
        Ty::Text => V::Text(format!("{}{}", c.name, k)),
        _ => match c.name.as_str() {
            "a" => V::Int(k),
            "b" | "e" => V::Int(k * 10),
            "z" => V::Int(k * 100),
            _ => V::Int(k * 1000),
        },
    }
}
fn upd_val(c: &ColumnDef, n: i64) -> V {
    match c.ty {
        Ty::Text => V::Text(format!("w{n}")),
        _ => V::Int(n),
    }
}

fn build(op: Op, m: &Model) -> Result<Built, &'static str> {
    let tdef: TableDef = m.st.tables.get("t").map(|t| t.def.clone()).unwrap_or_else(shape1);
    let rel = |s: Stmt| Ok(Built { sql: s.to_sql(), act: Act::Rel(s) });
    let addcol = |c: ColumnDef| Stmt::AddColumn { table: "t".into(), column: c };
    let dropcol = |c: &str| Stmt::DropColumn { table: "t".into(), column: c.into() };
    match op {
        CT1 => rel(Stmt::CreateTable(CreateTable::new(shape1()))),
        CT2 => rel(Stmt::CreateTable(CreateTable::new(shape2()))),
        CU => rel(Stmt::CreateTable(CreateTable::new(small("u")))),
        CST => rel(Stmt::CreateTable(CreateTable::new(small("s.t")))),
        DT => rel(Stmt::DropTable { table: "t".into(), if_exists: false }),
        DU => rel(Stmt::DropTable { table: "u".into(), if_exists: false }),
        DST => rel(Stmt::DropTable { table: "s.t".into(), if_exists: false }),
        CI => rel(Stmt::CreateIndex(CreateIndex::new("ib", "t", &["b"], false))),
        DI => rel(Stmt::DropIndex { index: "ib".into(), if_exists: false }),
        TR => rel(Stmt::Truncate { table: "t".into() }),
        TRS => rel(Stmt::Truncate { table: "s.t".into() }),
        AZ => rel(addcol(ColumnDef::new("z", Ty::Int))),
        AZD => rel(addcol(ColumnDef::new("z", Ty::Int).default(V::Int(5)))),
        AYD => rel(addcol(ColumnDef::new("y", Ty::Text).default(V::Text("d".into())))),
        AZN => rel(addcol(ColumnDef::new("z", Ty::Int).default(V::Int(-1)))),
        DCA => rel(dropcol("a")),
        DCB => rel(dropcol("b")),
        DCC => rel(dropcol("c")),
        DCZ => rel(dropcol("z")),
        RN => rel(Stmt::RenameColumn { table: "t".into(), from: "b".into(), to: "e".into() }),
        RNX => rel(Stmt::RenameColumn { table: "t".into(), from: "c".into(), to: "b".into() }),
        I1 | I2 => {
            let k = if op == I1 { 1 } else { 2 };
            let row: Row = tdef.columns.iter().map(|c| val_for(c, k)).collect();
            rel(Stmt::Insert(Insert::literals("t", &[], vec![row])))
        }
        IL => {
            let cols: Vec<&ColumnDef> = tdef.columns.iter().take(2).collect();
            let names: Vec<&str> = cols.iter().map(|c| c.name.as_str()).collect();
            let row: Row = cols.iter().map(|c| val_for(c, 3)).collect();
            rel(Stmt::Insert(Insert::literals("t", &names, vec![row])))
        }
        IU => rel(Stmt::Insert(Insert::literals("u", &[], vec![vec![V::Int(1), V::Int(10)]]))),
        IST => rel(Stmt::Insert(Insert::literals("s.t", &[], vec![vec![V::Int(1), V::Int(10)]]))),
        UPA => {
            let last = tdef.columns.last().unwrap();
            if tdef.pk_cols().contains(&last.name) {
                return Err("update-of-key");
            }
            rel(Stmt::Update(Update::new("t", vec![(last.name.as_str(), ex::lit(upd_val(last, 7)))], None)))
        }
        UPK => {
            if tdef.columns.len() < 2 {
                return Err("update-of-key");
            }
            let (c1, c2) = (&tdef.columns[0], &tdef.columns[1]);
            rel(Stmt::Update(Update::new("t", vec![(c2.name.as_str(), ex::lit(upd_val(c2, 77)))], Some(ex::eq(ex::col(&c1.name), ex::lit(val_for(c1, 1)))))))
        }
        RO => Ok(Built { sql: "@reopen".into(), act: Act::Reopen(End::Drop) }),
        RC => Ok(Built { sql: "@close-reopen".into(), act: Act::Reopen(End::Close) }),
        RK => Ok(Built { sql: "@checkpoint-reopen".into(), act: Act::Reopen(End::Checkpoint) }),
        CS => Ok(Built { sql: "CREATE SCHEMA s".into(), act: Act::CreateSchema("s".into()) }),
        DS => Ok(Built { sql: "DROP SCHEMA s".into(), act: Act::DropSchema { name: "s".into(), cascade: false } }),
        DSC => Ok(Built { sql: "DROP SCHEMA s CASCADE".into(), act: Act::DropSchema { name: "s".into(), cascade: true } }),
    }
}

fn stmt_table(s: &Stmt) -> Option<&str> {
    Some(match s {
        Stmt::Insert(i) => &i.table,
        Stmt::Update(u) => &u.table,
        Stmt::Delete(d) => &d.table,
        Stmt::Truncate { table } | Stmt::DropTable { table, .. } | Stmt::AddColumn { table, .. } | Stmt::DropColumn { table, .. } | Stmt::RenameColumn { table, .. } => table,
        Stmt::CreateTable(c) => &c.def.name,
        Stmt::CreateIndex(c) => &c.index.table,
        _ => return None,
    })
}

fn m_apply(m: &mut Model, act: &Act) -> MStep {
    match act {
        Act::Reopen(_) => MStep::Ok,
        Act::CreateSchema(n) => {
            if m.schemas.contains(n) {
                MStep::Err("schemaexists".into())
            } else {
                m.schemas.insert(n.clone());
                MStep::Ok
            }
        }
        Act::DropSchema { name, cascade } => {
            if !m.schemas.contains(name) {
                return MStep::Err("nosuchschema".into());
            }
            let prefix = format!("{name}.");
            let inside: Vec<String> = m.st.tables.keys().filter(|t| t.starts_with(&prefix)).cloned().collect();
            if !inside.is_empty() && !*cascade {
                return MStep::Unspec("drop-nonempty-schema");
            }
            for t in inside {
                m.st.tables.remove(&t);
                m.st.indexes.retain(|_, ix| ix.table != t);
            }
            m.schemas.remove(name);
            MStep::Ok
        }
        Act::Rel(s) => {
            if let (Some(t), Stmt::CreateTable(_)) = (stmt_table(s), s) {
                if let Some((sch, _)) = t.split_once('.') {
                    if !m.schemas.contains(sch) {
                        return MStep::Err("nosuchschema".into());
                    }
                }
            }
            match s.apply(&mut m.st) {
                Ok(_) => MStep::Ok,
                Err(ModelErr::Dependent(_)) => MStep::Unspec("dependent-column"),
                Err(e) => MStep::Err(e.class().into()),
            }
        }
    }
}

fn r_apply(t: &mut TestDb, b: &Built) -> Res {
    match &b.act {
        Act::Reopen(end) => {
            let r = match end {
                End::Drop => t.reopen(),
                End::Close => t.close_reopen(),
                End::Checkpoint => {
                    let cp = match &t.db {
                        Some(db) => match vcore::catch(|| db.checkpoint().map(|_| ()).map_err(|e| format!("{e:#}"))) {
                            Ok(Ok(())) => Ok(()),
                            Ok(Err(e)) => Err(format!("checkpoint: {e}")),
                            Err(p) => Err(format!("PANIC in checkpoint: {p}")),
                        },
                        None => Ok(()),
                    };
                    match cp {
                        Ok(()) => t.reopen(),
                        Err(e) => {
                            // the handle stays usable for nothing: end the history here
                            t.db = None;
                            Err(e)
                        }
                    }
                }
            };
            match r {
                Ok(()) => Res::Done("reopen".into()),
                Err(e) if e.starts_with("PANIC") => Res::Panic(e),
                Err(e) => Res::Err(e),
            }
        }
        _ => t.exec(&b.sql),
    }
}

// ---------------------------------------------------------------------------
// oracle
// ---------------------------------------------------------------------------
#[derive(Clone, Debug)]
struct Viol {
    layer: String,
    class: String,
    expected: String,
    observed: String,
}
impl Viol {
    fn new(layer: &str, class: &str, expected: String, observed: String) -> Viol {
        Viol { layer: layer.into(), class: class.into(), expected, observed }
    }
}

/// planted perturbations of the OBSERVATION (harness self-test, `--opt plant=<name>`)
#[derive(Clone, Copy, PartialEq, Eq, Debug)]
enum Plant {
    None,
    /// after a RENAME COLUMN the renamed column of t reads NULL
    RenameLose,
    /// after a reopen the last row of t is missing
    ReopenLose,
    /// after DROP COLUMN b the other non-key columns of t read changed values (+1 / an appended 'x')
    DropShift,
}
impl Plant {
    fn from_ctx(ctx: &Ctx) -> Plant {
        match ctx.opt("plant") {
            Some("rename-lose") => Plant::RenameLose,
            Some("reopen-lose") => Plant::ReopenLose,
            Some("drop-shift") => Plant::DropShift,
            _ => Plant::None,
        }
    }
}

fn select_cols(db: &turdb::Database, sql: &str) -> Result<(Vec<String>, Vec<Row>), Res> {
    match vcore::catch(|| db.execute(sql).map_err(|e| format!("{e:#}"))) {
        Ok(Ok(turdb::ExecuteResult::Select { columns, rows })) => Ok((columns, rows.iter().map(row_to_v).collect())),
        Ok(Ok(o)) => Err(norm(Ok(o))),
        Ok(Err(e)) => Err(Res::Err(e)),
        Err(p) => Err(Res::Panic(p)),
    }
}

/// how an observed bag differs from the expected one
fn rows_class(exp: &[Row], obs: &[Row]) -> &'static str {
    if obs.len() < exp.len() {
        return "lost-rows";
    }
    if obs.len() > exp.len() {
        return "extra-rows";
    }
    if exp.iter().zip(obs).any(|(e, o)| e.len() != o.len()) {
        return "width";
    }
    // can every observed row be matched to an expected row it equals except for NULLs in place of values?
    let mut used = vec![false; exp.len()];
    let mut all = true;
    for o in obs {
        let hit = exp.iter().enumerate().position(|(i, e)| !used[i] && e.iter().zip(o).all(|(ev, ov)| ev == ov || ov.is_null()));
        match hit {
            Some(i) => used[i] = true,
            None => {
                all = false;
                break;
            }
        }
    }
    if all {
        "value>null"
    } else {
        "values"
    }
}
fn res_class(r: &Res) -> &'static str {
    match r {
        Res::Err(_) => "err",
        Res::Panic(_) => "panic",
        _ => "ok",
    }
}

#[derive(Default)]
struct StepStats {
    probes: u64,
    index_plans: u64,
    pk_plans: u64,
}

struct HistFlags {
    renamed: bool,
    reopened: bool,
    dropped_b: bool,
}

/// compare one SELECT * style probe with the expected bag
fn probe_rows(db: &turdb::Database, sql: &str, exp: &[Row], layer: &str, st: &mut StepStats) -> Option<Viol> {
    st.probes += 1;
    let exp = bag(exp);
    match query(db, sql) {
        Res::Rows(r) => {
            let got = bag(&r);
            if got != exp {
                Some(Viol::new(layer, rows_class(&exp, &got), format!("{sql} = {}", show_rows(&exp)), show_rows(&got)))
            } else {
                None
            }
        }
        o => Some(Viol::new(layer, &format!("ok>{}", res_class(&o)), format!("{sql} = {}", show_rows(&exp)), o.show())),
    }
}

fn check_state(db: &turdb::Database, m: &Model, flags: &HistFlags, plant: Plant, st: &mut StepStats) -> Option<Viol> {
    for tbl in TABLES {
        let Some(rt) = m.st.tables.get(tbl) else {
            st.probes += 1;
            let r = query(db, &format!("SELECT * FROM {tbl}"));
            match r {
                Res::Err(_) => continue,
                o => return Some(Viol::new("table-gone", &format!("err>{}", res_class(&o)), format!("SELECT * FROM {tbl} fails: the model has no table {tbl}"), o.show())),
            }
        };
        let def = &rt.def;
        let exp = bag(&rt.rows);
        // rows + columns
        st.probes += 1;
        let sql = format!("SELECT * FROM {tbl}");
        match select_cols(db, &sql) {
            Err(o) => return Some(Viol::new("rows", &format!("ok>{}", res_class(&o)), format!("{sql} = {}", show_rows(&exp)), o.show())),
            Ok((cols, rows)) => {
                let mut rows = rows;
                if tbl == "t" {
                    match plant {
                        Plant::RenameLose if flags.renamed => {
                            if let Some(i) = def.col_index("e") {
                                for r in rows.iter_mut() {
                                    if i < r.len() {
                                        r[i] = V::Null;
                                    }
                                }
                            }
                        }
                        Plant::ReopenLose if flags.reopened => {
                            rows.pop();
                        }
                        Plant::DropShift if flags.dropped_b => {
                            for r in rows.iter_mut() {
                                for v in r.iter_mut().skip(1) {
                                    match v {
                                        V::Int(x) => *x += 1,
                                        V::Text(t) => t.push('x'),
                                        _ => {}
                                    }
                                }
                            }
                        }
                        _ => {}
                    }
                }
                let got = bag(&rows);
                if got != exp {
                    return Some(Viol::new("rows", rows_class(&exp, &got), format!("{sql} = {}", show_rows(&exp)), show_rows(&got)));
                }
                let want: Vec<String> = def.columns.iter().map(|c| c.name.clone()).collect();
                let got_names: Vec<String> = cols.iter().map(|c| c.rsplit('.').next().unwrap_or(c).to_ascii_lowercase()).collect();
                if got_names != want {
                    return Some(Viol::new("columns", "names", format!("{sql} reports columns {want:?}"), format!("{cols:?}")));
                }
            }
        }
        // count
        st.probes += 1;
        let sql = format!("SELECT COUNT(*) FROM {tbl}");
        match query(db, &sql) {
            Res::Rows(r) if r == vec![vec![V::Int(exp.len() as i64)]] => {}
            o => {
                let cls = if o.ok() { "count".to_string() } else { format!("ok>{}", res_class(&o)) };
                return Some(Viol::new("count", &cls, format!("{sql} = {}", exp.len()), o.show()));
            }
        }
        // pk lookups
        if let Some(pk) = def.pk_cols().first() {
            let i = def.col_index(pk).unwrap();
            for k in 1..=3i64 {
                let sql = format!("SELECT * FROM {tbl} WHERE {pk} = {k}");
                if k == 1 {
                    if let Some(p) = explain(db, &sql) {
                        if p.contains("IndexScan") {
                            st.pk_plans += 1;
                        }
                    }
                }
                let want: Vec<Row> = exp.iter().filter(|r| r[i] == V::Int(k)).cloned().collect();
                if let Some(v) = probe_rows(db, &sql, &want, "pk-lookup", st) {
                    return Some(v);
                }
            }
        }
        // index lookups
        for ix in m.st.indexes.values().filter(|ix| ix.table == tbl) {
            let Some(c) = ix.columns.first() else { continue };
            let Some(i) = def.col_index(c) else { continue };
            let mut vals: Vec<V> = exp.iter().map(|r| r[i].clone()).filter(|v| !v.is_null()).collect();
            vals.sort();
            vals.dedup();
            vals.push(V::Int(999));
            for (n, v) in vals.iter().enumerate() {
                let sql = format!("SELECT * FROM {tbl} WHERE {c} = {}", lit(v));
                if n == 0 {
                    if let Some(p) = explain(db, &sql) {
                        if p.contains("IndexScan") {
                            st.index_plans += 1;
                        }
                    }
                }
                let want: Vec<Row> = exp.iter().filter(|r| &r[i] == v).cloned().collect();
                if let Some(v) = probe_rows(db, &sql, &want, "index-lookup", st) {
                    return Some(v);
                }
            }
        }
        // name resolution (table t only: the others are never altered)
        if tbl == "t" {
            for name in COLNAMES {
                let sql = format!("SELECT * FROM t WHERE {name} IS NULL");
                match def.col_index(name) {
                    Some(i) => {
                        let want: Vec<Row> = exp.iter().filter(|r| r[i].is_null()).cloned().collect();
                        if let Some(v) = probe_rows(db, &sql, &want, "names", st) {
                            return Some(v);
                        }
                    }
                    None => {
                        st.probes += 1;
                        match query(db, &sql) {
                            Res::Err(_) => {}
                            o => return Some(Viol::new("names", &format!("err>{}", res_class(&o)), format!("{sql} fails: t has no column {name}"), o.show())),
                        }
                    }
                }
            }
        }
    }
    None
}

fn err_class(msg: &str) -> &'static str {
    let m = msg.to_ascii_lowercase();
    if m.contains("already exists") {
        "already-exists"
    } else if m.contains("not found") {
        "not-found"
    } else if m.contains("constraint") || m.contains("duplicate") {
        "constraint"
    } else if m.contains("out of bounds") {
        "out-of-bounds"
    } else if m.contains("catalog") {
        "catalog"
    } else if m.contains("parse") || m.contains("expected") {
        "parse"
    } else {
        "other"
    }
}

/// what one executed history reports
struct RunOut {
    /// first violation: (index of the step, violation)
    viol: Option<(usize, Viol)>,
    /// (model class, real class) of the last executed step
    last: (String, String),
    /// error message of the last step when it failed
    last_err: Option<String>,
    stats: StepStats,
    /// the history contains a letter that is unspecified in its state (cannot happen for enumerated histories)
    unspec: Option<usize>,
}

/// Execute `ops` on a fresh database in lock-step with the model.  `all`: oracle after every step
/// (shrinking / replay); otherwise only after the last one.
fn run_history(scratch: &Path, ops: &[Op], all: bool, plant: Plant) -> RunOut {
    let mut out = RunOut { viol: None, last: (String::new(), String::new()), last_err: None, stats: StepStats::default(), unspec: None };
    let mut t = match TestDb::create(scratch, "db") {
        Ok(t) => t,
        Err(e) => {
            out.viol = Some((0, Viol::new("open", "create", "Database::create succeeds".into(), e)));
            return out;
        }
    };
    let mut m = Model::default();
    let mut flags = HistFlags { renamed: false, reopened: false, dropped_b: false };
    for (k, &op) in ops.iter().enumerate() {
        let last = k + 1 == ops.len();
        let b = match build(op, &m) {
            Ok(b) => b,
            Err(_) => {
                out.unspec = Some(k);
                return out;
            }
        };
        let mut m2 = m.clone();
        let ms = m_apply(&mut m2, &b.act);
        if let MStep::Unspec(_) = ms {
            out.unspec = Some(k);
            return out;
        }
        let r = r_apply(&mut t, &b);
        if ms == MStep::Ok {
            match op {
                RN => flags.renamed = true,
                DCB => flags.dropped_b = true,
                RO | RC | RK => flags.reopened = true,
                _ => {}
            }
        }
        if last {
            out.last = (
                match &ms {
                    MStep::Ok => "ok".to_string(),
                    MStep::Err(c) => format!("err:{c}"),
                    MStep::Unspec(_) => unreachable!(),
                },
                res_class(&r).to_string(),
            );
            if let Res::Err(e) = &r {
                out.last_err = Some(e.clone());
            }
        }
        if all || last {
            let layer = if op.is_reopen() { "open" } else { "error-class" };
            let v = match (&ms, &r) {
                (_, Res::Panic(p)) => Some(Viol::new(layer, &format!("{}>panic", if ms == MStep::Ok { "ok" } else { "err" }), format!("{} returns {}", b.sql, if ms == MStep::Ok { "Ok" } else { "Err" }), format!("PANIC({p})"))),
                (MStep::Ok, Res::Err(e)) => Some(Viol::new(layer, "ok>err", format!("{} succeeds (the model accepts it)", b.sql), format!("Err({e})"))),
                (MStep::Err(c), r) if r.ok() => Some(Viol::new(layer, "err>ok", format!("{} fails (model: {c})", b.sql), r.show())),
                _ => None,
            };
            if let Some(v) = v {
                out.viol = Some((k, v));
                return out;
            }
        }
        if t.db.is_none() {
            // reopen failed without oracle (cannot happen on a clean prefix): stop
            out.viol = Some((k, Viol::new("open", "ok>err", "reopen succeeds".into(), r.show())));
            return out;
        }
        m = m2;
        if all || last {
            if let Some(mut v) = check_state(t.db(), &m, &flags, plant, &mut out.stats) {
                if let Some(end) = op.ending() {
                    v.layer = format!("{}{}", end.layer_prefix(), v.layer);
                }
                out.viol = Some((k, v));
                return out;
            }
        }
    }
    out
}

/// delta-debugging: drop letters while the same layer:class is still the first failure, at the last letter
fn shrink(scratch: &Path, ops: &[Op], v: &Viol, plant: Plant) -> (Vec<Op>, Viol) {
    let mut cur = ops.to_vec();
    let mut curv = v.clone();
    loop {
        let mut changed = false;
        for i in 0..cur.len().saturating_sub(1) {
            let mut cand = cur.clone();
            cand.remove(i);
            let o = run_history(scratch, &cand, true, plant);
            if o.unspec.is_some() {
                continue;
            }
            if let Some((at, v2)) = o.viol {
                if at + 1 == cand.len() && v2.layer == curv.layer && v2.class == curv.class {
                    cur = cand;
                    curv = v2;
                    changed = true;
                    break;
                }
            }
        }
        if !changed {
            return (cur, curv);
        }
    }
}

fn signature(ops: &[Op], v: &Viol) -> String {
    let mut ddl: Vec<&'static str> = ops.iter().filter_map(|o| o.ddl_kind()).collect();
    if ddl.len() > 1 && ddl[0] == "create-table" {
        ddl.remove(0);
    }
    let last_ddl = ops.iter().rposition(|o| o.ddl_kind().is_some());
    let after: Vec<&'static str> = ops[last_ddl.map(|i| i + 1).unwrap_or(0)..].iter().map(|o| o.dml_kind()).collect();
    format!(
        "C21/{}/{}/{}:{}",
        if ddl.is_empty() { "none".to_string() } else { ddl.join(",") },
        if after.is_empty() { "none".to_string() } else { after.join("+") },
        v.layer,
        v.class
    )
}

fn case_json(pass: &str, ops: &[Op]) -> Value {
    let m = replay_sql(ops);
    json!({"pass": pass, "ops": ops.iter().map(|o| o.name()).collect::<Vec<_>>(), "sql": m})
}
/// the SQL text of a history (informational; replay rebuilds it from the letters)
fn replay_sql(ops: &[Op]) -> Vec<String> {
    let mut m = Model::default();
    let mut v = vec![];
    for &op in ops {
        match build(op, &m) {
            Ok(b) => {
                let _ = m_apply(&mut m, &b.act);
                v.push(b.sql);
            }
            Err(e) => v.push(format!("<unspecified: {e}>")),
        }
    }
    v
}

// ---------------------------------------------------------------------------
// passes
// ---------------------------------------------------------------------------
#[derive(Clone)]
struct Pass {
    name: &'static str,
    setup: Vec<Op>,
    alphabet: Vec<Op>,
    depth: usize,
    clean: bool,
    /// the session endings `close()+open` / `checkpoint()+open` (RC, RK) are tried only as the LAST letter of a
    /// history (after every history of length depth-1, so after every DDL kind as last statement); otherwise
    /// they are ordinary letters like `@reopen` (thorough tier)
    endings_last_only: bool,
}
const SPLIT: usize = 2;

fn table_alphabet() -> Vec<Op> {
    vec![I1, I2, IL, UPA, UPK, RO, RC, RK, AZ, AZD, AYD, AZN, DCA, DCB, DCC, DCZ, RN, RNX, TR, CI, DI, DT, CT1, CT2, CU, IU, DU]
}
fn schema_alphabet() -> Vec<Op> {
    vec![CS, CST, IST, TRS, DST, DS, DSC, CT1, I1, TR, DT, RO, RC, RK]
}
fn passes(ctx: &Ctx) -> Vec<Pass> {
    let q = ctx.quick();
    let d = |quick: usize, thorough: usize| if q { quick } else { thorough };
    let mut v = vec![
        Pass { name: "full:empty", setup: vec![], alphabet: table_alphabet(), depth: d(3, 4), clean: false, endings_last_only: q },
        Pass { name: "full:pk2", setup: vec![CT1, I1, I2], alphabet: table_alphabet(), depth: d(2, 3), clean: false, endings_last_only: q },
        Pass { name: "full:nopk2", setup: vec![CT2, I1, I2], alphabet: table_alphabet(), depth: d(2, 3), clean: false, endings_last_only: q },
        Pass { name: "full:schema", setup: vec![], alphabet: schema_alphabet(), depth: d(3, 5), clean: false, endings_last_only: q },
        Pass { name: "clean:empty", setup: vec![], alphabet: table_alphabet(), depth: d(2, 4), clean: true, endings_last_only: q },
        Pass { name: "clean:pk2", setup: vec![CT1, I1, I2], alphabet: table_alphabet(), depth: d(3, 4), clean: true, endings_last_only: q },
        Pass { name: "clean:nopk2", setup: vec![CT2, I1, I2], alphabet: table_alphabet(), depth: d(3, 4), clean: true, endings_last_only: q },
        Pass { name: "clean:schema", setup: vec![], alphabet: schema_alphabet(), depth: d(4, 6), clean: true, endings_last_only: q },
    ];
    if let Some(only) = ctx.opt("pass") {
        v.retain(|p| p.name == only || p.name.starts_with(only));
    }
    if let Some(dd) = ctx.opt("depth").and_then(|s| s.parse::<usize>().ok()) {
        for p in v.iter_mut() {
            p.depth = dd;
        }
    }
    v
}

/// letters that make no sense in their position (never judged, never counted)
fn structurally_allowed(hist: &[Op], op: Op) -> bool {
    if op.is_reopen() {
        // reopen of an empty database / two reopens in a row add nothing
        return !hist.is_empty() && !hist.last().unwrap().is_reopen();
    }
    true
}

/// Constructs excluded from the `clean:*` passes: exactly the triggers of the findings recorded in
/// findings.d/C21.json.  `hist` = letters so far (setup included), `m` = model state before `op`.
fn avoid(hist: &[Op], m: &Model, op: Op) -> Option<&'static str> {
    let t = m.st.tables.get("t");
    let has = |c: &str| t.map(|t| t.def.col_index(c).is_some()).unwrap_or(false);
    let nonempty = t.map(|t| !t.rows.is_empty()).unwrap_or(false);
    let indexed = |c: &str| m.st.indexes.values().any(|ix| ix.table == "t" && ix.columns.iter().any(|x| x == c));
    match op {
        // KF-C21-01: ADD COLUMN of an existing name is accepted
        AZ | AZD | AZN if has("z") => return Some("KF-C21-01 duplicate ADD COLUMN"),
        AYD if has("y") => return Some("KF-C21-01 duplicate ADD COLUMN"),
        // KF-C21-03: a negative DEFAULT is stored as NULL
        AZN if t.is_some() => return Some("KF-C21-03 negative DEFAULT"),
        // KF-C21-02: the DEFAULT of an added column is not applied to existing rows
        AZD | AYD if nonempty => return Some("KF-C21-02 ADD COLUMN DEFAULT on existing rows"),
        // KF-C21-04: rows written before an ADD COLUMN panic in key / index lookups
        // (a table without primary key and index reads such rows correctly: kept, but no index may be created
        // while rows written before an ADD COLUMN can exist)
        AZ if nonempty && (t.map(|t| !t.def.pk_cols().is_empty()).unwrap_or(false) || m.st.indexes.values().any(|ix| ix.table == "t")) => return Some("KF-C21-04 ADD COLUMN on existing rows"),
        CI if t.is_some() && {
            let from = hist.iter().rposition(|o| matches!(o, CT1 | CT2)).unwrap_or(0);
            hist[from..].iter().any(|o| matches!(o, AZ | AZD | AYD | AZN))
        } => return Some("KF-C21-04 CREATE INDEX over rows older than an ADD COLUMN"),
        // KF-C21-07: CREATE INDEX on a column that does not exist is accepted
        CI if t.is_some() && !has("b") && !m.st.indexes.contains_key("ib") => return Some("KF-C21-07 CREATE INDEX on a missing column"),
        // KF-C21-08: RENAME COLUMN onto an existing name is accepted
        RNX if has("c") && has("b") => return Some("KF-C21-08 RENAME onto an existing column"),
        RN if has("b") && has("e") => return Some("KF-C21-08 RENAME onto an existing column"),
        // KF-C21-11: TRUNCATE of a schema-qualified table looks the table up in the default schema
        TRS if m.st.tables.contains_key("s.t") != t.is_some() => return Some("KF-C21-11 TRUNCATE s.t resolved in the default schema"),
        // KF-C21-09: DROP TABLE leaves the TOAST side table behind, the name cannot be re-created
        CT1 | CT2 if t.is_none() && hist.contains(&DT) => return Some("KF-C21-09 re-CREATE after DROP TABLE"),
        // KF-C21-14 / KF-C21-13: a re-created table reuses the storage of the dropped one
        CU if !m.st.tables.contains_key("u") && hist.contains(&DU) => return Some("KF-C21-14 re-CREATE after DROP TABLE"),
        CST if !m.st.tables.contains_key("s.t") && hist.iter().any(|o| matches!(o, DST | DSC | DS)) && hist.contains(&CST) => return Some("KF-C21-13/14 re-CREATE of s.t after DROP"),
        // KF-C21-12: s.t next to a root table t is read with the root table's definition
        CST if t.is_some() && m.schemas.contains("s") && !m.st.tables.contains_key("s.t") => return Some("KF-C21-12 s.t next to a root table t"),
        CT1 | CT2 if t.is_none() && m.st.tables.contains_key("s.t") => return Some("KF-C21-12 s.t next to a root table t"),
        // KF-C21-05: any CREATE SCHEMA makes the persisted catalog unreadable
        RO | RC | RK if !m.schemas.is_empty() => return Some("KF-C21-05 reopen with a user schema"),
        _ => {}
    }
    // KF-C21-10 (= KF-C10-05): UPDATE of an indexed column leaves the index stale
    if let (UPA | UPK, Some(t)) = (op, t) {
        let target = if op == UPA { t.def.columns.last() } else { t.def.columns.get(1) };
        if let Some(c) = target {
            if indexed(&c.name) {
                return Some("KF-C21-10 UPDATE of an indexed column");
            }
        }
    }
    // KF-C21-06 (= KF-C04-01): the row-id counter restarts at 1 on open: an INSERT into a table that
    // held rows at the last reopen collides with their row ids
    if op.is_insert() {
        if let Some(ro) = hist.iter().rposition(|o| o.is_reopen()) {
            let mut mm = Model::default();
            for &o in &hist[..ro] {
                if let Ok(b) = build(o, &mm) {
                    let mut m2 = mm.clone();
                    if m_apply(&mut m2, &b.act) == MStep::Ok {
                        mm = m2;
                    }
                }
            }
            let target = match op {
                IU => "u",
                IST => "s.t",
                _ => "t",
            };
            if mm.st.tables.get(target).map(|t| !t.rows.is_empty()).unwrap_or(false) {
                return Some("KF-C21-06 INSERT after reopen into a table that held rows");
            }
        }
    }
    None
}

struct Engine<'a> {
    ctx: &'a Ctx,
    plant: Plant,
    divergent: Vec<BTreeSet<Vec<Op>>>,
    verified: Vec<BTreeSet<Vec<Op>>>,
    stop: bool,
    dry: bool,
}

impl<'a> Engine<'a> {
    fn dfs(&mut self, p: &Pass, pi: usize, d: usize, hist: &mut Vec<Op>, m: &Model, rep: &mut Reporter) {
        let len = hist.len() - p.setup.len();
        for &op in &p.alphabet {
            if self.stop {
                return;
            }
            if !structurally_allowed(hist, op) {
                continue;
            }
            let leaf = len + 1 == d;
            if p.endings_last_only && matches!(op, RC | RK) && !leaf {
                continue;
            }
            if p.clean {
                if let Some(why) = avoid(hist, m, op) {
                    if leaf && self.ctx.mine(vcore::util::hash_of(&(p.name, &hist[..], op))) {
                        rep.count(&format!("avoided:{why}"), 1);
                    }
                    continue;
                }
            }
            let b = match build(op, m) {
                Ok(b) => b,
                Err(why) => {
                    if leaf && self.ctx.mine(vcore::util::hash_of(&(p.name, &hist[..], op))) {
                        rep.count(&format!("unspecified:{why}"), 1);
                    }
                    continue;
                }
            };
            let mut m2 = m.clone();
            let ms = m_apply(&mut m2, &b.act);
            if let MStep::Unspec(why) = ms {
                if leaf && self.ctx.mine(vcore::util::hash_of(&(p.name, &hist[..], op))) {
                    rep.count(&format!("unspecified:{why}"), 1);
                }
                continue;
            }
            hist.push(op);
            let key: Vec<Op> = hist[p.setup.len()..].to_vec();
            if leaf {
                // lengths <= SPLIT are owned one by one (executed with the oracle after every step, because the
                // owner of their prefix may be another worker); longer ones belong to the owner of their SPLIT-prefix
                if d > SPLIT || self.ctx.mine(vcore::util::hash_of(&(p.name, &key))) {
                    self.leaf(p, pi, hist, &key, d <= SPLIT, rep);
                }
                if self.ctx.expired() {
                    self.stop = true;
                }
            } else if ms == MStep::Ok && !self.divergent[pi].contains(&key) {
                if len + 1 == SPLIT {
                    if !self.ctx.mine(vcore::util::hash_of(&(p.name, &key))) {
                        hist.pop();
                        continue;
                    }
                    // first descent into an owned subtree: learn whether its root (or a prefix) diverges
                    if !self.dry && self.verified[pi].insert(key.clone()) {
                        let o = run_history(&self.ctx.scratch, hist, true, self.plant);
                        if let Some((at, _)) = o.viol {
                            let cut = (at + 1).saturating_sub(p.setup.len()).max(1).min(key.len());
                            self.divergent[pi].insert(key[..cut].to_vec());
                        }
                    }
                    if (1..=key.len()).any(|n| self.divergent[pi].contains(&key[..n])) {
                        hist.pop();
                        continue;
                    }
                }
                self.dfs(p, pi, d, hist, &m2, rep);
            }
            hist.pop();
        }
    }

    /// `short`: the history is not longer than SPLIT: its prefixes may belong to other workers, so the oracle
    /// runs after every step and a violation before the last step only marks the prefix as divergent
    fn leaf(&mut self, p: &Pass, pi: usize, hist: &[Op], key: &[Op], short: bool, rep: &mut Reporter) {
        let report = true;
        if self.dry {
            // model-only enumeration (sizing aid, `--opt dry=1`): no execution, no verdict
            if report {
                rep.case(vcore::util::hash_of(&(p.name, hist)), false);
                rep.count(&format!("dry:{}:len{}", p.name, key.len()), 1);
            }
            return;
        }
        let o = run_history(&self.ctx.scratch, hist, short, self.plant);
        let last = *hist.last().unwrap();
        if let Some((at, _)) = &o.viol {
            if at + 1 < hist.len() {
                // a proper prefix diverges: that history is reported by its own owner
                let cut = (at + 1).saturating_sub(p.setup.len()).max(1).min(key.len());
                self.divergent[pi].insert(key[..cut].to_vec());
                return;
            }
        }
        if report {
            let ddl = hist.iter().filter(|o| o.ddl_kind().is_some()).count();
            let other = hist.iter().any(|o| o.ddl_kind().is_none());
            rep.case(vcore::util::hash_of(&(p.name, hist)), ddl >= 2 && other);
            rep.add_transitions(1);
            rep.add_traces_validated(1);
            rep.count(&format!("op:{}", last.name()), 1);
            rep.count(&format!("pass:{}", p.name), 1);
            rep.count(&format!("model:{}", o.last.0), 1);
            rep.outcome(&format!("{}:{}>{}", last.ddl_kind().unwrap_or(last.dml_kind()), o.last.0, o.last.1));
            if let Some(e) = &o.last_err {
                rep.count(&format!("err:{}", err_class(e)), 1);
            }
            if last.is_reopen() {
                rep.count("reopens", 1);
                rep.count(&format!("session-end:{}", last.dml_kind()), 1);
                if let Some(k) = hist[..hist.len() - 1].last().and_then(|o| o.ddl_kind()) {
                    rep.count(&format!("ddl-last-then-{}:{}", last.dml_kind(), k), 1);
                }
            }
            if last.is_insert() && o.last.1 == "ok" {
                rep.count("rows_loaded", 1);
            }
            rep.count("probes", o.stats.probes);
            rep.count("plan:index-lookup", o.stats.index_plans);
            rep.count("plan:pk-lookup", o.stats.pk_plans);
            if hist.iter().any(|o| o.is_reopen()) && hist.iter().any(|o| matches!(o, AZ | AZD | AYD | AZN | DCA | DCB | DCC | DCZ | RN | RNX)) {
                rep.count("alter+reopen histories", 1);
            }
            rep.sample(|| case_json(p.name, hist));
        }
        match o.viol {
            None => {
                if report {
                    rep.add_states(1);
                }
            }
            Some((at, v)) => {
                self.divergent[pi].insert(key.to_vec());
                if report {
                    rep.pruned(1);
                    let hv = &hist[..=at];
                    let (min, mv) = shrink(&self.ctx.scratch, hv, &v, self.plant);
                    let sig = signature(&min, &mv);
                    rep.violation("C21", &mv.layer, &sig, || case_json(p.name, &min), &mv.expected, &mv.observed);
                }
            }
        }
    }
}

struct C21;
impl Check for C21 {
    fn specs(&self) -> Vec<Spec> {
        let mut s = Spec::new(
            "C21",
            "model_checking",
            "a case is one history = setup of the pass + a sequence of letters of the pass alphabet (CREATE TABLE t in two shapes / u, DROP TABLE, CREATE/DROP INDEX, TRUNCATE, ALTER TABLE ADD COLUMN z INT | z INT DEFAULT 5 | y TEXT DEFAULT 'd' | z INT DEFAULT -1, DROP COLUMN first/middle/last/added, RENAME COLUMN b TO e | c TO b, INSERT of keys 1,2 without and of key 3 with a column list, UPDATE all / by key, the three session endings @reopen (drop the handle) | @close-reopen (explicit close()) | @checkpoint-reopen (checkpoint(), drop) each followed by Database::open - the latter two in the quick tier only as the last letter, i.e. after every history of depth-1 and so after every DDL kind as the last statement of the session; schema pass: CREATE/DROP SCHEMA s [CASCADE], CREATE/DROP/TRUNCATE/INSERT s.t next to a root table t). EVERY sequence up to the pass depth is enumerated on the relational model (extended only through letters the model accepts and whose history was clean on the real database), shortest first over all passes, and executed on a fresh real Database; the oracle (statement Ok/Err, rows, column names, COUNT(*), pk and index lookups, name resolution of every column name, absent tables) is evaluated after the last letter. Distinct = distinct (pass, history); non-trivial = at least two DDL letters and at least one DML letter or reopen.",
        );
        s.assumptions = &[
            "reference semantics = refmodel::sql::rel (cross-checked against SQLite) + a set of schema names; DROP SCHEMA CASCADE removes the schema's tables",
            "dialect-dependent statements are not judged: DROP COLUMN of a key/indexed/only column, DROP SCHEMA (no CASCADE) of a non-empty schema, UPDATE of a key column",
            "a session ends in one of three ways before Database::open of the same directory: @reopen = drop the only handle (clean close through Drop), @close-reopen = Database::close() then drop, @checkpoint-reopen = Database::checkpoint() then drop; all three must leave the same durable state",
        ];
        s.cap_quick_s = 100;
        s.cap_thorough_s = 1500;
        vec![s]
    }

    fn run(&self, ctx: &Ctx, rep: &mut Reporter) {
        if ctx.opt("bench").is_some() {
            bench(ctx);
        }
        let ps = passes(ctx);
        for p in &ps {
            rep.bound(
                &format!("pass:{}", p.name),
                json!({"setup": replay_sql(&p.setup), "alphabet": p.alphabet.iter().map(|o| o.name()).collect::<Vec<_>>(), "depth": p.depth, "clean": p.clean}),
            );
        }
        rep.bound("tables", json!(TABLES));
        rep.bound("column-names probed", json!(COLNAMES));
        for c in ["session-end:reopen", "session-end:close-reopen", "session-end:checkpoint-reopen", "ddl-last-then-close-reopen:rename-col", "ddl-last-then-close-reopen:add-col", "ddl-last-then-close-reopen:create-index", "ddl-last-then-close-reopen:drop-col-last", "reopens", "rows_loaded", "plan:index-lookup", "plan:pk-lookup", "alter+reopen histories", "model:ok", "err:already-exists", "err:not-found"] {
            rep.expect_nonzero(c);
        }
        let mut eng = Engine { ctx, plant: Plant::from_ctx(ctx), divergent: vec![BTreeSet::new(); ps.len()], verified: vec![BTreeSet::new(); ps.len()], stop: false, dry: ctx.opt("dry").is_some() };
        // setups must be clean themselves
        let mut usable = vec![true; ps.len()];
        for (pi, p) in ps.iter().enumerate() {
            if p.setup.is_empty() {
                continue;
            }
            let o = run_history(&ctx.scratch, &p.setup, true, eng.plant);
            if let Some((at, v)) = o.viol {
                usable[pi] = false;
                if ctx.mine(pi as u64) {
                    let hv = &p.setup[..=at];
                    let (min, mv) = shrink(&ctx.scratch, hv, &v, eng.plant);
                    let sig = signature(&min, &mv);
                    rep.violation("C21", &mv.layer, &sig, || case_json(p.name, &min), &mv.expected, &mv.observed);
                    rep.note(&format!("pass {} skipped: its setup diverges", p.name));
                }
            }
        }
        let maxd = ps.iter().map(|p| p.depth).max().unwrap_or(0);
        let mut done: Vec<usize> = vec![0; ps.len()];
        'outer: for d in 1..=maxd {
            for (pi, p) in ps.iter().enumerate() {
                if d > p.depth || !usable[pi] {
                    continue;
                }
                let mut m = Model::default();
                for &op in &p.setup {
                    if let Ok(b) = build(op, &m) {
                        let _ = m_apply(&mut m, &b.act);
                    }
                }
                let mut hist = p.setup.clone();
                eng.dfs(p, pi, d, &mut hist, &m, rep);
                if eng.stop {
                    break 'outer;
                }
                done[pi] = d;
            }
        }
        if eng.stop {
            rep.capped("deadline reached during iterative deepening");
        }
        if ctx.worker == 0 {
            rep.note(&format!("worker 0: completed depth per pass {:?}", ps.iter().zip(&done).map(|(p, d)| format!("{}={}", p.name, d)).collect::<Vec<_>>()));
        }
        rep.bound("completed-depth(worker-min is authoritative only when exhaustive)", json!(ps.iter().zip(&done).map(|(p, d)| (p.name.to_string(), json!(d))).collect::<serde_json::Map<_, _>>()));
    }

    fn replay(&self, ctx: &Ctx, case: &Value, rep: &mut Reporter) {
        let ops: Vec<Op> = case["ops"].as_array().map(|a| a.iter().filter_map(|x| x.as_str().and_then(Op::parse)).collect()).unwrap_or_default();
        if ops.is_empty() {
            rep.note("replay: empty history");
            return;
        }
        let pass = case["pass"].as_str().unwrap_or("replay").to_string();
        let plant = Plant::from_ctx(ctx);
        rep.case(vcore::util::hash_of(&ops), true);
        rep.add_states(1);
        rep.add_transitions(ops.len() as u64);
        rep.add_traces_validated(1);
        let o = run_history(&ctx.scratch, &ops, true, plant);
        if let Some((at, v)) = o.viol {
            let hv = &ops[..=at];
            let sig = signature(hv, &v);
            rep.violation("C21", &v.layer, &sig, || case_json(&pass, hv), &v.expected, &v.observed);
        }
    }
}

fn bench(ctx: &Ctx) {
    let t0 = std::time::Instant::now();
    let n = 200;
    for _ in 0..n {
        let _ = run_history(&ctx.scratch, &[CT1, I1, I2, AZ], false, Plant::None);
    }
    eprintln!("history [CT1 I1 I2 AZ] + oracle: {} us", t0.elapsed().as_micros() / n);
    let t0 = std::time::Instant::now();
    for _ in 0..n {
        let _ = run_history(&ctx.scratch, &[CT1, I1, RO], false, Plant::None);
    }
    eprintln!("history [CT1 I1 RO] + oracle: {} us", t0.elapsed().as_micros() / n);
}

/// eyre captures a symbolized backtrace per error when RUST_BACKTRACE is set (milliseconds per Err,
/// and most probes of the `names` / `table-gone` layers are expected errors): decided once per
/// process by std, so fix it before the first error is created.
fn quiet_env() {
    std::env::set_var("RUST_BACKTRACE", "0");
    std::env::set_var("RUST_LIB_BACKTRACE", "0");
    unsafe {
        libc::mallopt(libc::M_TRIM_THRESHOLD, 1 << 30);
        libc::mallopt(libc::M_TOP_PAD, 64 << 20);
        libc::mallopt(libc::M_MMAP_THRESHOLD, 1 << 20);
    }
}

fn main() {
    quiet_env();
    vcore::main(&C21)
}
