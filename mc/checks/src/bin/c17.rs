//! C17 — joins return the SQL-defined rows under any memory budget (QRY engine, exploration).
//!
//! Bounded-exhaustive: every pair (triple) of small tables whose join keys are multisets over
//! {NULL,1,2,3} (duplicates allowed, payload unique per row) x every query of a join grammar
//! (INNER/LEFT/RIGHT/FULL/CROSS/comma, ON eq / reversed eq / `<` / `<=` / eq OR false / eq + extra
//! conjunct, WHERE on either side, 3-way chains, aliases in every spelling (AS a / no AS / upper and mixed
//! case / one side only — the key column has the same name in both tables), self join, `SELECT *`,
//! `SELECT DISTINCT` over select lists that do not tell rows with the same key apart (l.k,r.k | l.k,r.y |
//! l.x,r.k), the semi/anti joins behind IN / EXISTS / NOT EXISTS) x {plain, secondary index on the inner key, PRIMARY KEY on the
//! inner key, index on the outer key} x `PRAGMA join_memory_budget` in {default, 65536, 4096, 256, 1, 0}.
//! Oracle 1 (model): the bag returned by TurDB equals the bag of `refmodel::sql::Query::eval`.
//! Oracle 2 (budgets): the bag under every budget equals the bag under the default budget.
//! (Equality across indexed/unindexed variants follows from oracle 1 on each variant and is
//! additionally counted in `variant_diffs`.)
//!
//! Signature: C17/<join kind(s)>/<ON shape>[+where(side)][+form]/<plan shape from EXPLAIN>/<budget class>/<failure>.
//! The plan shape keeps the operator names, the join type the planner chose and the position of
//! Filter / index-scan nodes (`GraceHashJoin:Left(TableScan,Filter(TableScan))`): it is what decides
//! which hand-written execution path of `Database::query` runs.  Budget class: a failure that already
//! occurs under the default budget is blamed on `default`; the same failure under another budget is
//! only counted, a different one (or a difference to the default answer) is reported under tiny/small.
//!
//! Blame / stop at divergence: queries are ordered simplest first; when a base query
//! (same kind and ON, no WHERE / no extra conjunct / explicit column list; for a chain its first
//! join) already violates on given tables, its derived queries on these tables are pruned (counted),
//! so every signature names the smallest failing construct.
//!
//! Pass `pad`: 300-row tables with a 400-byte TEXT payload per row, equi-join shapes, every budget; a
//! directory watch (inotify) on TMPDIR, the scratch root and the database directory counts the files
//! created while the join runs (= spill activity through SQL).  Pass `op`: the join operators of
//! src/sql/executor.rs (which the SQL front end does not reach at this commit) are driven directly
//! through the public `ExecutorBuilder` API: NestedLoopJoinState, StreamingHashJoinState and
//! GraceHashJoinState, the latter with a real spill directory and budgets down to 0 (spill files are
//! counted after `open()`), on the same small tables and on the 300-row padded tables.
use checks::sqlh::*;
use refmodel::sql::expr::{self as ex, Expr};
use refmodel::sql::query::{From, JoinKind, Query, SelectItem, Table};
use refmodel::sql::{Database as MDb, Ty};
use refmodel::val::{bag, show_rows, Row, V};
use std::collections::BTreeSet;
use std::path::{Path, PathBuf};
use vcore::{json, Check, Ctx, Reporter, Spec, Value};

const PROP: &str = "C17";

// ---------------------------------------------------------------------------
// grammar
// ---------------------------------------------------------------------------
#[derive(Clone, Copy, PartialEq, Eq, PartialOrd, Ord, Debug, Hash)]
enum Kind {
    Inner,
    Left,
    Right,
    Full,
    Cross,
    Comma,
    /// `SELECT l.* FROM l WHERE EXISTS (SELECT r.k FROM r WHERE r.k = l.k)` (planned as HashSemiJoin)
    Semi,
    /// `… WHERE l.k IN (SELECT r.k FROM r)` (HashSemiJoin)
    SemiIn,
    /// `… WHERE NOT EXISTS (SELECT r.k FROM r WHERE r.k = l.k)` (HashAntiJoin); NOT IN belongs to C18
    Anti,
}
const KINDS_ON: [Kind; 4] = [Kind::Inner, Kind::Left, Kind::Right, Kind::Full];
const KINDS5: [Kind; 5] = [Kind::Inner, Kind::Left, Kind::Right, Kind::Full, Kind::Cross];
impl Kind {
    fn name(self) -> &'static str {
        match self {
            Kind::Inner => "INNER",
            Kind::Left => "LEFT",
            Kind::Right => "RIGHT",
            Kind::Full => "FULL",
            Kind::Cross => "CROSS",
            Kind::Comma => "COMMA",
            Kind::Semi => "SEMI(exists)",
            Kind::SemiIn => "SEMI(in)",
            Kind::Anti => "ANTI(not-exists)",
        }
    }
    fn parse(s: &str) -> Option<Kind> {
        [Kind::Inner, Kind::Left, Kind::Right, Kind::Full, Kind::Cross, Kind::Comma, Kind::Semi, Kind::SemiIn, Kind::Anti].into_iter().find(|k| k.name() == s)
    }
    fn jk(self) -> JoinKind {
        match self {
            Kind::Inner => JoinKind::Inner,
            Kind::Left => JoinKind::Left,
            Kind::Right => JoinKind::Right,
            Kind::Full => JoinKind::Full,
            Kind::Cross | Kind::Comma | Kind::Semi | Kind::SemiIn | Kind::Anti => JoinKind::Cross,
        }
    }
    fn has_on(self) -> bool {
        !matches!(self, Kind::Cross | Kind::Comma | Kind::Semi | Kind::SemiIn | Kind::Anti)
    }
    fn is_semi(self) -> bool {
        matches!(self, Kind::Semi | Kind::SemiIn | Kind::Anti)
    }
}

/// ON shape of the first join (l ⋈ r)
#[derive(Clone, Copy, PartialEq, Eq, PartialOrd, Ord, Debug, Hash)]
enum On {
    None,
    Eq,
    EqRev,
    Lt,
    EqConjR,
    EqConjL,
    /// `l.k <= r.k`
    Le,
    /// `(l.k = r.k) OR (l.x > 100)` (second disjunct never true: an equi-join that cannot be planned as a hash join)
    EqOr,
}
const ONS: [On; 7] = [On::Eq, On::EqRev, On::Lt, On::Le, On::EqOr, On::EqConjR, On::EqConjL];
impl On {
    fn name(self) -> &'static str {
        match self {
            On::None => "none",
            On::Eq => "eq",
            On::EqRev => "eq-rev",
            On::Lt => "lt",
            On::EqConjR => "eq+conj(r)",
            On::EqConjL => "eq+conj(l)",
            On::Le => "le",
            On::EqOr => "eq-or-false",
        }
    }
    /// name used in signatures: the operand order of the equality and the side of the extra conjunct
    /// are details of the case, not of the construct
    fn sig(self) -> &'static str {
        match self {
            On::None => "none",
            On::Eq | On::EqRev => "eq",
            On::Lt => "lt",
            On::EqConjR | On::EqConjL => "eq+conj",
            On::Le => "le",
            On::EqOr => "eq-or-false",
        }
    }
    fn parse(s: &str) -> Option<On> {
        [On::None, On::Eq, On::EqRev, On::Lt, On::EqConjR, On::EqConjL, On::Le, On::EqOr].into_iter().find(|k| k.name() == s)
    }
}
/// ON shape of the second join ((l ⋈ r) ⋈ m)
#[derive(Clone, Copy, PartialEq, Eq, PartialOrd, Ord, Debug, Hash)]
enum On2 {
    None,
    RM,
    LM,
}
impl On2 {
    fn name(self) -> &'static str {
        match self {
            On2::None => "none",
            On2::RM => "eq(r,m)",
            On2::LM => "eq(l,m)",
        }
    }
    fn parse(s: &str) -> Option<On2> {
        [On2::None, On2::RM, On2::LM].into_iter().find(|k| k.name() == s)
    }
}
#[derive(Clone, Copy, PartialEq, Eq, PartialOrd, Ord, Debug, Hash)]
enum Wh {
    None,
    True,
    L,
    R,
    LNull,
    RNull,
    LKey,
    RKey,
    JoinEq,
    JoinEqR,
    M,
    MNull,
}
const WHS2: [Wh; 8] = [Wh::None, Wh::True, Wh::L, Wh::R, Wh::LNull, Wh::RNull, Wh::LKey, Wh::RKey];
impl Wh {
    fn name(self) -> &'static str {
        match self {
            Wh::None => "",
            Wh::True => "where(true)",
            Wh::L => "where(l)",
            Wh::R => "where(r)",
            Wh::LNull => "where(l-null)",
            Wh::RNull => "where(r-null)",
            Wh::LKey => "where(l-key)",
            Wh::RKey => "where(r-key)",
            Wh::JoinEq => "where(join-eq)",
            Wh::JoinEqR => "where(join-eq+r)",
            Wh::M => "where(m)",
            Wh::MNull => "where(m-null)",
        }
    }
    /// name used in signatures: which side the WHERE clause restricts
    fn sig(self) -> &'static str {
        match self {
            Wh::None => "",
            Wh::True => "where(true)",
            Wh::L | Wh::LNull | Wh::LKey => "where(l)",
            Wh::R | Wh::RNull | Wh::RKey => "where(r)",
            Wh::JoinEq | Wh::JoinEqR => "where(join)",
            Wh::M | Wh::MNull => "where(m)",
        }
    }
    fn parse(s: &str) -> Option<Wh> {
        [Wh::None, Wh::True, Wh::L, Wh::R, Wh::LNull, Wh::RNull, Wh::LKey, Wh::RKey, Wh::JoinEq, Wh::JoinEqR, Wh::M, Wh::MNull].into_iter().find(|k| k.name() == s)
    }
}
#[derive(Clone, Copy, PartialEq, Eq, PartialOrd, Ord, Debug, Hash)]
enum Form {
    Cols,
    Alias,
    SelfAlias,
    Star,
    StarAlias,
    /// alias spellings (same join, same columns; the key column `k` exists in both tables):
    /// `l AS A JOIN r AS B ON A.k = B.k`
    AliasUpper,
    /// `l u JOIN r Vv ON u.k = Vv.k` (no AS, mixed case)
    AliasMixedNoAs,
    /// `l a JOIN r b ON a.k = b.k` (no AS, lower case)
    AliasNoAs,
    /// `l JOIN r AS B ON l.k = B.k` (only the right table aliased, upper case)
    AliasRightUpper,
    /// `l AS A JOIN r ON A.k = r.k` (only the left table aliased, upper case)
    AliasLeftUpper,
    /// partial select lists (bases of the DISTINCT forms): `SELECT l.k, r.k` | `l.k, r.y` | `l.x, r.k`
    ProjKeys,
    ProjLkRy,
    ProjLxRk,
    /// `SELECT DISTINCT l.k, r.k` (keys only: duplicate keys give duplicate joined rows)
    DistinctKeys,
    /// `SELECT DISTINCT l.k, r.y` (left rows with the same key are not told apart)
    DistinctLkRy,
    /// `SELECT DISTINCT l.x, r.k` (right rows with the same key are not told apart)
    DistinctLxRk,
}
const FORMS_ALL: [Form; 16] = [Form::ProjKeys, Form::ProjLkRy, Form::ProjLxRk, Form::Cols, Form::Alias, Form::SelfAlias, Form::Star, Form::StarAlias, Form::AliasUpper, Form::AliasMixedNoAs, Form::AliasNoAs, Form::AliasRightUpper, Form::AliasLeftUpper, Form::DistinctKeys, Form::DistinctLkRy, Form::DistinctLxRk];
const FORMS_SPELLING: [Form; 5] = [Form::AliasUpper, Form::AliasMixedNoAs, Form::AliasNoAs, Form::AliasRightUpper, Form::AliasLeftUpper];
const FORMS_DISTINCT: [Form; 3] = [Form::DistinctKeys, Form::DistinctLkRy, Form::DistinctLxRk];
const FORMS_PROJ: [Form; 3] = [Form::ProjKeys, Form::ProjLkRy, Form::ProjLxRk];
impl Form {
    fn name(self) -> &'static str {
        match self {
            Form::Cols => "",
            Form::Alias => "alias",
            Form::SelfAlias => "self-alias",
            Form::Star => "star",
            Form::StarAlias => "star-alias",
            Form::AliasUpper => "alias-upper",
            Form::AliasMixedNoAs => "alias-mixed-noas",
            Form::AliasNoAs => "alias-noas",
            Form::AliasRightUpper => "alias-right-upper",
            Form::AliasLeftUpper => "alias-left-upper",
            Form::ProjKeys => "proj(lk,rk)",
            Form::ProjLkRy => "proj(lk,ry)",
            Form::ProjLxRk => "proj(lx,rk)",
            Form::DistinctKeys => "distinct(lk,rk)",
            Form::DistinctLkRy => "distinct(lk,ry)",
            Form::DistinctLxRk => "distinct(lx,rk)",
        }
    }
    /// the same select list without DISTINCT
    fn undistinct(self) -> Form {
        match self {
            Form::DistinctKeys => Form::ProjKeys,
            Form::DistinctLkRy => Form::ProjLkRy,
            Form::DistinctLxRk => Form::ProjLxRk,
            o => o,
        }
    }
    /// name used in signatures: the alias spellings with an upper-case letter are one construct
    fn sig(self) -> &'static str {
        match self {
            Form::AliasUpper | Form::AliasMixedNoAs | Form::AliasRightUpper | Form::AliasLeftUpper => "alias-case",
            o => o.name(),
        }
    }
    fn is_distinct(self) -> bool {
        FORMS_DISTINCT.contains(&self)
    }
    fn is_proj(self) -> bool {
        FORMS_PROJ.contains(&self)
    }
    fn is_spelling(self) -> bool {
        FORMS_SPELLING.contains(&self)
    }
    /// (left qualifier, left alias, right qualifier, right alias)
    fn aliases(self) -> (&'static str, Option<&'static str>, &'static str, Option<&'static str>) {
        match self {
            Form::Alias | Form::StarAlias | Form::SelfAlias | Form::AliasNoAs => ("a", Some("a"), "b", Some("b")),
            Form::AliasUpper => ("A", Some("A"), "B", Some("B")),
            Form::AliasMixedNoAs => ("u", Some("u"), "Vv", Some("Vv")),
            Form::AliasRightUpper => ("l", None, "B", Some("B")),
            Form::AliasLeftUpper => ("A", Some("A"), "r", None),
            _ => ("l", None, "r", None),
        }
    }
    fn parse(s: &str) -> Option<Form> {
        FORMS_ALL.into_iter().find(|k| k.name() == s)
    }
}

#[derive(Clone, PartialEq, Eq, PartialOrd, Ord, Debug, Hash)]
struct QSpec {
    /// one kind = 2-way join l ⋈ r; two kinds = chain (l ⋈ r) ⋈ m
    kinds: Vec<Kind>,
    on: On,
    on2: On2,
    wh: Wh,
    form: Form,
}
impl QSpec {
    fn two(kind: Kind, on: On, wh: Wh, form: Form) -> QSpec {
        QSpec { kinds: vec![kind], on, on2: On2::None, wh, form }
    }
    fn kind_name(&self) -> String {
        self.kinds.iter().map(|k| k.name()).collect::<Vec<_>>().join("-")
    }
    /// third signature component: ON shape(s) + WHERE shape + form
    fn shape_name(&self) -> String {
        let mut s = self.on.sig().to_string();
        if self.kinds.len() == 2 {
            s.push('&');
            s.push_str(self.on2.name());
        }
        for extra in [self.wh.sig(), self.form.sig()] {
            if !extra.is_empty() {
                s.push('+');
                s.push_str(extra);
            }
        }
        s
    }
    /// the simpler query whose failure (on the same tables) makes this one uninformative
    fn base(&self) -> Option<QSpec> {
        let mut b = self.clone();
        if self.form != Form::Cols {
            // aliases / star build on the explicit-column form of the same join
            b.form = Form::Cols;
            if self.form == Form::SelfAlias {
                return None; // different tables: no base
            }
            if self.form.is_distinct() {
                // DISTINCT builds on the same select list without it
                b.form = self.form.undistinct();
            }
            return Some(b);
        }
        if self.wh != Wh::None {
            b.wh = Wh::None;
            return Some(b);
        }
        if matches!(self.on, On::EqConjR | On::EqConjL) {
            b.on = On::Eq;
            return Some(b);
        }
        if self.kinds.len() == 2 {
            // the chain builds on its first join
            return Some(QSpec { kinds: vec![self.kinds[0]], on: self.on, on2: On2::None, wh: Wh::None, form: Form::Cols });
        }
        None
    }
    fn to_json(&self) -> Value {
        json!({"kinds": self.kinds.iter().map(|k| k.name()).collect::<Vec<_>>(), "on": self.on.name(), "on2": self.on2.name(), "wh": self.wh.name(), "form": self.form.name()})
    }
    fn from_json(v: &Value) -> Option<QSpec> {
        Some(QSpec {
            kinds: v.get("kinds")?.as_array()?.iter().map(|k| Kind::parse(k.as_str()?)).collect::<Option<Vec<_>>>()?,
            on: On::parse(v.get("on")?.as_str()?)?,
            on2: On2::parse(v.get("on2")?.as_str()?)?,
            wh: Wh::parse(v.get("wh")?.as_str()?)?,
            form: Form::parse(v.get("form")?.as_str()?)?,
        })
    }
}

/// payload bases: l.x = XB + i, r.y = YB + i, m.z = ZB + i (i = insertion position)
const XB: i64 = 10;
const YB: i64 = 20;
const ZB: i64 = 30;

/// Build the model query and the SQL text sent to TurDB.  `pad_cols`: also select the TEXT payload.
fn build_query(s: &QSpec, pad_cols: bool, xb: i64, yb: i64) -> (Query, String) {
    if s.kinds[0].is_semi() {
        let sub_items = vec![SelectItem::expr(ex::qcol("r", "k"))];
        let pred = match s.kinds[0] {
            Kind::SemiIn => ex::in_sub(ex::qcol("l", "k"), Query::select(sub_items, From::table("r"))),
            Kind::Semi => ex::exists(Query::select(sub_items, From::table("r")).where_(ex::eq(ex::qcol("r", "k"), ex::qcol("l", "k")))),
            _ => ex::not_exists(Query::select(sub_items, From::table("r")).where_(ex::eq(ex::qcol("r", "k"), ex::qcol("l", "k")))),
        };
        let q = Query::select(vec![SelectItem::expr(ex::qcol("l", "k")), SelectItem::expr(ex::qcol("l", "x"))], From::table("l")).where_(pred);
        let sql = q.to_sql();
        return (q, sql);
    }
    let (lq, la, rq, ra) = s.form.aliases();
    let (rt, ry) = if s.form == Form::SelfAlias { ("l", "x") } else { ("r", "y") };
    let lf = match la {
        Some(a) => From::table_as("l", a),
        None => From::table("l"),
    };
    let rf = match ra {
        Some(a) => From::table_as(rt, a),
        None => From::table(rt),
    };
    let lk = || ex::qcol(lq, "k");
    let rk = || ex::qcol(rq, "k");
    let lx = || ex::qcol(lq, "x");
    let rv = || ex::qcol(rq, ry);
    let rbase = if s.form == Form::SelfAlias { xb } else { yb };
    let k0 = s.kinds[0];
    let on = match (k0.has_on(), s.on) {
        (false, _) | (_, On::None) => None,
        (_, On::Eq) => Some(ex::eq(lk(), rk())),
        (_, On::EqRev) => Some(ex::eq(rk(), lk())),
        (_, On::Lt) => Some(ex::lt(lk(), rk())),
        (_, On::EqConjR) => Some(ex::and(ex::eq(lk(), rk()), ex::gt(rv(), ex::int(rbase)))),
        (_, On::EqConjL) => Some(ex::and(ex::eq(lk(), rk()), ex::gt(lx(), ex::int(xb)))),
        (_, On::Le) => Some(ex::le(lk(), rk())),
        (_, On::EqOr) => Some(ex::or(ex::eq(lk(), rk()), ex::gt(lx(), ex::int(xb + 1_000_000)))),
    };
    let mut from = lf.join(k0.jk(), rf, on);
    if s.kinds.len() == 2 {
        let k1 = s.kinds[1];
        let on2 = match (k1.has_on(), s.on2) {
            (false, _) | (_, On2::None) => None,
            (_, On2::RM) => Some(ex::eq(rk(), ex::qcol("m", "k"))),
            (_, On2::LM) => Some(ex::eq(lk(), ex::qcol("m", "k"))),
        };
        from = from.join(k1.jk(), From::table("m"), on2);
    }
    let items: Vec<SelectItem> = match s.form {
        Form::Star | Form::StarAlias => vec![SelectItem::Star(None)],
        Form::DistinctKeys | Form::ProjKeys => vec![SelectItem::expr(lk()), SelectItem::expr(rk())],
        Form::DistinctLkRy | Form::ProjLkRy => vec![SelectItem::expr(lk()), SelectItem::expr(rv())],
        Form::DistinctLxRk | Form::ProjLxRk => vec![SelectItem::expr(lx()), SelectItem::expr(rk())],
        _ => {
            let mut v = vec![lk(), lx()];
            if pad_cols {
                v.push(ex::qcol(lq, "p"));
            }
            v.push(rk());
            v.push(rv());
            if pad_cols {
                v.push(ex::qcol(rq, "p"));
            }
            if s.kinds.len() == 2 {
                v.push(ex::qcol("m", "k"));
                v.push(ex::qcol("m", "z"));
            }
            v.into_iter().map(SelectItem::expr).collect()
        }
    };
    let mut q = Query::select(items, from);
    if s.form.is_distinct() {
        q = q.distinct();
    }
    let w = match s.wh {
        Wh::None => None,
        Wh::True => Some(ex::eq(ex::int(1), ex::int(1))),
        Wh::L => Some(ex::gt(lx(), ex::int(xb))),
        Wh::R => Some(ex::gt(rv(), ex::int(rbase))),
        Wh::LNull => Some(ex::is_null(lk())),
        Wh::RNull => Some(ex::is_null(rk())),
        Wh::LKey => Some(ex::eq(lk(), ex::int(1))),
        Wh::RKey => Some(ex::eq(rk(), ex::int(1))),
        Wh::JoinEq => Some(ex::eq(lk(), rk())),
        Wh::JoinEqR => Some(ex::and(ex::eq(lk(), rk()), ex::gt(rv(), ex::int(rbase)))),
        Wh::M => Some(ex::gt(ex::qcol("m", "z"), ex::int(ZB))),
        Wh::MNull => Some(ex::is_null(ex::qcol("m", "k"))),
    };
    if let Some(w) = w {
        q = q.where_(w);
    }
    let mut sql = q.to_sql();
    if s.kinds.iter().any(|k| *k == Kind::Comma) {
        sql = sql.replace(" CROSS JOIN ", ", ");
    }
    if matches!(s.form, Form::AliasMixedNoAs | Form::AliasNoAs) {
        // `l u JOIN r Vv`: the alias follows the table name directly (the only AS of these queries)
        sql = sql.replace(" AS ", " ");
    }
    (q, sql)
}

/// 2-way specs, simplest first (bases before the queries derived from them)
fn specs_two(thorough: bool) -> Vec<QSpec> {
    // quick: 6 ON shapes without WHERE, {eq, lt, eq+conj(r)} x 6 WHERE shapes; thorough: 7 ON shapes x 8 WHERE shapes
    let ons: Vec<On> = ONS.iter().copied().filter(|o| thorough || *o != On::EqRev).collect();
    let ons_where: Vec<On> = ons.iter().copied().filter(|o| thorough || matches!(o, On::Eq | On::Lt | On::EqConjR)).collect();
    let whs: Vec<Wh> = WHS2.iter().copied().filter(|w| thorough || !matches!(w, Wh::LKey | Wh::RKey)).collect();
    let mut v = vec![];
    // explicit columns, no WHERE
    for k in KINDS_ON {
        for on in ons.iter().copied() {
            v.push(QSpec::two(k, on, Wh::None, Form::Cols));
        }
    }
    for k in [Kind::Cross, Kind::Comma, Kind::Semi, Kind::SemiIn, Kind::Anti] {
        v.push(QSpec::two(k, On::None, Wh::None, Form::Cols));
    }
    // WHERE on either side
    for k in KINDS_ON {
        for on in ons_where.iter().copied() {
            for wh in &whs[1..] {
                v.push(QSpec::two(k, on, *wh, Form::Cols));
            }
        }
    }
    for k in [Kind::Cross, Kind::Comma] {
        for wh in whs[1..].iter().chain([Wh::JoinEq, Wh::JoinEqR].iter()) {
            v.push(QSpec::two(k, On::None, *wh, Form::Cols));
        }
    }
    if !thorough {
        // quick: the key-equality WHEREs (index scans under a join when the column is indexed) with the plain equi-join only
        for wh in [Wh::LKey, Wh::RKey] {
            for k in KINDS_ON {
                v.push(QSpec::two(k, On::Eq, wh, Form::Cols));
            }
            v.push(QSpec::two(Kind::Comma, On::None, wh, Form::Cols));
        }
    }
    // aliases, self join, SELECT *
    for form in [Form::Alias, Form::SelfAlias, Form::Star, Form::StarAlias] {
        for k in KINDS_ON {
            v.push(QSpec::two(k, On::Eq, Wh::None, form));
        }
        v.push(QSpec::two(Kind::Cross, On::None, Wh::None, form));
    }
    // alias spellings (upper / mixed case, with and without AS, one side only) of the equi-join
    for form in FORMS_SPELLING {
        for k in KINDS_ON {
            v.push(QSpec::two(k, On::Eq, Wh::None, form));
        }
        v.push(QSpec::two(Kind::Cross, On::None, Wh::None, form));
    }
    // partial select lists, then SELECT DISTINCT over them (they do not tell rows with the same key apart)
    for form in FORMS_PROJ.into_iter().chain(FORMS_DISTINCT) {
        for k in KINDS_ON {
            v.push(QSpec::two(k, On::Eq, Wh::None, form));
            if matches!(form, Form::DistinctKeys | Form::ProjKeys) {
                v.push(QSpec::two(k, On::Lt, Wh::None, form));
            }
        }
        v.push(QSpec::two(Kind::Cross, On::None, Wh::None, form));
    }
    v
}

/// 3-way chain specs (all kind pairs), preceded by the 2-way bases they build on
fn specs_chain() -> Vec<QSpec> {
    let mut v = vec![];
    for k in KINDS_ON {
        v.push(QSpec::two(k, On::Eq, Wh::None, Form::Cols));
    }
    v.push(QSpec::two(Kind::Cross, On::None, Wh::None, Form::Cols));
    v.push(QSpec::two(Kind::Comma, On::None, Wh::None, Form::Cols));
    for wh in [Wh::None, Wh::M, Wh::MNull] {
        for k0 in KINDS5 {
            for k1 in KINDS5 {
                let on = if k0.has_on() { On::Eq } else { On::None };
                let on2s: &[On2] = if !k1.has_on() {
                    &[On2::None]
                } else {
                    &[On2::RM, On2::LM]
                };
                for on2 in on2s {
                    v.push(QSpec { kinds: vec![k0, k1], on, on2: *on2, wh, form: Form::Cols });
                }
            }
        }
        v.push(QSpec { kinds: vec![Kind::Comma, Kind::Comma], on: On::None, on2: On2::None, wh, form: Form::Cols });
    }
    v
}

// ---------------------------------------------------------------------------
// tables
// ---------------------------------------------------------------------------
type Keys = Vec<Option<i64>>;

/// all multisets (as sorted lists, NULL first) of size `n` over `dom`
fn multisets(dom: &[Option<i64>], n: usize) -> Vec<Keys> {
    fn go(dom: &[Option<i64>], n: usize, start: usize, cur: &mut Keys, out: &mut Vec<Keys>) {
        if cur.len() == n {
            out.push(cur.clone());
            return;
        }
        for i in start..dom.len() {
            cur.push(dom[i]);
            go(dom, n, i, cur, out);
            cur.pop();
        }
    }
    let mut out = vec![];
    go(dom, n, 0, &mut vec![], &mut out);
    out
}
fn multisets_upto(dom: &[Option<i64>], n: usize) -> Vec<Keys> {
    (0..=n).flat_map(|k| multisets(dom, k)).collect()
}
const DOM4: [Option<i64>; 4] = [None, Some(1), Some(2), Some(3)];
const DOM3: [Option<i64>; 3] = [None, Some(1), Some(2)];

#[derive(Clone, Debug)]
struct Tabs {
    l: Keys,
    r: Keys,
    m: Option<Keys>,
    /// > 0: tables carry a TEXT column `p` of this many bytes per row
    pad: usize,
    xb: i64,
    yb: i64,
}
impl Tabs {
    fn small(l: &Keys, r: &Keys, m: Option<&Keys>) -> Tabs {
        Tabs { l: l.clone(), r: r.clone(), m: m.cloned(), pad: 0, xb: XB, yb: YB }
    }
    fn pad_text(&self, t: char, i: usize) -> String {
        let mut s = format!("{t}{i:05}");
        while s.len() < self.pad {
            s.push((b'a' + ((i + s.len()) % 26) as u8) as char);
        }
        s
    }
    fn rows(&self, which: char) -> Vec<Row> {
        let (keys, base) = match which {
            'l' => (&self.l, self.xb),
            'r' => (&self.r, self.yb),
            _ => (self.m.as_ref().expect("m"), ZB),
        };
        keys.iter()
            .enumerate()
            .map(|(i, k)| {
                let mut r = vec![k.map(V::Int).unwrap_or(V::Null), V::Int(base + i as i64)];
                if self.pad > 0 {
                    r.push(V::Text(self.pad_text(which, i)));
                }
                r
            })
            .collect()
    }
    fn model(&self) -> MDb {
        let cols = |p: &'static str| -> Vec<(&'static str, Ty)> {
            let mut c = vec![("k", Ty::Int), (p, Ty::Int)];
            if self.pad > 0 {
                c.push(("p", Ty::Text));
            }
            c
        };
        let mut db = MDb::new().with("l", Table::new(&cols("x"), self.rows('l'))).with("r", Table::new(&cols("y"), self.rows('r')));
        if self.m.is_some() {
            db = db.with("m", Table::new(&cols("z"), self.rows('m')));
        }
        db
    }
    fn to_json(&self) -> Value {
        let f = |k: &Keys| Value::Array(k.iter().map(|x| x.map(|i| json!(i)).unwrap_or(Value::Null)).collect());
        json!({"l": f(&self.l), "r": f(&self.r), "m": self.m.as_ref().map(f), "pad": self.pad, "xb": self.xb, "yb": self.yb})
    }
    fn from_json(v: &Value) -> Option<Tabs> {
        let f = |x: &Value| -> Option<Keys> { Some(x.as_array()?.iter().map(|k| k.as_i64()).collect()) };
        Some(Tabs {
            l: f(v.get("l")?)?,
            r: f(v.get("r")?)?,
            m: match v.get("m") {
                Some(Value::Null) | None => None,
                Some(x) => Some(f(x)?),
            },
            pad: v.get("pad")?.as_u64()? as usize,
            xb: v.get("xb")?.as_i64()?,
            yb: v.get("yb")?.as_i64()?,
        })
    }
}

#[derive(Clone, Copy, PartialEq, Eq, Debug, PartialOrd, Ord)]
enum Variant {
    Plain,
    Idx,
    Pk,
    IdxL,
}
impl Variant {
    fn name(self) -> &'static str {
        match self {
            Variant::Plain => "plain",
            Variant::Idx => "idx",
            Variant::Pk => "pk",
            Variant::IdxL => "idxl",
        }
    }
    fn parse(s: &str) -> Option<Variant> {
        [Variant::Plain, Variant::Idx, Variant::Pk, Variant::IdxL].into_iter().find(|k| k.name() == s)
    }
    fn legal(self, t: &Tabs) -> bool {
        let distinct_nonnull = |k: &Keys| k.iter().all(|x| x.is_some()) && k.iter().collect::<BTreeSet<_>>().len() == k.len();
        match self {
            Variant::Pk => distinct_nonnull(&t.r) && t.m.as_ref().map_or(true, distinct_nonnull),
            _ => true,
        }
    }
}

/// Create the database of one case.  Err = the setup itself failed (reported by the caller).
fn setup(dir: &Path, name: &str, t: &Tabs, v: Variant) -> Result<TestDb, String> {
    let db = TestDb::create(dir, name)?;
    let p = if t.pad > 0 { ", p TEXT" } else { "" };
    let rk = if v == Variant::Pk { "k INT PRIMARY KEY" } else { "k INT" };
    let mut ddl = vec![format!("CREATE TABLE l(k INT, x INT{p})"), format!("CREATE TABLE r({rk}, y INT{p})")];
    if t.m.is_some() {
        ddl.push(format!("CREATE TABLE m({rk}, z INT{p})"));
    }
    match v {
        Variant::Idx => {
            ddl.push("CREATE INDEX ir ON r(k)".into());
            if t.m.is_some() {
                ddl.push("CREATE INDEX im ON m(k)".into());
            }
        }
        Variant::IdxL => ddl.push("CREATE INDEX il ON l(k)".into()),
        _ => {}
    }
    for s in &ddl {
        let r = db.exec(s);
        if !r.ok() {
            return Err(format!("{s}: {}", r.show()));
        }
    }
    for (name, which) in [("l", 'l'), ("r", 'r'), ("m", 'm')] {
        if which == 'm' && t.m.is_none() {
            continue;
        }
        let rows = t.rows(which);
        for chunk in rows.chunks(50) {
            let vals: Vec<String> = chunk.iter().map(|r| format!("({})", r.iter().map(lit).collect::<Vec<_>>().join(", "))).collect();
            let s = format!("INSERT INTO {name} VALUES {}", vals.join(", "));
            match db.exec(&s) {
                Res::Affected(n, _) if n == chunk.len() => {}
                o => return Err(format!("{}: {}", vcore::util::clip(&s, 200), o.show())),
            }
        }
    }
    Ok(db)
}

// ---------------------------------------------------------------------------
// oracle
// ---------------------------------------------------------------------------
const JOIN_OPS: [&str; 9] = ["IndexNestedLoopJoin", "StreamingHashJoin", "GraceHashJoin", "NestedLoopJoin", "HashSemiJoin", "HashAntiJoin", "SortMergeJoin", "HashJoin", "MergeJoin"];

/// join operators of an EXPLAIN text in order of appearance, e.g. "GraceHashJoin>StreamingHashJoin"
fn operators(plan: &Option<String>) -> String {
    let Some(p) = plan else { return "explain-error".into() };
    let mut found: Vec<(usize, &str)> = vec![];
    for line in p.lines() {
        let l = line.trim_start().trim_start_matches("-> ");
        let word: String = l.chars().take_while(|c| c.is_ascii_alphanumeric()).collect();
        if let Some(op) = JOIN_OPS.iter().find(|o| **o == word) {
            found.push((found.len(), op));
        }
    }
    if found.is_empty() {
        "no-join-operator".into()
    } else {
        found.iter().map(|f| f.1).collect::<Vec<_>>().join(">")
    }
}

/// Compact shape of an EXPLAIN text: node names nested by indentation, join type kept, table / index
/// names and parameters dropped, the root Project dropped.  E.g.
/// `GraceHashJoin:Left(TableScan,Filter(TableScan))`, `Filter(IndexNestedLoopJoin:Inner(TableScan,IndexLookup))`.
fn plan_shape(plan: &Option<String>) -> String {
    let Some(p) = plan else { return "explain-error".into() };
    // (indent, label)
    let mut nodes: Vec<(usize, String)> = vec![];
    for line in p.lines() {
        let indent = line.len() - line.trim_start().len();
        let l = line.trim_start();
        let l = if let Some(rest) = l.strip_prefix("-> ") {
            rest
        } else if l.starts_with("Inner: Index lookup") {
            "IndexLookup"
        } else {
            continue; // "Build:", "Probe (streaming):", "Outer:" labels
        };
        let name: String = l.chars().take_while(|c| c.is_ascii_alphanumeric()).collect();
        if name.is_empty() {
            continue;
        }
        let mut label = name.clone();
        if name.ends_with("Join") {
            if let Some(o) = l.find('(') {
                if let Some(c) = l[o..].find(')') {
                    label = format!("{name}:{}", &l[o + 1..o + c]);
                }
            }
        }
        nodes.push((indent, label));
    }
    if nodes.is_empty() {
        return "empty-plan".into();
    }
    fn render(nodes: &[(usize, String)], i: &mut usize) -> String {
        let (ind, label) = nodes[*i].clone();
        *i += 1;
        let mut kids = vec![];
        while *i < nodes.len() && nodes[*i].0 > ind {
            kids.push(render(nodes, i));
        }
        if kids.is_empty() {
            label
        } else {
            format!("{label}({})", kids.join(","))
        }
    }
    let mut i = 0;
    let mut tops = vec![];
    while i < nodes.len() {
        tops.push(render(&nodes, &mut i));
    }
    let s = tops.join(";");
    match s.strip_prefix("Project(").and_then(|r| r.strip_suffix(')')) {
        Some(inner) if tops.len() == 1 => inner.to_string(),
        _ => s,
    }
}

fn budget_class(b: Option<u64>) -> &'static str {
    match b {
        None => "default",
        Some(x) if x <= 256 => "tiny",
        Some(_) => "small",
    }
}
const BUDGETS: [Option<u64>; 6] = [None, Some(65536), Some(4096), Some(256), Some(1), Some(0)];

fn is_padded_row(r: &Row, widths: &[usize]) -> bool {
    let mut o = 0;
    for w in widths {
        if r.len() >= o + w && r[o..o + w].iter().all(|v| v.is_null()) {
            return true;
        }
        o += w;
    }
    false
}

/// bag difference a − b of two SORTED bags (merge; values compared exactly after `canon`)
fn bag_minus(a: &[Row], b: &[Row]) -> Vec<Row> {
    let mut out = vec![];
    let mut j = 0;
    for x in a {
        while j < b.len() && b[j] < *x {
            j += 1;
        }
        if j < b.len() && b[j] == *x {
            j += 1;
        } else {
            out.push(x.clone());
        }
    }
    out
}
/// sorted bag of canonical values (integral floats become ints: the columns here are INT / TEXT)
fn canon_bag(rows: &[Row]) -> Vec<Row> {
    let mut r: Vec<Row> = rows.iter().map(|r| r.iter().map(|v| ex::canon(v, false)).collect()).collect();
    r.sort();
    r
}

fn show_bag(rows: &[Row]) -> String {
    if rows.len() > 24 {
        format!("{} rows, first: {}", rows.len(), show_rows(&rows[..24].to_vec()))
    } else {
        show_rows(&rows.to_vec())
    }
}

/// None = conforms; Some((failure class, expected text, observed text))
fn judge(expected: &[Row], res: &Res) -> Option<(String, String, String)> {
    let exp_s = || format!("bag {}", show_bag(expected));
    match res {
        Res::Panic(p) => Some(("panic".into(), exp_s(), format!("PANIC {p}"))),
        Res::Err(e) => Some(("error".into(), exp_s(), format!("Err({})", vcore::util::clip(e, 300)))),
        Res::Rows(rows) => {
            let obs = canon_bag(rows);
            if expected == &obs[..] {
                return None;
            }
            let width = expected.first().map(|r| r.len());
            if let (Some(w), Some(o)) = (width, obs.first()) {
                if o.len() != w {
                    let f = if o.is_empty() { "no-columns" } else { "arity" };
                    return Some((f.into(), exp_s(), format!("{} rows of {} columns: {}", obs.len(), o.len(), show_bag(&obs))));
                }
            }
            let missing = bag_minus(expected, &obs);
            let extra = bag_minus(&obs, expected);
            let same_set = |a: &[Row], b: &[Row]| a.iter().all(|x| b.binary_search(x).is_ok());
            let f = if missing.is_empty() && same_set(&extra, expected) || extra.is_empty() && same_set(&missing, &obs) {
                "dup-count"
            } else if extra.is_empty() {
                "missing-rows"
            } else if missing.is_empty() {
                "extra-rows"
            } else {
                // NULL padding in place of values (or values in place of padding)?
                let compatible = |x: &Row, m: &Row| x.len() == m.len() && x.iter().zip(m.iter()).all(|(a, b)| a.is_null() || b.is_null() || ex::loosely_equal(a, b));
                if extra.len() * missing.len() <= 4_000_000 && extra.iter().all(|x| missing.iter().any(|m| compatible(x, m))) {
                    "null-padding"
                } else {
                    "wrong-rows"
                }
            };
            Some((f.into(), exp_s(), format!("bag {} (missing {}, extra {})", show_bag(&obs), show_bag(&missing), show_bag(&extra))))
        }
        other => Some(("error".into(), exp_s(), other.show())),
    }
}

fn signature(s: &QSpec, op: &str, budget: Option<u64>, failure: &str) -> String {
    format!("{PROP}/{}/{}/{}/{}/{}", s.kind_name(), s.shape_name(), op, budget_class(budget), failure)
}

/// The one place where a join query reaches TurDB (run and replay share it).
fn run_query(db: &TestDb, _spec: &QSpec, sql: &str, _budget: Option<u64>) -> Res {
    db.exec(sql)
}

fn set_budget(db: &TestDb, b: u64) -> Result<(), String> {
    match db.exec(&format!("PRAGMA join_memory_budget = {b}")) {
        Res::Done(d) if d.contains(&format!("\"{b}\"")) => Ok(()),
        o => Err(o.show()),
    }
}

fn case_json(pass: &str, t: &Tabs, v: Variant, s: &QSpec, budget: Option<u64>, oracle: &str, sql: &str) -> Value {
    json!({"pass": pass, "tabs": t.to_json(), "variant": v.name(), "spec": s.to_json(), "budget": budget, "oracle": oracle, "sql": sql})
}

struct Prepared {
    spec: QSpec,
    sql: String,
    expected: Vec<Row>,
    /// DISTINCT forms: the same query without DISTINCT has more rows (duplicates are really removed)
    dups_removed: bool,
}
fn prepare(t: &Tabs, specs: &[QSpec], pad_cols: bool) -> Vec<Prepared> {
    let mdb = t.model();
    specs
        .iter()
        .map(|s| {
            let pc = pad_cols && t.pad > 0 && matches!(s.on, On::Eq | On::EqRev | On::EqConjR | On::EqConjL) && s.kinds[0].has_on();
            let (q, sql) = build_query(s, pc, t.xb, t.yb);
            let r = q.eval(&mdb).unwrap_or_else(|e| panic!("reference model rejects {sql}: {e}"));
            let dups_removed = s.form.is_distinct() && {
                let (q_all, _) = build_query(&QSpec { form: Form::Cols, ..s.clone() }, false, t.xb, t.yb);
                q_all.eval(&mdb).map(|a| a.rows.len() > r.rows.len()).unwrap_or(false)
            };
            Prepared { spec: s.clone(), sql, expected: canon_bag(&r.rows), dups_removed }
        })
        .collect()
}

/// Run every prepared query of one (tables, variant) under every budget.
/// Returns the default-budget observations (None = pruned) for cross-variant comparison.
fn run_db(pass: &str, ctx: &Ctx, rep: &mut Reporter, t: &Tabs, v: Variant, prep: &[Prepared], budgets: &[Option<u64>], watch_files: bool) -> Vec<Option<Res>> {
    let db = match setup(&ctx.scratch, "db", t, v) {
        Ok(db) => db,
        Err(e) => {
            let s0 = QSpec::two(Kind::Inner, On::None, Wh::None, Form::Cols);
            rep.violation(PROP, "setup", &format!("{PROP}/setup/{}/error", v.name()), || case_json(pass, t, v, &s0, None, "setup", ""), "tables are created and filled", &e);
            return vec![];
        }
    };
    let watch = if watch_files {
        let tmp = PathBuf::from(std::env::var("TMPDIR").unwrap_or_else(|_| "/tmp".into()));
        let w = DirWatch::new(&[tmp, ctx.scratch.clone(), db.dir.clone()]);
        if w.is_none() {
            rep.note("inotify unavailable: spill activity through SQL not observed");
        }
        w
    } else {
        None
    };
    let watch = watch.as_ref();
    let plans: Vec<Option<String>> = prep.iter().map(|p| explain(db.db(), &p.sql)).collect();
    let ops: Vec<String> = plans.iter().map(plan_shape).collect();
    for (p, plan) in prep.iter().zip(plans.iter()) {
        let joins = operators(plan);
        for j in joins.split('>') {
            rep.count(&format!("op[{}]", j), 1);
        }
        if p.spec.form == Form::Cols && p.spec.wh == Wh::None {
            rep.count(&format!("plan[{}/{}]={}", p.spec.kind_name(), p.spec.on.sig(), joins), 1);
        }
    }
    let mut first: Vec<Option<Res>> = vec![None; prep.len()];
    // failure class of every query under the default budget: the same failure under another budget is the
    // same defect (blame goes to the simplest configuration) and is only counted
    let mut default_failure: Vec<Option<String>> = vec![None; prep.len()];
    for (bi, b) in budgets.iter().enumerate() {
        if let Some(b) = b {
            if let Err(e) = set_budget(&db, *b) {
                let s0 = QSpec::two(Kind::Inner, On::None, Wh::None, Form::Cols);
                rep.violation(PROP, "pragma", &format!("{PROP}/pragma/{}/error", budget_class(Some(*b))), || case_json(pass, t, v, &s0, Some(*b), "pragma", ""), "PRAGMA join_memory_budget accepts any usize", &e);
                continue;
            }
        }
        let mut failed: BTreeSet<QSpec> = BTreeSet::new();
        // quick tier, pairs pass: queries with a WHERE clause run under one budget per class (default, 4096, 0);
        // queries without WHERE (and everything in the thorough tier) run under all six
        let reduced_budget = ctx.quick() && pass == "pairs" && matches!(b, Some(65536) | Some(256) | Some(1));
        // the alias-spelling and DISTINCT forms: default and 0 only (quick)
        let reduced_budget2 = ctx.quick() && pass == "pairs" && matches!(b, Some(65536) | Some(4096) | Some(256) | Some(1));
        for (qi, p) in prep.iter().enumerate() {
            if reduced_budget && p.spec.wh != Wh::None {
                continue;
            }
            if reduced_budget2 && (p.spec.form.is_spelling() || p.spec.form.is_distinct() || p.spec.form.is_proj()) {
                continue;
            }
            if let Some(base) = p.spec.base() {
                if failed.contains(&base) {
                    failed.insert(p.spec.clone());
                    rep.pruned(1);
                    rep.count("pruned_base_failed", 1);
                    continue;
                }
            }
            if let Some(w) = watch {
                w.drain();
            }
            let t_exec = std::time::Instant::now();
            let res = run_query(&db, &p.spec, &p.sql, *b);
            if ctx.opt("timing").is_some() && t_exec.elapsed().as_millis() > 50 {
                eprintln!("   exec {:?} {}", t_exec.elapsed(), vcore::util::clip(&p.sql, 120));
            }
            if let Some(w) = watch {
                let created = w.drain();
                rep.count("pad_queries_watched", 1);
                rep.count("sql_join_files_created_during_query", created.len() as u64);
                for n in created.iter().take(4) {
                    rep.note(&format!("file created during a padded join: {n}"));
                }
            }
            rep.bulk(1, (!p.expected.is_empty()) as u64);
            rep.count(&format!("exec[{}]", budget_class(*b)), 1);
            let t_j = std::time::Instant::now();
            let verdict = judge(&p.expected, &res);
            if ctx.opt("timing").is_some() && t_j.elapsed().as_millis() > 50 {
                eprintln!("   judge {:?} {}", t_j.elapsed(), vcore::util::clip(&p.sql, 120));
            }
            match &verdict {
                None => {
                    rep.outcome(&format!("{}:{}", p.spec.kind_name(), if p.expected.is_empty() { "ok-empty" } else { "ok-rows" }));
                    rep.count("conforming", 1);
                    if p.spec.form.is_spelling() && !p.expected.is_empty() {
                        rep.count("conforming_alias_spelling_nonempty", 1);
                    }
                    if p.dups_removed {
                        rep.count("conforming_distinct_with_duplicates_removed", 1);
                    }
                    if p.expected.iter().any(|r| r.iter().any(|v| v.is_null())) {
                        rep.count("conforming_with_null_in_result", 1);
                    }
                }
                Some((f, exp, obs)) => {
                    failed.insert(p.spec.clone());
                    rep.outcome(&format!("{}:{}", p.spec.kind_name(), f));
                    if bi == 0 {
                        default_failure[qi] = Some(f.clone());
                    }
                    if bi > 0 && default_failure[qi].as_deref() == Some(f.as_str()) {
                        rep.count("violations_repeated_under_other_budgets", 1);
                    } else {
                        let sig = signature(&p.spec, &ops[qi], *b, f);
                        rep.violation(PROP, "model", &sig, || case_json(pass, t, v, &p.spec, *b, "model", &p.sql), exp, obs);
                    }
                }
            }
            // differential across budgets (against the default budget's answer)
            if bi == 0 {
                first[qi] = Some(match res {
                    Res::Rows(r) => Res::Rows(bag(&r)),
                    o => o,
                });
            } else if let Some(f0) = &first[qi] {
                let now = match res {
                    Res::Rows(r) => Res::Rows(bag(&r)),
                    o => o,
                };
                let same = match (f0, &now) {
                    (Res::Rows(a), Res::Rows(b)) => a == b,
                    (Res::Err(_), Res::Err(_)) => true,
                    (Res::Panic(_), Res::Panic(_)) => true,
                    _ => false,
                };
                rep.count("budget_comparisons", 1);
                if !same {
                    let sig = signature(&p.spec, &ops[qi], *b, "differs-across-budgets");
                    rep.violation(PROP, "budgets", &sig, || case_json(pass, t, v, &p.spec, *b, "budgets", &p.sql), &format!("same answer as under the default budget: {}", f0.show()), &now.show());
                }
            }
        }
    }
    first
}

fn replay_sql_case(ctx: &Ctx, case: &Value, rep: &mut Reporter) {
    let pass = case.get("pass").and_then(|v| v.as_str()).unwrap_or("pairs").to_string();
    let t = Tabs::from_json(case.get("tabs").expect("tabs")).expect("tabs parse");
    let v = Variant::parse(case.get("variant").and_then(|v| v.as_str()).unwrap_or("plain")).expect("variant");
    let s = QSpec::from_json(case.get("spec").expect("spec")).expect("spec parse");
    let budget = case.get("budget").and_then(|b| b.as_u64());
    let oracle = case.get("oracle").and_then(|v| v.as_str()).unwrap_or("model");
    let db = match setup(&ctx.scratch, "db", &t, v) {
        Ok(db) => db,
        Err(e) => {
            rep.violation(PROP, "setup", &format!("{PROP}/setup/{}/error", v.name()), || case.clone(), "tables are created and filled", &e);
            return;
        }
    };
    if oracle == "setup" {
        return;
    }
    let prep = prepare(&t, std::slice::from_ref(&s), pass == "pad");
    let p = &prep[0];
    let op = plan_shape(&explain(db.db(), &p.sql));
    let first = if oracle == "budgets" { Some(run_query(&db, &s, &p.sql, None)) } else { None };
    if let Some(b) = budget {
        if let Err(e) = set_budget(&db, b) {
            rep.violation(PROP, "pragma", &format!("{PROP}/pragma/{}/error", budget_class(Some(b))), || case.clone(), "PRAGMA join_memory_budget accepts any usize", &e);
            return;
        }
    }
    let res = run_query(&db, &s, &p.sql, budget);
    rep.bulk(1, 1);
    if oracle == "pragma" {
        return;
    }
    if oracle == "model" {
        if let Some((f, exp, obs)) = judge(&p.expected, &res) {
            rep.violation(PROP, "model", &signature(&s, &op, budget, &f), || case.clone(), &exp, &obs);
        }
    } else if let Some(f0) = first {
        let norm = |r: Res| match r {
            Res::Rows(r) => Res::Rows(bag(&r)),
            o => o,
        };
        let (a, b) = (norm(f0), norm(res));
        let same = match (&a, &b) {
            (Res::Rows(x), Res::Rows(y)) => x == y,
            (Res::Err(_), Res::Err(_)) | (Res::Panic(_), Res::Panic(_)) => true,
            _ => false,
        };
        if !same {
            rep.violation(PROP, "budgets", &signature(&s, &op, budget, "differs-across-budgets"), || case.clone(), &format!("same answer as under the default budget: {}", a.show()), &b.show());
        }
    }
}

// ---------------------------------------------------------------------------
// directory watch (inotify): files created while a statement runs
// ---------------------------------------------------------------------------
struct DirWatch {
    fd: i32,
}
impl DirWatch {
    fn new(dirs: &[PathBuf]) -> Option<DirWatch> {
        use std::os::unix::ffi::OsStrExt;
        let fd = unsafe { libc::inotify_init1(libc::IN_NONBLOCK | libc::IN_CLOEXEC) };
        if fd < 0 {
            return None;
        }
        for d in dirs {
            let c = std::ffi::CString::new(d.as_os_str().as_bytes()).ok()?;
            let wd = unsafe { libc::inotify_add_watch(fd, c.as_ptr(), libc::IN_CREATE | libc::IN_MOVED_TO) };
            if wd < 0 {
                unsafe { libc::close(fd) };
                return None;
            }
        }
        Some(DirWatch { fd })
    }
    /// names of the directory entries created since the last call
    fn drain(&self) -> Vec<String> {
        let mut out = vec![];
        let mut buf = [0u8; 16384];
        loop {
            let n = unsafe { libc::read(self.fd, buf.as_mut_ptr() as *mut libc::c_void, buf.len()) };
            if n <= 0 {
                break;
            }
            let n = n as usize;
            let mut o = 0;
            while o + 16 <= n {
                let len = u32::from_ne_bytes(buf[o + 12..o + 16].try_into().unwrap()) as usize;
                let name = &buf[o + 16..(o + 16 + len).min(n)];
                let end = name.iter().position(|b| *b == 0).unwrap_or(name.len());
                out.push(String::from_utf8_lossy(&name[..end]).to_string());
                o += 16 + len;
            }
        }
        out
    }
}
impl Drop for DirWatch {
    fn drop(&mut self) {
        unsafe { libc::close(self.fd) };
    }
}

// ---------------------------------------------------------------------------
// passes
// ---------------------------------------------------------------------------
fn pass_pairs(ctx: &Ctx, rep: &mut Reporter, case_no: &mut u64) {
    let thorough = !ctx.quick();
    let small = multisets_upto(&DOM4, 3);
    let four = multisets(&DOM4, 4);
    let mut tables: Vec<Keys> = small.clone();
    if thorough {
        tables.extend(four.iter().cloned());
    }
    let specs = specs_two(thorough);
    let variants: &[Variant] = if thorough { &[Variant::Plain, Variant::Idx, Variant::Pk, Variant::IdxL] } else { &[Variant::Plain, Variant::Idx, Variant::Pk] };
    rep.bound("pairs.key_domain", json!("{NULL,1,2,3}, duplicates allowed; payload l.x=10+i, r.y=20+i (unique per row)"));
    rep.bound("pairs.tables_per_side", json!(tables.len()));
    rep.bound("pairs.max_rows_per_table", json!(if thorough { "4 (4-row tables: with every <= 2-row table; with 3-/4-row tables when both key sets lie in {NULL,1,2})" } else { "3" }));
    rep.bound("pairs.queries_per_pair", json!(specs.len()));
    rep.bound("pairs.variants", json!(variants.iter().map(|v| v.name()).collect::<Vec<_>>()));
    rep.bound("budgets", json!(["default", 65536, 4096, 256, 1, 0]));
    // insertion orders: canonical (NULL first, ascending); thorough adds the reversed order
    let orders: &[bool] = if thorough { &[false, true] } else { &[false] };
    rep.bound("pairs.insertion_orders", json!(if thorough { "sorted and reversed" } else { "sorted" }));
    let mut done_pairs = 0u64;
    for &rev in orders {
        for l in &tables {
            for r in &tables {
                // the reversed order adds nothing for tables of < 2 rows; for 4-row tables only the sorted order is run
                if rev && (l.len() < 2 && r.len() < 2 || l.len() > 3 || r.len() > 3) {
                    continue;
                }
                // reduction of the 4-row pairs (thorough): a 4-row table meets every table of <= 2 rows; pairs of a 4-row
                // table with a 3- or 4-row table are run when both key multisets lie in {NULL,1,2}
                let big = |k: &Keys| k.len() == 4;
                let in3 = |k: &Keys| k.iter().all(|x| *x != Some(3));
                if (big(l) || big(r)) && !(l.len() <= 2 || r.len() <= 2 || (in3(l) && in3(r))) {
                    continue;
                }
                let i = *case_no;
                *case_no += 1;
                if !ctx.mine(i) {
                    continue;
                }
                if ctx.expired() {
                    rep.capped(&format!("pairs pass: deadline after {done_pairs} table pairs in this worker"));
                    return;
                }
                let (l2, r2): (Keys, Keys) = if rev { (l.iter().rev().cloned().collect(), r.iter().rev().cloned().collect()) } else { (l.clone(), r.clone()) };
                let t = Tabs::small(&l2, &r2, None);
                let prep = prepare(&t, &specs, false);
                let mut per_variant: Vec<(Variant, Vec<Option<Res>>)> = vec![];
                for &v in variants {
                    if !v.legal(&t) || (v == Variant::IdxL && (rev || l.len() > 3 || r.len() > 3)) {
                        continue; // the index on l.k (no operator uses it for the join) is run on the sorted <= 3-row tables only
                    }
                    rep.begin_case(&case_json("pairs", &t, v, &specs[0], None, "model", "").to_string());
                    let first = run_db("pairs", ctx, rep, &t, v, &prep, &BUDGETS, false);
                    rep.count(&format!("pairs_dbs[{}]", v.name()), 1);
                    per_variant.push((v, first));
                }
                // differential across variants (default budget)
                if let Some((_, base)) = per_variant.first() {
                    for (_, other) in per_variant.iter().skip(1) {
                        for (a, b) in base.iter().zip(other.iter()) {
                            if let (Some(a), Some(b)) = (a, b) {
                                rep.count("variant_comparisons", 1);
                                if a != b && !(a.is_err() && b.is_err()) {
                                    rep.count("variant_diffs", 1);
                                }
                            }
                        }
                    }
                }
                done_pairs += 1;
                rep.sample(|| json!({"pass": "pairs", "tabs": t.to_json(), "example_sql": prep[12].sql, "expected": show_bag(&prep[12].expected)}));
            }
        }
    }
}

fn pass_chain(ctx: &Ctx, rep: &mut Reporter, case_no: &mut u64) {
    let thorough = !ctx.quick();
    let tables = multisets_upto(&DOM3, if thorough { 3 } else { 2 });
    let specs = specs_chain();
    let variants = [Variant::Plain, Variant::Idx, Variant::Pk];
    // quick: one budget per class; thorough: all six
    let budgets: &[Option<u64>] = if thorough { &BUDGETS } else { &[None, Some(4096), Some(0)] };
    rep.bound("chain.budgets", json!(budgets.iter().map(|b| b.map(|x| x.to_string()).unwrap_or("default".into())).collect::<Vec<_>>()));
    rep.bound("chain.key_domain", json!("{NULL,1,2}"));
    rep.bound("chain.tables_per_side", json!(tables.len()));
    rep.bound("chain.max_rows_per_table", json!(if thorough { 3 } else { 2 }));
    rep.bound("chain.queries_per_triple", json!(specs.len()));
    for l in &tables {
        for r in &tables {
            for m in &tables {
                let i = *case_no;
                *case_no += 1;
                if !ctx.mine(i) {
                    continue;
                }
                if ctx.expired() {
                    rep.capped("chain pass: deadline");
                    return;
                }
                let t = Tabs::small(l, r, Some(m));
                let prep = prepare(&t, &specs, false);
                for v in variants {
                    if !v.legal(&t) {
                        continue;
                    }
                    rep.begin_case(&case_json("chain", &t, v, &specs[0], None, "model", "").to_string());
                    run_db("chain", ctx, rep, &t, v, &prep, budgets, false);
                    rep.count(&format!("chain_dbs[{}]", v.name()), 1);
                }
            }
        }
    }
}

fn pad_tabs(n: usize) -> Tabs {
    // every 7th key NULL, the others cycle over 40 (l) / 50 (r) values: duplicates on both sides,
    // keys without a partner on both sides
    let l: Keys = (0..n).map(|i| if i % 7 == 0 { None } else { Some((i % 40) as i64 + 1) }).collect();
    let r: Keys = (0..n).map(|i| if i % 7 == 3 { None } else { Some((i % 50) as i64 + 11) }).collect();
    Tabs { l, r, m: None, pad: 400, xb: 1000, yb: 2000 }
}
fn specs_pad() -> Vec<QSpec> {
    let mut v = vec![];
    for k in KINDS_ON {
        // equi-joins only: these are the shapes planned as hash joins (the operators that can spill);
        // CROSS / `<` over 300 x 300 padded rows cost seconds per execution and never spill by design
        for on in [On::Eq, On::EqConjR] {
            v.push(QSpec::two(k, on, Wh::None, Form::Cols));
        }
    }
    v.push(QSpec::two(Kind::Comma, On::None, Wh::JoinEq, Form::Cols));
    for k in KINDS_ON {
        v.push(QSpec::two(k, On::Eq, Wh::R, Form::Cols));
    }
    v
}
fn pass_pad(ctx: &Ctx, rep: &mut Reporter, case_no: &mut u64) {
    let t = pad_tabs(300);
    let specs = specs_pad();
    rep.bound("pad.rows_per_table", json!(300));
    rep.bound("pad.payload_bytes_per_row", json!(400));
    rep.bound("pad.queries", json!(specs.len()));
    for v in [Variant::Plain, Variant::Idx] {
        // one case = one variant (all queries, all budgets) so that base pruning does not depend on the worker count
        let i = *case_no;
        *case_no += 1;
        if !ctx.mine(i) {
            continue;
        }
        if ctx.expired() {
            rep.capped("pad pass: deadline");
            return;
        }
        let t0 = std::time::Instant::now();
        let prep = prepare(&t, &specs, true);
        if ctx.opt("timing").is_some() {
            eprintln!("pad: model prepared in {:?}", t0.elapsed());
        }
        rep.begin_case(&case_json("pad", &t, v, &specs[0], None, "model", "").to_string());
        run_db("pad", ctx, rep, &t, v, &prep, &BUDGETS, true);
        rep.note("pass pad: counter sql_join_files_created_during_query = directory entries created in TMPDIR, the scratch root and the database directory while a 300-row padded join runs under each budget. When it is 0 the SQL join path did not spill under any budget (at the commit this check was written for, PRAGMA join_memory_budget is stored by src/database/pragma.rs:145-162 and read by nothing; joins are materialised in memory by src/database/database.rs:2112-3460); the spilling operator GraceHashJoinState is then covered by pass op only (op_spill_files_seen).");
        if ctx.opt("timing").is_some() {
            eprintln!("pad: variant {} done at {:?}", v.name(), t0.elapsed());
        }
        rep.count("pad_dbs", 1);
    }
}

// ---------------------------------------------------------------------------
// pass op: the join operators of src/sql/executor.rs driven directly
// ---------------------------------------------------------------------------
mod oppass {
    use super::*;
    use turdb::sql::ast::{JoinType, Statement};
    use turdb::sql::builder::ExecutorBuilder;
    use turdb::sql::context::ExecutionContext;
    use turdb::sql::executor::{DynamicExecutor, Executor, MaterializedRowSource, TableScanExecutor};
    use turdb::sql::state::StreamingHashJoinState;
    use turdb::types::Value as TValue;
    use turdb::OwnedValue;

    #[derive(Clone, Debug, PartialEq, Eq)]
    pub struct OpSpec {
        /// "NestedLoopJoin" | "GraceHashJoin" | "StreamingHashJoin"
        pub op: String,
        pub kind: Kind,
        pub on: On,
        /// GraceHashJoin only: spill directory in use with this memory budget (bytes)
        pub spill: Option<usize>,
    }
    impl OpSpec {
        pub fn to_json(&self) -> Value {
            json!({"op": self.op, "kind": self.kind.name(), "on": self.on.name(), "spill": self.spill})
        }
        pub fn from_json(v: &Value) -> Option<OpSpec> {
            Some(OpSpec { op: v.get("op")?.as_str()?.to_string(), kind: Kind::parse(v.get("kind")?.as_str()?)?, on: On::parse(v.get("on")?.as_str()?)?, spill: v.get("spill").and_then(|x| x.as_u64()).map(|x| x as usize) })
        }
        pub fn spill_class(&self) -> &'static str {
            match self.spill {
                None => "in-memory",
                Some(b) if b <= 256 => "spill-tiny",
                Some(_) => "spill-small",
            }
        }
        pub fn qspec(&self) -> QSpec {
            QSpec::two(self.kind, self.on, Wh::None, Form::Cols)
        }
    }
    pub fn all_specs() -> Vec<OpSpec> {
        let mut v = vec![];
        for k in KINDS_ON {
            for on in [On::Eq, On::Lt, On::Le, On::EqConjR] {
                v.push(OpSpec { op: "NestedLoopJoin".into(), kind: k, on, spill: None });
            }
        }
        v.push(OpSpec { op: "NestedLoopJoin".into(), kind: Kind::Cross, on: On::None, spill: None });
        for k in KINDS_ON {
            v.push(OpSpec { op: "StreamingHashJoin".into(), kind: k, on: On::Eq, spill: None });
            for spill in [None, Some(65536), Some(4096), Some(256), Some(1), Some(0)] {
                v.push(OpSpec { op: "GraceHashJoin".into(), kind: k, on: On::Eq, spill });
            }
        }
        v
    }

    fn owned(rows: &[Row]) -> Vec<Vec<OwnedValue>> {
        rows.iter()
            .map(|r| {
                r.iter()
                    .map(|v| match v {
                        V::Null => OwnedValue::Null,
                        V::Int(i) => OwnedValue::Int(*i),
                        V::Text(s) => OwnedValue::Text(s.clone()),
                        o => panic!("unexpected value {o:?}"),
                    })
                    .collect()
            })
            .collect()
    }
    fn back(v: &TValue) -> V {
        match v {
            TValue::Null => V::Null,
            TValue::Int(i) => V::Int(*i),
            TValue::Float(f) => V::Float(*f),
            TValue::Text(s) => V::Text(s.to_string()),
            TValue::Blob(b) => V::Blob(b.to_vec()),
            o => V::Other(format!("{o:?}")),
        }
    }
    fn jt(k: Kind) -> JoinType {
        match k {
            Kind::Inner => JoinType::Inner,
            Kind::Left => JoinType::Left,
            Kind::Right => JoinType::Right,
            Kind::Full => JoinType::Full,
            _ => JoinType::Cross,
        }
    }
    fn count_files(dir: &Path) -> usize {
        let mut n = 0;
        if let Ok(rd) = std::fs::read_dir(dir) {
            for e in rd.flatten() {
                let p = e.path();
                if p.is_dir() {
                    n += count_files(&p);
                } else {
                    n += 1;
                }
            }
        }
        n
    }

    /// Run one operator over materialized inputs.  Ok((rows, spill files seen after open(), files left after close()))
    pub fn run_op(spec: &OpSpec, t: &Tabs, spill_root: &Path) -> Result<(Vec<Row>, usize, usize), String> {
        let lrows = t.rows('l');
        let rrows = t.rows('r');
        let lw = if t.pad > 0 { 3 } else { 2 };
        let rw = lw;
        let spill_dir = spill_root.join("spill");
        let _ = std::fs::remove_dir_all(&spill_dir);
        let spec = spec.clone();
        let res = vcore::catch(move || -> Result<(Vec<Row>, usize, usize), String> {
            let arena = Default::default(); // bumpalo::Bump (the type is fixed by ExecutionContext::new)
            let ectx = ExecutionContext::new(&arena);
            let b = ExecutorBuilder::new(&ectx);
            let left = DynamicExecutor::TableScan(TableScanExecutor::new(MaterializedRowSource::new(owned(&lrows)), &arena));
            let right = DynamicExecutor::TableScan(TableScanExecutor::new(MaterializedRowSource::new(owned(&rrows)), &arena));
            // column map of the combined row, as the SQL layer builds it (lower-case, qualified and bare names)
            let mut cmap: Vec<(String, usize)> = vec![("l.k".into(), 0), ("l.x".into(), 1)];
            if lw == 3 {
                cmap.push(("l.p".into(), 2));
            }
            cmap.push(("r.k".into(), lw));
            cmap.push(("r.y".into(), lw + 1));
            if rw == 3 {
                cmap.push(("r.p".into(), lw + 2));
            }
            let cond_sql = match spec.on {
                On::None => None,
                On::Eq => Some("l.k = r.k".to_string()),
                On::EqRev => Some("r.k = l.k".to_string()),
                On::Lt => Some("l.k < r.k".to_string()),
                On::EqConjR => Some(format!("l.k = r.k AND r.y > {}", t.yb)),
                On::EqConjL => Some(format!("l.k = r.k AND l.x > {}", t.xb)),
                On::Le => Some("l.k <= r.k".to_string()),
                On::EqOr => Some(format!("l.k = r.k OR l.x > {}", t.xb + 1_000_000)),
            };
            let stmt_sql = cond_sql.map(|c| format!("SELECT 1 FROM l WHERE {c}"));
            let cond = match &stmt_sql {
                None => None,
                Some(sql) => {
                    let mut p = turdb::sql::Parser::new(sql, &arena);
                    match p.parse_statement().map_err(|e| format!("harness: cannot parse {sql}: {e:#}"))? {
                        Statement::Select(sel) => sel.where_clause,
                        _ => None,
                    }
                }
            };
            let mut exec = match spec.op.as_str() {
                "NestedLoopJoin" => DynamicExecutor::NestedLoopJoin(b.build_nested_loop_join(left, right, cond, &cmap, jt(spec.kind), lw, rw)),
                "GraceHashJoin" => DynamicExecutor::GraceHashJoin(Box::new(b.build_grace_hash_join(left, right, vec![0], vec![0], 16, jt(spec.kind), lw, rw, spec.spill.map(|_| spill_dir.clone()), spec.spill.unwrap_or(usize::MAX / 2), 7))),
                "StreamingHashJoin" => DynamicExecutor::StreamingHashJoin(StreamingHashJoinState {
                    build: Box::new(left),
                    probe: Box::new(right),
                    build_key_indices: [0usize].into_iter().collect(),
                    probe_key_indices: [0usize].into_iter().collect(),
                    arena: &arena,
                    hash_table: Default::default(),
                    build_rows: Vec::new(),
                    current_probe_row: None,
                    current_matches: Default::default(),
                    current_match_idx: 0,
                    join_type: jt(spec.kind),
                    probe_row_matched: false,
                    build_matched: Vec::new(),
                    emitting_unmatched_build: false,
                    unmatched_build_idx: 0,
                    build_col_count: lw,
                    probe_col_count: rw,
                    built: false,
                    swapped: false,
                    memory_budget: None,
                    last_reported_bytes: 0,
                }),
                o => return Err(format!("harness: unknown operator {o}")),
            };
            exec.open().map_err(|e| format!("open: {e:#}"))?;
            let files_open = count_files(&spill_dir);
            let mut out = vec![];
            while let Some(row) = exec.next().map_err(|e| format!("next: {e:#}"))? {
                out.push(row.values.iter().map(back).collect::<Row>());
                if out.len() > 1_000_000 {
                    return Err("more than 1e6 rows".into());
                }
            }
            exec.close().map_err(|e| format!("close: {e:#}"))?;
            drop(exec);
            let files_left = count_files(&spill_dir);
            Ok((out, files_open, files_left))
        });
        match res {
            Ok(r) => r,
            Err(p) => Err(format!("PANIC {p}")),
        }
    }

    pub fn signature(spec: &OpSpec, failure: &str) -> String {
        format!("{PROP}/op:{}/{}/{}/{}/{}", spec.kind.name(), spec.on.sig(), spec.op, spec.spill_class(), failure)
    }

    /// judge one operator run; returns true when it conforms
    pub fn check(rep: &mut Reporter, t: &Tabs, spec: &OpSpec, expected: &[Row], spill_root: &Path) -> bool {
        let r = run_op(spec, t, spill_root);
        let case = || json!({"pass": "op", "tabs": t.to_json(), "op": spec.to_json()});
        let res = match r {
            Ok((rows, files_open, files_left)) => {
                rep.count(&format!("opexec[{}]", spec.op), 1);
                if spec.spill.is_some() {
                    rep.count("op_spill_runs", 1);
                    rep.count("op_spill_files_seen", files_open as u64);
                    if files_open > 0 {
                        rep.count(&format!("op_spill_runs_with_files[{}]", spec.spill_class()), 1);
                    }
                    if files_left > 0 {
                        rep.count("op_spill_files_left_after_close", files_left as u64);
                    }
                }
                Res::Rows(rows)
            }
            Err(e) if e.starts_with("PANIC") => Res::Panic(e),
            Err(e) => Res::Err(e),
        };
        match judge(expected, &res) {
            None => {
                rep.count("op_conforming", 1);
                true
            }
            Some((f, exp, obs)) => {
                rep.violation(PROP, "op-model", &signature(spec, &f), case, &exp, &obs);
                false
            }
        }
    }
}

fn pass_op(ctx: &Ctx, rep: &mut Reporter, case_no: &mut u64) {
    // quick: tables of <= 2 rows and spill budgets {65536, 256, 0}; thorough: <= 3 rows and all five budgets
    let tables = multisets_upto(&DOM4, if ctx.quick() { 2 } else { 3 });
    let specs: Vec<oppass::OpSpec> = oppass::all_specs().into_iter().filter(|s| !ctx.quick() || !matches!(s.spill, Some(4096) | Some(1))).collect();
    rep.bound("op.operators", json!(["NestedLoopJoinState x {INNER,LEFT,RIGHT,FULL} x {eq,lt,eq+conj} + CROSS", "StreamingHashJoinState x 4 kinds (swapped=false)", "GraceHashJoinState x 4 kinds x {in-memory, spill dir with budget 65536,4096,256,1,0 (quick: 65536,256,0)}"]));
    rep.bound("op.table_pairs", json!(tables.len() * tables.len()));
    rep.expect_nonzero("op_spill_files_seen");
    rep.expect_nonzero("op_conforming");
    for l in &tables {
        for r in &tables {
            let i = *case_no;
            *case_no += 1;
            if !ctx.mine(i) {
                continue;
            }
            if ctx.expired() {
                rep.capped("op pass: deadline");
                return;
            }
            let t = Tabs::small(l, r, None);
            let qs: Vec<QSpec> = specs.iter().map(|s| s.qspec()).collect();
            let prep = prepare(&t, &qs, false);
            let mut failed: BTreeSet<(String, Kind, On)> = BTreeSet::new();
            for (s, p) in specs.iter().zip(prep.iter()) {
                // a spilling run builds on the in-memory run of the same operator and kind
                if s.spill.is_some() && failed.contains(&(s.op.clone(), s.kind, s.on)) {
                    rep.pruned(1);
                    continue;
                }
                rep.bulk(1, (!p.expected.is_empty()) as u64);
                if !oppass::check(rep, &t, s, &p.expected, &ctx.scratch) {
                    failed.insert((s.op.clone(), s.kind, s.on));
                }
            }
        }
    }
    // padded 300-row inputs: GraceHashJoin must really write spill files under the small budgets
    let t = pad_tabs(300);
    for s in specs.iter().filter(|s| s.op == "GraceHashJoin") {
        let i = *case_no;
        *case_no += 1;
        if !ctx.mine(i) {
            continue;
        }
        let prep = prepare(&t, &[s.qspec()], true);
        rep.bulk(1, 1);
        rep.count("op_pad_runs", 1);
        // the operator returns all columns of both inputs: the expected bag of the padded query selects them all as well
        oppass::check(rep, &t, s, &prep[0].expected, &ctx.scratch);
    }
}

fn replay_op_case(ctx: &Ctx, case: &Value, rep: &mut Reporter) {
    let t = Tabs::from_json(case.get("tabs").expect("tabs")).expect("tabs parse");
    let s = oppass::OpSpec::from_json(case.get("op").expect("op")).expect("op parse");
    let prep = prepare(&t, &[s.qspec()], true);
    rep.bulk(1, 1);
    oppass::check(rep, &t, &s, &prep[0].expected, &ctx.scratch);
}

// ---------------------------------------------------------------------------
struct C17;
impl Check for C17 {
    fn specs(&self) -> Vec<Spec> {
        let mut s = Spec::new(
            PROP,
            "exploration",
            "Pass pairs: every ordered pair of tables l(k,x), r(k,y) whose key columns are the multisets of <= 3 values over {NULL,1,2,3} (thorough: both insertion orders, 4-row tables against every <= 2-row table and against 3-/4-row tables over {NULL,1,2}), payload unique per row; x physical variants (no index, secondary index on r.k, PRIMARY KEY r.k where the keys allow it; thorough: index on l.k); x every query of the grammar {INNER,LEFT,RIGHT,FULL} x ON {l.k=r.k, l.k<r.k, l.k<=r.k, l.k=r.k OR false, eq AND r.y>c, eq AND l.x>c; thorough: r.k=l.k} and WHERE {none, 1=1, l.x>c, r.y>c, l.k IS NULL, r.k IS NULL, l.k=1, r.k=1} (quick: the WHEREs with ON in {eq, lt, eq AND r.y>c}), CROSS and comma joins with the same WHEREs and with the join predicate in WHERE, semi/anti joins (IN, EXISTS, NOT EXISTS), aliased / self-join / SELECT * forms, the alias spellings {AS A/AS B, u/Vv without AS, a/b without AS, right side only AS B, left side only AS A} of the equi-join and CROSS, SELECT DISTINCT {l.k,r.k (ON eq and lt) | l.k,r.y | l.x,r.k} for the four kinds and CROSS (quick: these under the budgets default and 0); x PRAGMA join_memory_budget in {default,65536,4096,256,1,0} (quick: queries with a WHERE clause under default,4096,0 only). Pass chain: all triples of tables over {NULL,1,2} (<= 2 rows, thorough <= 3) x all 25 kind pairs of (l J1 r) J2 m x second ON on r.k or l.k x WHERE {none, m.z>c, m.k IS NULL} x budgets (quick: default,4096,0). Pass pad: 300-row tables with 400-byte payloads, 13 equi-join queries under every budget, files created during the query are counted. Pass op: the executor join operators driven directly on all table pairs (quick: tables of <= 2 rows; NestedLoopJoin 5 kinds x 4 conditions, StreamingHashJoin, GraceHashJoin in memory and with real spill files under 5 budgets) and on the padded tables. One case = one (tables, variant, budget, query) execution compared as a bag with the reference model; non-trivial = the expected bag is non-empty. Queries whose simpler base query already fails on the same tables are pruned and counted.",
        );
        s.cap_quick_s = 90;
        s.cap_thorough_s = 1500;
        // development aid on a loaded machine: VERIF_DEV_CAP=<seconds> lifts both soft deadlines
        if let Some(c) = std::env::var("VERIF_DEV_CAP").ok().and_then(|c| c.parse().ok()) {
            s.cap_quick_s = c;
            s.cap_thorough_s = c;
        }
        s.assumptions = &["reference model refmodel::sql::query (cross-checked against SQLite) defines the SQL answer", "EXPLAIN reports the operator that the query dispatch then uses"];
        vec![s]
    }

    fn run(&self, ctx: &Ctx, rep: &mut Reporter) {
        // large result sets: keep freed memory in the heap instead of mmap/munmap churn (pure performance)
        unsafe {
            libc::mallopt(libc::M_MMAP_THRESHOLD, 1 << 30);
            libc::mallopt(libc::M_TRIM_THRESHOLD, 1 << 30);
        }
        let tmp = ctx.scratch.join("tmp");
        std::fs::create_dir_all(&tmp).ok();
        std::env::set_var("TMPDIR", &tmp);
        for c in ["op[StreamingHashJoin]", "op[GraceHashJoin]", "op[NestedLoopJoin]", "op[IndexNestedLoopJoin]", "op[HashSemiJoin]", "op[HashAntiJoin]", "conforming", "conforming_with_null_in_result", "budget_comparisons", "variant_comparisons", "exec[tiny]", "exec[small]", "exec[default]", "pad_queries_watched", "conforming_alias_spelling_nonempty", "conforming_distinct_with_duplicates_removed"] {
            rep.expect_nonzero(c);
        }
        let only = ctx.opt("pass").map(|s| s.to_string());
        let want = |p: &str| only.as_deref().map_or(true, |o| o == p);
        let mut case_no = 0u64;
        if want("pad") {
            pass_pad(ctx, rep, &mut case_no);
        }
        if want("chain") {
            pass_chain(ctx, rep, &mut case_no);
        }
        if want("op") {
            pass_op(ctx, rep, &mut case_no);
        }
        if want("pairs") {
            pass_pairs(ctx, rep, &mut case_no);
        }
    }

    fn replay(&self, ctx: &Ctx, case: &Value, rep: &mut Reporter) {
        let tmp = ctx.scratch.join("tmp");
        std::fs::create_dir_all(&tmp).ok();
        std::env::set_var("TMPDIR", &tmp);
        if case.get("pass").and_then(|v| v.as_str()) == Some("op") {
            replay_op_case(ctx, case, rep);
        } else {
            replay_sql_case(ctx, case, rep);
        }
    }
}

fn main() {
    if let Ok(stmts) = std::env::var("C17_PROBE") {
        // development aid: run `;;`-separated statements on a fresh database and print full results
        vcore::quiet_panics();
        let base = PathBuf::from(format!("/dev/shm/turdb_verif/probe17_{}", std::process::id()));
        std::fs::create_dir_all(&base).unwrap();
        let t = TestDb::create(&base, "db").expect("create");
        let stmts = if let Some(f) = stmts.strip_prefix('@') { std::fs::read_to_string(f).expect("probe file") } else { stmts };
        for s in stmts.split(";;").map(|s| s.trim()).filter(|s| !s.is_empty()) {
            let t0 = std::time::Instant::now();
            let r = t.exec(s);
            let dt = t0.elapsed();
            if dt.as_millis() > 20 {
                println!("    [{} ms]", dt.as_millis());
            }
            match r {
                Res::Rows(r) if s.starts_with("EXPLAIN") => println!("{s}\n{}", match &r[0][0] {
                    V::Text(s) => s.clone(),
                    o => o.show(),
                }),
                o => println!("{s}\n    => {}", o.show()),
            }
        }
        drop(t);
        let _ = std::fs::remove_dir_all(&base);
        return;
    }
    vcore::main(&C17)
}
