//! C22 — no input makes the library panic, abort or hang.
//!
//! Bounded-exhaustive input enumeration against the real `turdb::Database`
//! API.  Oracle: every public call returns `Ok` or `Err` in bounded time.  A
//! panic (caught by `vcore::catch`), an abort / stack overflow / signal, or a
//! watchdog timeout is a violation.
//!
//! Layout: sub-spaces `tok` (token sequences), `mut` (token edits of seed
//! statements), `lex` (byte strings / byte edits), `par` (parameter lists),
//! `prag` (PRAGMA / SET), `arith` (operator edge values), `fn` (function edge
//! arguments), `api` (API call sequences), `big` (deep nesting / huge inputs,
//! each in its own child process).  Every case is `(sub, idx)`; `gen(sub,idx)`
//! is a pure, tier-independent function, so the case json is replayable.
//! Cases of one block share a database; the database a case starts from is a
//! function of `(sub, block)` only (fresh fixture at block start, deterministic
//! recreate rule), and `replay` re-runs the block prefix.
use std::collections::{BTreeMap, BTreeSet};
use std::path::PathBuf;
use std::sync::atomic::{AtomicU64, Ordering};
use std::sync::{Mutex, OnceLock};
use std::time::{Duration, Instant};
use turdb::{Database, ExecuteResult, OwnedValue, PreparedStatement};
use vcore::{json, Check, Ctx, Reporter, Spec, Value};

// ---------------------------------------------------------------------------
// watchdog: a hang becomes an attributable death (exit code 124)
// ---------------------------------------------------------------------------
static WD_START: AtomicU64 = AtomicU64::new(0); // ms since T0 + 1; 0 = idle
static WD_LIMIT: AtomicU64 = AtomicU64::new(10_000);
static T0: OnceLock<Instant> = OnceLock::new();

fn now_ms() -> u64 {
    T0.get_or_init(Instant::now).elapsed().as_millis() as u64
}
fn cpu_ms(clock: libc::clockid_t) -> u64 {
    let mut ts = libc::timespec { tv_sec: 0, tv_nsec: 0 };
    unsafe { libc::clock_gettime(clock, &mut ts) };
    ts.tv_sec as u64 * 1000 + ts.tv_nsec as u64 / 1_000_000
}
static WD_CPU0: AtomicU64 = AtomicU64::new(0);
static WD_MIN_LIMIT: AtomicU64 = AtomicU64::new(0);
static WD_CLOCK: OnceLock<libc::clockid_t> = OnceLock::new();
/// The verdict "hang" is load-independent: the worker thread must have burnt
/// `limit` of its own CPU time inside the case (busy loop), or the case must be
/// blocked for max(60 s, 5 x limit) of wall time (deadlock).  A descheduled
/// worker on an oversubscribed machine is therefore never mistaken for a hang.
fn start_watchdog() {
    if WD_CLOCK.get().is_some() {
        return;
    }
    let _ = now_ms();
    let mut cid: libc::clockid_t = 0;
    unsafe { libc::pthread_getcpuclockid(libc::pthread_self(), &mut cid) };
    let _ = WD_CLOCK.set(cid);
    std::thread::spawn(move || loop {
        std::thread::sleep(Duration::from_millis(50));
        let s = WD_START.load(Ordering::Relaxed);
        if s == 0 {
            continue;
        }
        let c0 = WD_CPU0.load(Ordering::Relaxed);
        let lim = WD_LIMIT.load(Ordering::Relaxed);
        let wall = (now_ms() + 1).saturating_sub(s);
        if wall < lim {
            continue;
        }
        let cpu = cpu_ms(cid).saturating_sub(c0);
        // re-check that the same case is still running (cpu0/start are two separate stores)
        if WD_START.load(Ordering::Relaxed) != s {
            continue;
        }
        if cpu >= lim || wall >= (5 * lim).max(60_000) {
            eprintln!("WATCHDOG: case exceeded {lim} ms (wall {wall} ms, cpu {cpu} ms)");
            unsafe { libc::_exit(124) };
        }
    });
}
#[inline]
fn arm(limit_ms: u64) {
    WD_START.store(0, Ordering::Relaxed);
    WD_LIMIT.store(limit_ms.max(WD_MIN_LIMIT.load(Ordering::Relaxed)), Ordering::Relaxed);
    if let Some(c) = WD_CLOCK.get() {
        WD_CPU0.store(cpu_ms(*c), Ordering::Relaxed);
    }
    WD_START.store(now_ms() + 1, Ordering::Relaxed);
}
#[inline]
fn disarm() {
    WD_START.store(0, Ordering::Relaxed);
}

/// Address-space cap: an absurd allocation fails instead of eating the shared machine.
fn limit_address_space(gib: u64) {
    let lim = libc::rlimit { rlim_cur: gib << 30, rlim_max: gib << 30 };
    unsafe { libc::setrlimit(libc::RLIMIT_AS, &lim) };
}

// ---------------------------------------------------------------------------
// panic hook (adds the first turdb frame when the location is outside /repo)
// ---------------------------------------------------------------------------
fn install_hook() {
    std::panic::set_hook(Box::new(|info| {
        let msg = if let Some(s) = info.payload().downcast_ref::<&str>() {
            s.to_string()
        } else if let Some(s) = info.payload().downcast_ref::<String>() {
            s.clone()
        } else {
            "panic".to_string()
        };
        let loc = info.location().map(|l| format!("{}:{}", l.file(), l.line())).unwrap_or_default();
        let mut s = format!("{msg} @ {loc}");
        if !loc.starts_with("/repo/") {
            if let Some(f) = turdb_caller() {
                s.push_str(" via ");
                s.push_str(&f);
            }
        }
        vcore::util::LAST_PANIC.with(|p| *p.borrow_mut() = s);
    }));
}
/// FUNC symbols of this executable (own minimal ELF64 .symtab reader: std's
/// backtrace symbolisation costs seconds for the first frame and ~60 ms per new
/// stack, which would race with the watchdog).
struct Syms {
    /// (address, size, offset of the name in `strtab`), sorted by address
    v: Vec<(u64, u64, u32)>,
    strtab: Vec<u8>,
    bias: u64,
}
fn rd<const N: usize>(b: &[u8], off: usize) -> [u8; N] {
    let mut a = [0u8; N];
    if off + N <= b.len() {
        a.copy_from_slice(&b[off..off + N]);
    }
    a
}
unsafe extern "C" fn phdr_cb(info: *mut libc::dl_phdr_info, _sz: libc::size_t, data: *mut libc::c_void) -> libc::c_int {
    // the first object reported is the executable itself
    *(data as *mut u64) = (*info).dlpi_addr as u64;
    1
}
fn load_syms() -> Syms {
    let mut bias = 0u64;
    unsafe { libc::dl_iterate_phdr(Some(phdr_cb), &mut bias as *mut u64 as *mut libc::c_void) };
    let mut out = Syms { v: Vec::new(), strtab: Vec::new(), bias };
    let Ok(b) = std::fs::read("/proc/self/exe") else { return out };
    if b.len() < 64 || &b[..4] != b"\x7fELF" || b[4] != 2 {
        return out;
    }
    let shoff = u64::from_le_bytes(rd(&b, 0x28)) as usize;
    let shentsize = u16::from_le_bytes(rd(&b, 0x3A)) as usize;
    let shnum = u16::from_le_bytes(rd(&b, 0x3C)) as usize;
    let sh = |i: usize, off: usize| shoff + i * shentsize + off;
    for i in 0..shnum {
        if u32::from_le_bytes(rd(&b, sh(i, 4))) != 2 {
            continue; // SHT_SYMTAB
        }
        let (off, size) = (u64::from_le_bytes(rd(&b, sh(i, 0x18))) as usize, u64::from_le_bytes(rd(&b, sh(i, 0x20))) as usize);
        let link = u32::from_le_bytes(rd(&b, sh(i, 0x28))) as usize;
        let (soff, ssize) = (u64::from_le_bytes(rd(&b, sh(link, 0x18))) as usize, u64::from_le_bytes(rd(&b, sh(link, 0x20))) as usize);
        if soff + ssize > b.len() || off + size > b.len() {
            return out;
        }
        out.strtab = b[soff..soff + ssize].to_vec();
        for k in 0..size / 24 {
            let e = off + k * 24;
            if b[e + 4] & 0xf != 2 {
                continue; // STT_FUNC
            }
            let (name, value, sz) = (u32::from_le_bytes(rd(&b, e)), u64::from_le_bytes(rd(&b, e + 8)), u64::from_le_bytes(rd(&b, e + 16)));
            if value != 0 {
                out.v.push((value, sz, name));
            }
        }
    }
    out.v.sort();
    out
}
impl Syms {
    fn name_at(&self, ip: u64) -> Option<&str> {
        let a = ip.wrapping_sub(1).wrapping_sub(self.bias);
        let k = self.v.partition_point(|e| e.0 <= a);
        if k == 0 {
            return None;
        }
        let (addr, size, name) = self.v[k - 1];
        if size != 0 && a >= addr + size {
            return None;
        }
        let s = &self.strtab[(name as usize).min(self.strtab.len())..];
        let end = s.iter().position(|&c| c == 0).unwrap_or(s.len());
        std::str::from_utf8(&s[..end]).ok()
    }
}
/// legacy Rust mangling `_ZN<len><ident>...17h<hash>E` -> `a::b::c`
fn demangle(m: &str) -> Option<String> {
    let mut r = m.strip_prefix("_ZN")?;
    let mut parts: Vec<String> = Vec::new();
    while !r.starts_with('E') && !r.is_empty() {
        let nd = r.bytes().take_while(|b| b.is_ascii_digit()).count();
        let n: usize = r[..nd].parse().ok()?;
        let id = r.get(nd..nd + n)?;
        r = &r[nd + n..];
        if n == 17 && id.starts_with('h') && id[1..].bytes().all(|b| b.is_ascii_hexdigit()) {
            continue;
        }
        let id = id.replace("$LT$", "<").replace("$GT$", ">").replace("$u20$", " ").replace("$RF$", "&").replace("$C$", ",").replace("$u7b$", "{").replace("$u7d$", "}").replace("..", "::");
        parts.push(id.trim_start_matches('_').to_string());
    }
    Some(parts.join("::"))
}
/// First turdb function on the current call stack (for panics whose location is
/// inside std or a dependency).
fn turdb_caller() -> Option<String> {
    static SYMS: OnceLock<Syms> = OnceLock::new();
    let syms = SYMS.get_or_init(load_syms);
    let mut ips = [std::ptr::null_mut::<libc::c_void>(); 64];
    let n = unsafe { libc::backtrace(ips.as_mut_ptr(), 64) }.max(0) as usize;
    for ip in &ips[..n] {
        let Some(m) = syms.name_at(*ip as u64) else { continue };
        if !m.contains("turdb") {
            continue;
        }
        let Some(d) = demangle(m) else { continue };
        if let Some(p) = d.find("turdb::") {
            let name = d[p..].replace("::{{closure}}", "").replace('/', "|").replace('*', "x");
            return Some(name.chars().filter(|c| !c.is_whitespace()).take(90).collect());
        }
    }
    None
}
// ---------------------------------------------------------------------------
// message normalisation and panic-site naming
// ---------------------------------------------------------------------------
/// strip numbers / quoted identifiers so that one defect = one class
fn norm_msg(m: &str, max: usize) -> String {
    let cs: Vec<char> = m.chars().collect();
    let mut out = String::new();
    let mut i = 0;
    let mut n = 0;
    while i < cs.len() && n < max {
        let c = cs[i];
        if c == '"' || c == '\'' {
            if let Some(j) = cs[i + 1..].iter().position(|&x| x == c) {
                out.push('_');
                n += 1;
                i += j + 2;
                continue;
            }
            out.push(c);
            n += 1;
            i += 1;
        } else if c.is_ascii_digit() {
            while i < cs.len() && cs[i].is_ascii_digit() {
                i += 1;
            }
            out.push('N');
            n += 1;
        } else if c.is_whitespace() || c.is_control() {
            while i < cs.len() && (cs[i].is_whitespace() || cs[i].is_control()) {
                i += 1;
            }
            out.push(' ');
            n += 1;
        } else {
            out.push(match c {
                '/' => '|',
                '*' => 'x',
                c => c,
            });
            n += 1;
            i += 1;
        }
    }
    out.trim().to_string()
}

static FN_CACHE: Mutex<BTreeMap<(String, u32), String>> = Mutex::new(BTreeMap::new());
/// name of the `fn` enclosing `file:line` in /repo (read-only source lookup)
fn enclosing_fn(file: &str, line: u32) -> String {
    let key = (file.to_string(), line);
    if let Some(v) = FN_CACHE.lock().unwrap().get(&key) {
        return v.clone();
    }
    let mut name = "?".to_string();
    if let Ok(src) = std::fs::read_to_string(format!("/repo/{file}")) {
        let lines: Vec<&str> = src.lines().collect();
        let mut k = (line as usize).min(lines.len());
        while k > 0 {
            k -= 1;
            let l = lines[k];
            if let Some(p) = l.find("fn ") {
                let before_ok = p == 0 || !l.as_bytes()[p - 1].is_ascii_alphanumeric() && l.as_bytes()[p - 1] != b'_';
                let id: String = l[p + 3..].chars().take_while(|c| c.is_alphanumeric() || *c == '_').collect();
                if before_ok && !id.is_empty() && !l.trim_start().starts_with("//") {
                    name = id;
                    break;
                }
            }
        }
    }
    FN_CACHE.lock().unwrap().insert(key, name.clone());
    name
}
/// "msg @ file:line[ via frame]" -> "panic@<site>:<msg class>"
fn panic_site(p: &str) -> String {
    let (head, via) = match p.rsplit_once(" via ") {
        Some((h, v)) if v.starts_with("turdb::") || v.starts_with('<') => (h, Some(v)),
        _ => (p, None),
    };
    let (msg, loc) = head.rsplit_once(" @ ").unwrap_or((head, ""));
    let (file, line) = loc.rsplit_once(':').unwrap_or((loc, "0"));
    let line: u32 = line.parse().unwrap_or(0);
    let site = if let Some(f) = file.strip_prefix("/repo/") {
        format!("{}({})", f, enclosing_fn(f, line))
    } else if let Some(p) = file.find("/library/") {
        let std = format!("std:{}", &file[p + 9..]);
        match via {
            Some(v) => format!("{std}<-{v}"),
            None => std,
        }
    } else if let Some(p) = file.find("/registry/src/") {
        let rest = &file[p + 14..];
        let rest = rest.split_once('/').map(|x| x.1).unwrap_or(rest);
        match via {
            Some(v) => format!("dep:{rest}<-{v}"),
            None => format!("dep:{rest}"),
        }
    } else {
        format!("other:{}", file.rsplit('/').next().unwrap_or(file))
    };
    format!("panic@{}:{}", site, norm_msg(msg, 60))
}

// ---------------------------------------------------------------------------
// outcomes
// ---------------------------------------------------------------------------
#[derive(Clone, Debug)]
enum Out {
    Rows,
    Changed(bool), // true = DDL / transaction control / pragma (anything not row-counting DML)
    Err(String),
    Panic(String),
}
fn classify(r: Result<ExecuteResult, String>) -> Out {
    match r {
        Err(e) => Out::Err(e),
        Ok(ExecuteResult::Select { .. }) | Ok(ExecuteResult::Explain { .. }) => Out::Rows,
        Ok(ExecuteResult::Insert { .. }) | Ok(ExecuteResult::Update { .. }) | Ok(ExecuteResult::Delete { .. }) | Ok(ExecuteResult::Truncate { .. }) => Out::Changed(false),
        Ok(_) => Out::Changed(true),
    }
}
fn do_exec(db: &Database, sql: &str) -> Out {
    match vcore::catch(|| classify(db.execute(sql).map_err(|e| format!("{e:#}")))) {
        Ok(o) => o,
        Err(p) => Out::Panic(p),
    }
}
fn do_query(db: &Database, sql: &str) -> Out {
    match vcore::catch(|| db.query(sql).map(|_| ()).map_err(|e| format!("{e:#}"))) {
        Ok(Ok(())) => Out::Rows,
        Ok(Err(e)) => Out::Err(e),
        Err(p) => Out::Panic(p),
    }
}
fn do_prepare(db: &Database, sql: &str) -> (Out, Option<PreparedStatement>) {
    match vcore::catch(|| db.prepare(sql).map_err(|e| format!("{e:#}"))) {
        Ok(Ok(p)) => (Out::Rows, Some(p)),
        Ok(Err(e)) => (Out::Err(e), None),
        Err(p) => (Out::Panic(p), None),
    }
}

// ---------------------------------------------------------------------------
// one case
// ---------------------------------------------------------------------------
#[derive(Clone, Debug)]
enum Sql {
    Text(String),
    Bytes(Vec<u8>),
}
#[derive(Clone, Debug)]
struct Act {
    /// construct / pattern class (third signature component)
    class: String,
    /// statements executed first on the case's database (also under the oracle)
    pre: Vec<String>,
    sql: Sql,
    /// (params, mode): 0 execute_with_params, 1 prepare+bind+execute, 2 prepare+bind+query
    params: Option<(Vec<OwnedValue>, u8)>,
    /// API op sequence (sub `api`)
    api: Option<Vec<u8>>,
    /// after Ok(Rows) also run query() and prepare() on the same text
    also: bool,
    /// observation statements executed after the main call
    post: Vec<&'static str>,
    limit_ms: u64,
    /// generator decided that this index is a duplicate of another case (identity edit)
    skip: bool,
}
impl Act {
    fn sql(class: impl Into<String>, s: impl Into<String>) -> Act {
        Act { class: class.into(), pre: vec![], sql: Sql::Text(s.into()), params: None, api: None, also: true, post: vec![], limit_ms: 10_000, skip: false }
    }
    fn info(&self) -> String {
        match (&self.api, &self.sql) {
            (Some(ops), _) => ops.iter().map(|&o| API_OPS[o as usize]).collect::<Vec<_>>().join(","),
            (None, Sql::Text(s)) => {
                let mut t = String::new();
                for p in &self.pre {
                    t.push_str(p);
                    t.push_str(" ;; ");
                }
                t.push_str(s);
                vcore::util::clip(&t, 240)
            }
            (None, Sql::Bytes(b)) => format!("hex:{}", vcore::util::clip(&vcore::util::hex(b), 240)),
        }
    }
}

const FIXTURE: &[&str] = &[
    "CREATE TABLE t (a INT PRIMARY KEY, b TEXT, c FLOAT)",
    "CREATE TABLE u (a INT, d BIGINT, e TEXT, j JSONB, v VECTOR(3))",
    "CREATE INDEX ib ON t (b)",
    "INSERT INTO t VALUES (1, 'x', 1.5), (2, 'y', 2.5), (3, NULL, NULL)",
    "INSERT INTO u VALUES (1, 10, 'p', '{\"k\":1}', '[1,2,3]'), (2, 9223372036854775807, 'q', NULL, NULL), (4, -9223372036854775808, NULL, NULL, NULL)",
];

const ALPHA: [&str; 37] = [
    "SELECT", "FROM", "WHERE", "INSERT", "INTO", "VALUES", "UPDATE", "SET", "DELETE", "CREATE", "TABLE", "INDEX", "DROP", "t", "a", "*", "(", ")", ",", "=", "<", "+", "-", "1", "1.5", "'x'", "x'00'",
    "NULL", "?", "AND", "NOT", "ORDER", "BY", "LIMIT", "JOIN", "ON", ";",
];
/// reduced alphabet for pairs of edits
const PAIR_ALPHA: [&str; 12] = ["(", ")", ",", "NULL", "1", "t", "a", "SELECT", "FROM", "*", "'x'", "?"];

/// Seed statements: tokens separated by single spaces; `;;` separates a prelude
/// (executed, not mutated) from the statement under mutation.
const SEEDS: &[&str] = &[
    // ---- SELECT ----
    "SELECT * FROM t",
    "SELECT a , b FROM t WHERE a = 1",
    "SELECT DISTINCT b FROM t ORDER BY b DESC NULLS LAST LIMIT 2 OFFSET 1",
    "SELECT ALL a AS x , b y FROM t AS q WHERE q . a >= 2",
    "SELECT t . a , u . d FROM t JOIN u ON t . a = u . a",
    "SELECT * FROM t INNER JOIN u USING ( a )",
    "SELECT * FROM t LEFT OUTER JOIN u ON t . a = u . a WHERE u . a IS NULL",
    "SELECT * FROM t RIGHT JOIN u ON t . a = u . a",
    "SELECT * FROM t FULL OUTER JOIN u ON t . a = u . a",
    "SELECT * FROM t CROSS JOIN u",
    "SELECT * FROM t NATURAL JOIN u",
    "SELECT * FROM t , u WHERE t . a = u . a",
    "SELECT * FROM ( t JOIN u ON t . a = u . a )",
    "SELECT a FROM t WHERE a IN ( SELECT a FROM u )",
    "SELECT a FROM t WHERE a NOT IN ( 1 , 2 , NULL )",
    "SELECT a FROM t WHERE EXISTS ( SELECT 1 FROM u WHERE u . a = t . a )",
    "SELECT a FROM t WHERE NOT EXISTS ( SELECT 1 FROM u WHERE u . a = t . a )",
    "SELECT a , ( SELECT MAX ( d ) FROM u WHERE u . a = t . a ) FROM t",
    "SELECT s . a FROM ( SELECT a FROM t WHERE a > 1 ) AS s",
    "SELECT * FROM t , LATERAL ( SELECT d FROM u WHERE u . a = t . a ) AS l",
    "WITH q AS ( SELECT a FROM t ) SELECT * FROM q",
    "WITH q ( z ) AS ( SELECT a FROM t ) , r AS ( SELECT z FROM q ) SELECT * FROM r",
    "WITH RECURSIVE r ( n ) AS ( SELECT 1 UNION ALL SELECT n + 1 FROM r WHERE n < 3 ) SELECT * FROM r",
    "SELECT a , ROW_NUMBER ( ) OVER ( PARTITION BY b ORDER BY a ) FROM t",
    "SELECT a , SUM ( a ) OVER ( ORDER BY a ROWS BETWEEN 1 PRECEDING AND CURRENT ROW ) FROM t",
    "SELECT a , RANK ( ) OVER ( ORDER BY c DESC RANGE BETWEEN UNBOUNDED PRECEDING AND UNBOUNDED FOLLOWING ) FROM t",
    "SELECT a , LAG ( a , 1 ) OVER ( ORDER BY a ) , LEAD ( a ) OVER ( ORDER BY a ) FROM t",
    "SELECT a FROM t UNION SELECT a FROM u",
    "SELECT a FROM t UNION ALL SELECT a FROM u ORDER BY a",
    "SELECT a FROM t INTERSECT SELECT a FROM u",
    "SELECT a FROM t EXCEPT SELECT a FROM u",
    "SELECT b , COUNT ( * ) , SUM ( a ) , AVG ( c ) , MIN ( a ) , MAX ( b ) FROM t GROUP BY b HAVING COUNT ( * ) > 0",
    "SELECT COUNT ( DISTINCT b ) , COUNT ( a ) FILTER ( WHERE a > 1 ) FROM t",
    "SELECT a FROM t ORDER BY a ASC NULLS FIRST , b DESC FETCH FIRST 1 ROWS ONLY",
    "SELECT a FROM t WHERE a = 1 FOR UPDATE",
    "SELECT a FROM t FOR SHARE NOWAIT",
    "SELECT CASE WHEN a > 1 THEN 'p' WHEN a = 1 THEN 'q' ELSE NULL END FROM t",
    "SELECT CASE a WHEN 1 THEN 'one' ELSE 'many' END FROM t",
    "SELECT CAST ( a AS TEXT ) , CAST ( b AS INT ) , a :: FLOAT , '12' :: INT FROM t",
    "SELECT a FROM t WHERE a BETWEEN 1 AND 2 AND b NOT BETWEEN 'a' AND 'b'",
    "SELECT a FROM t WHERE b LIKE 'x%' OR b NOT LIKE '_y' ESCAPE '!' OR b ILIKE 'X'",
    "SELECT a FROM t WHERE b IS NULL OR c IS NOT NULL OR a IS DISTINCT FROM 1 OR a IS NOT DISTINCT FROM 2",
    "SELECT a + 1 , a - 1 , a * 2 , a / 2 , a % 2 , a ^ 2 , - a , + a , ~ a FROM t",
    "SELECT a & 1 , a | 2 , a << 1 , a >> 1 , b || 'z' FROM t",
    "SELECT a = 1 , a <> 1 , a != 1 , a < 1 , a <= 1 , a > 1 , a >= 1 , NOT a = 1 FROM t",
    "SELECT TRUE AND FALSE OR NULL , 0xFF , 0b101 , x'00ff' , 1.5e3 , .5 , 'it''s'",
    "SELECT [ 1 , 2 , 3 ] , ARRAY [ 1 , 2 ] , [ ] , ( [ 1 , 2 , 3 ] ) [ 1 ] , ( [ 1 , 2 , 3 ] ) [ 1 : 2 ]",
    "SELECT ( 1 , 2 ) , ( 1 , 2 ) = ( 1 , 2 )",
    "SELECT j -> 'k' , j ->> 'k' , j #> '{k}' , j #>> '{k}' FROM u",
    "SELECT a FROM u WHERE j @> '{\"k\":1}' OR j <@ '{}' OR [ 1 ] && [ 2 ]",
    "SELECT v <-> '[1,2,3]' , v <#> '[1,2,3]' , v <=> '[1,2,3]' FROM u ORDER BY v <-> '[0,0,0]' LIMIT 1",
    "SELECT ? , $1 , :p",
    "SELECT UPPER ( b ) , LENGTH ( b ) , SUBSTR ( b , 1 , 1 ) , CONCAT ( b , 'z' ) , COALESCE ( b , 'n' ) , ABS ( a ) , ROUND ( c , 1 ) FROM t",
    "SELECT NOW ( ) , CURRENT_DATE , DATE ( '2024-01-31' ) , YEAR ( '2024-01-31' ) , DATE_ADD ( '2024-01-31' , INTERVAL 1 DAY )",
    "SELECT \"a\" , `b` , t . * FROM t",
    "SELECT a FROM root . t",
    "SELECT COUNT ( * ) FROM t WHERE a > ( SELECT AVG ( a ) FROM t )",
    "SELECT a FROM t WHERE ( a , b ) IN ( ( 1 , 'x' ) )",
    "SELECT a FROM t ORDER BY 1 LIMIT 1",
    "SELECT a , b FROM t GROUP BY 1 , 2 ORDER BY COUNT ( * )",
    "SELECT /* c */ a FROM t",
    "SELECT SUM ( d ) , AVG ( d ) , MAX ( d ) - MIN ( d ) FROM u",
    "SELECT a FROM t ORDER BY b LIMIT 0",
    // ---- INSERT ----
    "INSERT INTO t VALUES ( 4 , 'w' , 4.5 )",
    "INSERT INTO t ( a , b ) VALUES ( 5 , 'v' ) , ( 6 , NULL )",
    "INSERT INTO u ( a , d ) SELECT a , a * 2 FROM t",
    "INSERT INTO u DEFAULT VALUES",
    "INSERT INTO t VALUES ( 1 , 'z' , 0.0 ) ON CONFLICT ( a ) DO UPDATE SET b = 'zz'",
    "INSERT INTO t VALUES ( 1 , 'z' , 0.0 ) ON CONFLICT DO NOTHING",
    "INSERT INTO t VALUES ( 7 , 'r' , 1.0 ) RETURNING a , b",
    "INSERT INTO u ( a , j , v ) VALUES ( 9 , '{\"k\":[1,2]}' , '[0.5,0.5,0.5]' )",
    "INSERT INTO t VALUES ( 1 , 'dup' , 0.0 )",
    "INSERT INTO t ( a ) VALUES ( NULL )",
    "INSERT INTO t VALUES ( 'k' , 1 , 'z' )",
    // ---- UPDATE ----
    "UPDATE t SET b = 'q' WHERE a = 1",
    "UPDATE t SET b = 'q' , c = c + 1",
    "UPDATE t SET b = u . e FROM u WHERE t . a = u . a",
    "UPDATE t SET a = a + 1 WHERE a = 3 RETURNING *",
    "UPDATE t SET a = 2 WHERE a = 1",
    "UPDATE t SET b = 5 , c = 'x' WHERE a = 1",
    "UPDATE u SET d = ( SELECT MAX ( a ) FROM t ) WHERE a IN ( SELECT a FROM t )",
    // ---- DELETE ----
    "DELETE FROM t",
    "DELETE FROM t WHERE a = 1 RETURNING a",
    "DELETE FROM t USING u WHERE t . a = u . a",
    "DELETE FROM u WHERE a IN ( SELECT a FROM t WHERE b IS NOT NULL )",
    // ---- CREATE TABLE ----
    "CREATE TABLE w ( a INT PRIMARY KEY , b TEXT NOT NULL DEFAULT 'd' , c FLOAT UNIQUE , d INT CHECK ( d > 0 ) )",
    "CREATE TABLE IF NOT EXISTS w ( a SERIAL , b VARCHAR ( 10 ) , c DECIMAL ( 10 , 2 ) , d BOOLEAN , e BLOB , f DATE , g TIMESTAMP , h UUID , i JSONB , k VECTOR ( 4 ) )",
    "CREATE TABLE w ( a INT , b INT , PRIMARY KEY ( a , b ) , UNIQUE ( b ) , CONSTRAINT fk FOREIGN KEY ( a ) REFERENCES t ( a ) ON DELETE CASCADE ON UPDATE SET NULL , CHECK ( a < b ) )",
    "CREATE TABLE w ( a BIGINT AUTO_INCREMENT PRIMARY KEY , b INT REFERENCES t ( a ) ON DELETE RESTRICT , c INT GENERATED ALWAYS AS ( a + 1 ) STORED )",
    "CREATE TABLE root . w ( a SMALLINT , b TINYINT , c DOUBLE PRECISION , d REAL , e CHAR ( 3 ) , f TIME , g TIMESTAMPTZ , h INTERVAL , i INET , k MACADDR , l POINT , m NUMERIC )",
    "CREATE TABLE t ( a INT )",
    "CREATE TABLE w ( a mytype , b TIMESTAMP WITH TIME ZONE , c CHARACTER VARYING ( 5 ) , d JSON , e INT4RANGE )",
    // ---- CREATE INDEX ----
    "CREATE INDEX iw ON t ( c )",
    "CREATE UNIQUE INDEX IF NOT EXISTS iw ON t ( b DESC NULLS LAST , c ASC )",
    "CREATE INDEX iw ON u USING HNSW ( v )",
    "CREATE INDEX iw ON t USING BTREE ( a ) WHERE a > 1",
    "CREATE INDEX iw ON t ( LOWER ( b ) )",
    "CREATE INDEX ib ON t ( b )",
    // ---- other CREATE ----
    "CREATE SCHEMA IF NOT EXISTS s2",
    "CREATE VIEW vw ( x ) AS SELECT a FROM t WITH CHECK OPTION",
    "CREATE OR REPLACE MATERIALIZED VIEW vw AS SELECT a FROM t",
    "CREATE FUNCTION f ( x INT ) RETURNS INT AS 'select' LANGUAGE sql",
    "CREATE PROCEDURE p ( x INT ) AS 'body' LANGUAGE sql",
    "CREATE TRIGGER tr BEFORE INSERT OR UPDATE ON t FOR EACH ROW EXECUTE FUNCTION f ( )",
    "CREATE TYPE mood AS ENUM ( 'sad' , 'ok' )",
    "CREATE TYPE pt AS ( x INT , y INT )",
    "CREATE DOMAIN dm AS INT",
    // ---- DROP / TRUNCATE / ALTER ----
    "DROP TABLE t",
    "DROP TABLE IF EXISTS w , t CASCADE",
    "DROP INDEX ib",
    "DROP INDEX IF EXISTS root . ib",
    "CREATE SCHEMA s2 ;; DROP SCHEMA s2 CASCADE",
    "DROP VIEW IF EXISTS vw",
    "DROP FUNCTION f",
    "DROP TRIGGER tr RESTRICT",
    "TRUNCATE TABLE t",
    "TRUNCATE t , u RESTART IDENTITY CASCADE",
    "ALTER TABLE t ADD COLUMN z INT DEFAULT 5",
    "ALTER TABLE t DROP COLUMN IF EXISTS c CASCADE",
    "ALTER TABLE t RENAME COLUMN b TO bb",
    "ALTER TABLE t RENAME TO t2",
    "ALTER TABLE t ALTER COLUMN b SET NOT NULL",
    "ALTER TABLE t ALTER COLUMN b SET DEFAULT 'x'",
    "ALTER TABLE t ALTER COLUMN a TYPE BIGINT",
    "ALTER TABLE t ALTER COLUMN b DROP DEFAULT",
    "ALTER TABLE t ADD CONSTRAINT uq UNIQUE ( b )",
    "ALTER TABLE t DROP CONSTRAINT IF EXISTS uq CASCADE",
    "ALTER TABLE t DROP COLUMN a",
    // ---- transactions ----
    "BEGIN",
    "BEGIN TRANSACTION ISOLATION LEVEL SERIALIZABLE , READ ONLY",
    "BEGIN WORK ISOLATION LEVEL READ COMMITTED READ WRITE",
    "COMMIT",
    "ROLLBACK",
    "BEGIN ;; BEGIN",
    "BEGIN ;; INSERT INTO t VALUES ( 4 , 'w' , 1.0 ) ;; COMMIT",
    "BEGIN ;; INSERT INTO t VALUES ( 4 , 'w' , 1.0 ) ;; ROLLBACK",
    "BEGIN ;; SAVEPOINT s",
    "BEGIN ;; SAVEPOINT s ;; INSERT INTO t VALUES ( 4 , 'w' , 1.0 ) ;; ROLLBACK TO SAVEPOINT s",
    "BEGIN ;; SAVEPOINT s ;; RELEASE SAVEPOINT s",
    "ROLLBACK TO SAVEPOINT s",
    "SAVEPOINT s",
    "RELEASE s",
    "BEGIN ;; DELETE FROM t WHERE a = 1 ;; SELECT * FROM t",
    "BEGIN ;; CREATE TABLE w ( a INT ) ;; ROLLBACK",
    // ---- EXPLAIN / CALL / MERGE / SET / SHOW / RESET / GRANT / REVOKE / PRAGMA ----
    "EXPLAIN SELECT * FROM t WHERE a = 1",
    "EXPLAIN ANALYZE VERBOSE SELECT * FROM t JOIN u ON t . a = u . a",
    "EXPLAIN ( ANALYZE , VERBOSE , FORMAT JSON ) SELECT a FROM t",
    "EXPLAIN INSERT INTO t VALUES ( 8 , 'e' , 0.0 )",
    "CALL f ( 1 , 'x' )",
    "MERGE INTO t AS x USING u AS y ON x . a = y . a WHEN MATCHED THEN UPDATE SET b = 'm' WHEN NOT MATCHED THEN INSERT ( a ) VALUES ( 9 )",
    "MERGE INTO t USING u ON t . a = u . a WHEN MATCHED THEN DELETE",
    "SET foreign_keys = ON",
    "SET SESSION foreign_keys TO OFF",
    "SET LOCAL foo = 1 , 2",
    "SHOW ALL",
    "SHOW foreign_keys",
    "RESET ALL",
    "RESET foreign_keys",
    "GRANT SELECT , INSERT ON TABLE t TO bob WITH GRANT OPTION",
    "GRANT ALL PRIVILEGES ON t TO bob , alice",
    "REVOKE SELECT ON t FROM bob CASCADE",
    "PRAGMA wal = ON",
    "PRAGMA synchronous ( FULL )",
    "PRAGMA wal_checkpoint",
    "PRAGMA join_memory_budget = 1048576",
    "PRAGMA wal = ON ;; INSERT INTO t VALUES ( 4 , 'w' , 1.0 )",
    "PRAGMA wal = ON ;; INSERT INTO t VALUES ( 4 , 'w' , 1.0 ) ;; PRAGMA wal_checkpoint",
];

/// extra seeds for the byte-level sub-space
const LEX_SEEDS: &[&str] = &[
    "SELECT 'é' , \"ü\" , 'a''b' , $$x$$ , /* c */ 1 -- t",
    "SELECT 0x1F , 0b10 , 1e10 , 1.e5 , .5e-3 , 1_000",
    "SELECT x'0g' , X'ABC' , b'01' , e'\\n' , U&'\\0041'",
    "SELECT $1,$a,:b,@c,?2,a::int,a->b,a->>b,a#>b,a#>>b,a@>b,a<@b,a<->b,a<#>b,a<=>b,a&&b,a||b,a<<b,a>>b,a<>b,a!=b,a<=b,a>=b",
    "SELECT 1;",
    "SELECT 'x",
    "SELECT \"x",
    "SELECT /* x",
    "SELECT 9223372036854775808 , -9223372036854775808 , 1e999 , 0x , 0b , 0xFFFFFFFFFFFFFFFFFF",
];

struct Seed {
    pre: Vec<String>,
    toks: Vec<&'static str>,
    kind: String,
}
fn seed_kind(toks: &[&str]) -> String {
    let f = toks.first().copied().unwrap_or("empty");
    if matches!(f, "CREATE" | "DROP" | "ALTER") {
        let mut s = toks.get(1).copied().unwrap_or("");
        if s == "UNIQUE" || s == "OR" {
            s = if s == "UNIQUE" { "INDEX" } else { toks.get(3).copied().unwrap_or("") };
        }
        if s == "MATERIALIZED" {
            s = "VIEW";
        }
        format!("{f}-{s}")
    } else {
        f.to_string()
    }
}
fn first_word(s: &str) -> String {
    let w: String = s.trim_start().chars().take_while(|c| c.is_ascii_alphabetic()).take(12).collect();
    if w.is_empty() {
        "nonword".into()
    } else {
        w.to_ascii_uppercase()
    }
}
fn pow(b: u64, e: u32) -> u64 {
    b.pow(e)
}

// ---- tok ------------------------------------------------------------------
fn tok_count(maxlen: u32) -> u64 {
    (0..=maxlen).map(|l| pow(37, l)).sum()
}
fn tok_gen(mut idx: u64) -> Act {
    let mut len = 0u32;
    while idx >= pow(37, len) {
        idx -= pow(37, len);
        len += 1;
    }
    let mut toks = vec![""; len as usize];
    for k in (0..len as usize).rev() {
        toks[k] = ALPHA[(idx % 37) as usize];
        idx /= 37;
    }
    let class = if len == 0 { "empty".to_string() } else { format!("first={}", toks[0].replace('*', "star")) };
    Act::sql(class, toks.join(" "))
}

// ---- mut ------------------------------------------------------------------
struct MutGen {
    seeds: Vec<Seed>,
    cum1: Vec<u64>, // cumulative count of single edits
    cum2: Vec<u64>, // cumulative count of pair edits
}
impl MutGen {
    fn new() -> MutGen {
        let mut seeds = Vec::new();
        for s in SEEDS {
            let parts: Vec<&'static str> = s.split(" ;; ").collect();
            let (main, pre) = parts.split_last().unwrap();
            let toks: Vec<&'static str> = main.split(' ').collect();
            let kind = seed_kind(&toks);
            seeds.push(Seed { pre: pre.iter().map(|p| p.to_string()).collect(), toks, kind });
        }
        let mut cum1 = vec![0u64];
        let mut cum2 = vec![0u64];
        for s in &seeds {
            let l = s.toks.len() as u64;
            cum1.push(cum1.last().unwrap() + 1 + l * (2 + 37));
            cum2.push(cum2.last().unwrap() + l * (l - 1) / 2 * 169);
        }
        MutGen { seeds, cum1, cum2 }
    }
    fn singles(&self) -> u64 {
        *self.cum1.last().unwrap()
    }
    fn pairs(&self) -> u64 {
        *self.cum2.last().unwrap()
    }
    fn gen(&self, idx: u64) -> Act {
        let n1 = self.singles();
        if idx < n1 {
            let s = self.cum1.partition_point(|&c| c <= idx) - 1;
            let seed = &self.seeds[s];
            let mut r = idx - self.cum1[s];
            let l = seed.toks.len() as u64;
            let mut toks: Vec<&str> = seed.toks.clone();
            let mut skip = false;
            if r > 0 {
                r -= 1;
                if r < l {
                    toks.remove(r as usize);
                } else if r < 2 * l {
                    let i = (r - l) as usize;
                    toks.insert(i, seed.toks[i]);
                } else {
                    let r = r - 2 * l;
                    let i = (r / 37) as usize;
                    let a = ALPHA[(r % 37) as usize];
                    skip = toks[i] == a;
                    toks[i] = a;
                }
            }
            let mut a = Act::sql(seed.kind.clone(), toks.join(" "));
            a.pre = seed.pre.clone();
            a.skip = skip;
            a
        } else {
            let idx = idx - n1;
            let s = self.cum2.partition_point(|&c| c <= idx) - 1;
            let seed = &self.seeds[s];
            let r = idx - self.cum2[s];
            let (mut p, e) = (r / 169, r % 169);
            let (e1, e2) = ((e / 13) as usize, (e % 13) as usize);
            let l = seed.toks.len();
            let mut i = 0usize;
            while p >= (l - 1 - i) as u64 {
                p -= (l - 1 - i) as u64;
                i += 1;
            }
            let j = i + 1 + p as usize;
            let mut toks: Vec<Option<&str>> = seed.toks.iter().map(|t| Some(*t)).collect();
            let mut skip = false;
            for (pos, e) in [(i, e1), (j, e2)] {
                if e == 0 {
                    toks[pos] = None;
                } else {
                    skip |= toks[pos] == Some(PAIR_ALPHA[e - 1]);
                    toks[pos] = Some(PAIR_ALPHA[e - 1]);
                }
            }
            let toks: Vec<&str> = toks.into_iter().flatten().collect();
            let mut a = Act::sql(seed.kind.clone(), toks.join(" "));
            a.pre = seed.pre.clone();
            a.skip = skip;
            a
        }
    }
}

// ---- lex ------------------------------------------------------------------
const LEX_R: [u8; 32] = [
    0, b'\n', b' ', b'\'', b'"', b'`', b'\\', b'-', b'/', b'*', b'$', b':', b'?', b';', b'(', b')', b'.', b'0', b'1', b'9', b'e', b'x', b'X', b'b', b'_', b'a', b'@', b'#', b'<', 0x7F, 0xC3, 0xFF,
];
const LEX_INS: [u8; 6] = [0, b'\'', b'"', 0x80, 0xFF, b'('];
struct LexGen {
    seeds: Vec<(&'static [u8], String)>,
    /// per seed cumulative counts of region R3 (8-or-256 substitutions, del, trunc, ins)
    cum3: Vec<u64>,
    /// region R5 (thorough): 256-value substitutions for seeds of 33..=64 bytes
    cum5: Vec<u64>,
}
const LEX_R0: u64 = 1 + 256 + 65536;
impl LexGen {
    fn new() -> LexGen {
        let mut seeds: Vec<(&'static [u8], String)> = Vec::new();
        for s in SEEDS.iter().chain(LEX_SEEDS.iter()) {
            let main = s.rsplit(" ;; ").next().unwrap();
            seeds.push((main.as_bytes(), first_word(main)));
        }
        let mut cum3 = vec![0u64];
        let mut cum5 = vec![0u64];
        for (b, _) in &seeds {
            let n = b.len() as u64;
            let per = if n <= 32 { 256 } else { 8 };
            cum3.push(cum3.last().unwrap() + n * per + n + n + (n + 1) * 6);
            cum5.push(cum5.last().unwrap() + if n > 32 && n <= 64 { n * 256 } else { 0 });
        }
        LexGen { seeds, cum3, cum5 }
    }
    fn quick(&self) -> u64 {
        2 * LEX_R0 + 32768 + self.cum3.last().unwrap()
    }
    fn thorough(&self) -> u64 {
        self.quick() + self.cum5.last().unwrap() + (1 << 24)
    }
    fn short(idx: u64) -> Vec<u8> {
        if idx == 0 {
            vec![]
        } else if idx < 257 {
            vec![(idx - 1) as u8]
        } else {
            let r = idx - 257;
            vec![(r >> 8) as u8, r as u8]
        }
    }
    fn gen(&self, mut idx: u64) -> Act {
        let mk = |class: &str, b: Vec<u8>| {
            let mut a = Act::sql(class, "");
            a.sql = Sql::Bytes(b);
            a
        };
        if idx < LEX_R0 {
            return mk("bytes-len<=2", Self::short(idx));
        }
        idx -= LEX_R0;
        if idx < LEX_R0 {
            let mut b = b"SELECT ".to_vec();
            b.extend(Self::short(idx));
            return mk("SELECT+bytes-len<=2", b);
        }
        idx -= LEX_R0;
        if idx < 32768 {
            let b = vec![LEX_R[(idx >> 10) as usize], LEX_R[((idx >> 5) & 31) as usize], LEX_R[(idx & 31) as usize]];
            return mk("bytes-len3-reduced", b);
        }
        idx -= 32768;
        let n3 = *self.cum3.last().unwrap();
        if idx < n3 {
            let s = self.cum3.partition_point(|&c| c <= idx) - 1;
            let (seed, kind) = &self.seeds[s];
            let mut r = idx - self.cum3[s];
            let n = seed.len() as u64;
            let per = if n <= 32 { 256 } else { 8 };
            let mut b = seed.to_vec();
            let class = format!("seedbytes-{kind}");
            if r < n * per {
                let (off, k) = ((r / per) as usize, r % per);
                let o = b[off];
                let v = if per == 256 { k as u8 } else { [0x00, 0x01, 0x7F, 0x80, 0xFE, 0xFF, o ^ 1, o ^ 0x80][k as usize] };
                let mut a = mk(&class, vec![]);
                a.skip = v == o;
                b[off] = v;
                a.sql = Sql::Bytes(b);
                return a;
            }
            r -= n * per;
            if r < n {
                b.remove(r as usize);
                return mk(&class, b);
            }
            r -= n;
            if r < n {
                b.truncate(r as usize);
                return mk(&class, b);
            }
            r -= n;
            b.insert((r / 6) as usize, LEX_INS[(r % 6) as usize]);
            return mk(&class, b);
        }
        idx -= n3;
        let n5 = *self.cum5.last().unwrap();
        if idx < n5 {
            let s = self.cum5.partition_point(|&c| c <= idx) - 1;
            let (seed, kind) = &self.seeds[s];
            let r = idx - self.cum5[s];
            let mut b = seed.to_vec();
            let off = (r / 256) as usize;
            let mut a = mk(&format!("seedbytes-{kind}"), vec![]);
            a.skip = b[off] == r as u8;
            b[off] = r as u8;
            a.sql = Sql::Bytes(b);
            return a;
        }
        idx -= n5;
        mk("bytes-len3", vec![(idx >> 16) as u8, (idx >> 8) as u8, idx as u8])
    }
}

// ---- par ------------------------------------------------------------------
/// (statement, number of placeholders it expects)
const PSEEDS: &[(&str, usize)] = &[
    ("SELECT ?", 1),
    ("SELECT ? + ?", 2),
    ("SELECT - ?", 1),
    ("SELECT * FROM t WHERE a = ?", 1),
    ("SELECT * FROM t WHERE b = ? AND a > ?", 2),
    ("SELECT * FROM t WHERE a IN (?, ?)", 2),
    ("SELECT * FROM t WHERE a BETWEEN ? AND ?", 2),
    ("SELECT * FROM t WHERE b LIKE ?", 1),
    ("SELECT * FROM t LIMIT ?", 1),
    ("SELECT * FROM t LIMIT ? OFFSET ?", 2),
    ("SELECT * FROM t ORDER BY ?", 1),
    ("SELECT ABS(?), LENGTH(?), UPPER(?)", 3),
    ("SELECT CAST(? AS INT), CAST(? AS TEXT)", 2),
    ("SELECT $1, $2", 2),
    ("SELECT $2", 2),
    ("SELECT $0", 1),
    ("SELECT :name", 1),
    ("SELECT $99999999999", 1),
    ("SELECT '?', ? -- ?", 1),
    ("SELECT a FROM u WHERE v <-> ? < 1", 1),
    ("SELECT j -> ? FROM u", 1),
    ("INSERT INTO t VALUES (?, ?, ?)", 3),
    ("INSERT INTO u (a, d) VALUES (?, ?)", 2),
    ("INSERT INTO u (a, j) VALUES (?, ?)", 2),
    ("INSERT INTO u (a, v) VALUES (?, ?)", 2),
    ("INSERT INTO u (a, e) VALUES (?, ?)", 2),
    ("UPDATE t SET b = ? WHERE a = ?", 2),
    ("UPDATE t SET a = ? WHERE a = 1", 1),
    ("UPDATE u SET d = d + ? WHERE a = ?", 2),
    ("DELETE FROM t WHERE a = ?", 1),
    ("SELECT 1", 0),
    ("INSERT INTO t VALUES (9, 'n', 0.5)", 0),
    ("CREATE TABLE p (a INT DEFAULT ?)", 1),
    ("PRAGMA wal = ?", 1),
    ("BEGIN", 0),
    ("EXPLAIN SELECT * FROM t WHERE a = ?", 1),
];
const PV_N: usize = 40;
fn pv(i: usize) -> OwnedValue {
    use OwnedValue::*;
    match i {
        0 => Null,
        1 => Bool(true),
        2 => Int(0),
        3 => Int(1),
        4 => Int(-1),
        5 => Int(i64::MAX),
        6 => Int(i64::MIN),
        7 => Float(1.5),
        8 => Float(f64::NAN),
        9 => Float(f64::INFINITY),
        10 => Float(-0.0),
        11 => Text(String::new()),
        12 => Text("x".into()),
        13 => Text("it's \\ \"q\" \0 é".into()),
        14 => Text("y".repeat(70_000)),
        15 => Blob(vec![]),
        16 => Blob(vec![0, 255, 39]),
        17 => Vector(vec![]),
        18 => Vector(vec![1.0, 2.0, 3.0]),
        19 => Vector(vec![f32::NAN, f32::INFINITY, -0.0]),
        20 => Vector(vec![0.5; 2000]),
        21 => Date(i32::MAX),
        22 => Date(i32::MIN),
        23 => Time(i64::MIN),
        24 => Timestamp(i64::MAX),
        25 => TimestampTz(i64::MAX, i32::MIN),
        26 => Uuid([0xFF; 16]),
        27 => MacAddr([0; 6]),
        28 => Inet4([255; 4]),
        29 => Inet6([0; 16]),
        30 => Interval(i64::MIN, i32::MIN, i32::MAX),
        31 => Point(f64::NAN, f64::INFINITY),
        32 => Box((0.0, 0.0), (f64::MAX, f64::MIN)),
        33 => Circle((0.0, 0.0), -1.0),
        34 => Jsonb(vec![]),
        35 => Jsonb(vec![0xFF; 5]),
        36 => Decimal(i128::MAX, i16::MAX),
        37 => Decimal(i128::MIN, i16::MIN),
        38 => Enum(u16::MAX, u16::MAX),
        _ => ToastPointer(vec![0xFF; 3]),
    }
}
struct ParGen {
    cum1: Vec<u64>,
    cum2: Vec<u64>,
}
impl ParGen {
    fn new() -> ParGen {
        let mut cum1 = vec![0u64];
        let mut cum2 = vec![0u64];
        for (_, n) in PSEEDS {
            let n = *n as u64;
            cum1.push(cum1.last().unwrap() + 3 * ((n + 3) + n * PV_N as u64 + PV_N as u64));
            cum2.push(cum2.last().unwrap() + if n >= 2 { 3 * (n * (n - 1) / 2) * (PV_N * PV_N) as u64 } else { 0 });
        }
        ParGen { cum1, cum2 }
    }
    fn gen(&self, idx: u64) -> Act {
        let n1 = *self.cum1.last().unwrap();
        let (s, params, mode, what) = if idx < n1 {
            let s = self.cum1.partition_point(|&c| c <= idx) - 1;
            let r = idx - self.cum1[s];
            let (mode, mut r) = ((r % 3) as u8, r / 3);
            let n = PSEEDS[s].1 as u64;
            if r < n + 3 {
                (s, vec![OwnedValue::Int(1); r as usize], mode, "arity")
            } else {
                r -= n + 3;
                if r < n * PV_N as u64 {
                    let mut p = vec![OwnedValue::Int(1); n as usize];
                    p[(r / PV_N as u64) as usize] = pv((r % PV_N as u64) as usize);
                    (s, p, mode, "type")
                } else {
                    r -= n * PV_N as u64;
                    (s, vec![pv(r as usize); n.max(1) as usize], mode, "alltype")
                }
            }
        } else {
            let idx = idx - n1;
            let s = self.cum2.partition_point(|&c| c <= idx) - 1;
            let r = idx - self.cum2[s];
            let (mode, r) = ((r % 3) as u8, r / 3);
            let n = PSEEDS[s].1;
            let pp = (PV_N * PV_N) as u64;
            let (mut p, vv) = (r / pp, r % pp);
            let mut i = 0usize;
            while p >= (n - 1 - i) as u64 {
                p -= (n - 1 - i) as u64;
                i += 1;
            }
            let j = i + 1 + p as usize;
            let mut ps = vec![OwnedValue::Int(1); n];
            ps[i] = pv((vv / PV_N as u64) as usize);
            ps[j] = pv((vv % PV_N as u64) as usize);
            (s, ps, mode, "typepair")
        };
        let sql = PSEEDS[s].0;
        let m = ["execute_with_params", "prepare-bind-execute", "prepare-bind-query"][mode as usize];
        let mut a = Act::sql(format!("{}.{m}.{what}", first_word(sql)), sql);
        a.params = Some((params, mode));
        a.also = false;
        a.post = vec!["SELECT * FROM t", "SELECT * FROM u", "SELECT j -> 'k', v <-> '[1,2,3]' FROM u"];
        a.limit_ms = 20_000;
        a
    }
}

// ---- prag -----------------------------------------------------------------
const PRAGMAS: [&str; 17] = [
    "WAL", "WAL_AUTOFLUSH", "SYNCHRONOUS", "JOIN_MEMORY_BUDGET", "MEMORY_BUDGET", "MEMORY_STATS", "PERSISTED_MEMORY_STATS", "WAL_CHECKPOINT", "WAL_CHECKPOINT_STATS", "WAL_CHECKPOINT_THRESHOLD",
    "WAL_FRAME_COUNT", "WAL_SIZE", "DATABASE_MODE", "RECOVER_WAL", "wal", "foo", "table_info",
];
const PVALS: [&str; 16] = ["0", "-1", "1", "2", "99999999999999999999", "18446744073709551615", "9223372036854775807", "'x'", "x", "ON", "OFF", "NORMAL", "FULL", "NULL", "1.5", "TRUE"];
const PRELUDES: [&[&str]; 3] = [&[], &["PRAGMA wal = ON", "INSERT INTO t VALUES (4, 'w', 1.0)"], &["BEGIN", "INSERT INTO t VALUES (4, 'w', 1.0)"]];
struct PragGen {
    singles: Vec<String>,
    reduced: Vec<String>,
}
impl PragGen {
    fn new() -> PragGen {
        let mut singles = Vec::new();
        let mut reduced = Vec::new();
        for n in PRAGMAS {
            singles.push(format!("PRAGMA {n}"));
            reduced.push(format!("PRAGMA {n}"));
            for v in PVALS {
                singles.push(format!("PRAGMA {n} = {v}"));
                singles.push(format!("PRAGMA {n} ( {v} )"));
                singles.push(format!("PRAGMA {n} {v}"));
            }
            for v in ["0", "1", "-1", "99999999999999999999", "ON", "OFF"] {
                reduced.push(format!("PRAGMA {n} = {v}"));
            }
        }
        for scope in ["", "SESSION ", "LOCAL ", "GLOBAL "] {
            for n in ["foreign_keys", "foo", "wal"] {
                for v in PVALS {
                    singles.push(format!("SET {scope}{n} = {v}"));
                    singles.push(format!("SET {scope}{n} TO {v}"));
                }
                singles.push(format!("SET {scope}{n}"));
                singles.push(format!("SHOW {n}"));
                singles.push(format!("RESET {n}"));
            }
        }
        PragGen { singles, reduced }
    }
    /// layout (tier independent): A = every single statement on the plain database;
    /// B = reduced statement list after each of the two preludes (WAL on + insert,
    /// open transaction + insert); [quick ends] C = every single statement after the
    /// two preludes (those of B are skipped); D = every ordered pair of the reduced list.
    fn quick(&self) -> u64 {
        (self.singles.len() + 2 * self.reduced.len()) as u64
    }
    fn thorough(&self) -> u64 {
        self.quick() + (2 * self.singles.len() + self.reduced.len() * self.reduced.len()) as u64
    }
    fn gen(&self, idx: u64) -> Act {
        let (ns, nr) = (self.singles.len(), self.reduced.len());
        let idx = idx as usize;
        let mut a;
        if idx < ns {
            let sql = &self.singles[idx];
            a = Act::sql(pragma_class(sql), sql.clone());
        } else if idx < ns + 2 * nr {
            let r = idx - ns;
            let sql = &self.reduced[r % nr];
            a = Act::sql(pragma_class(sql), sql.clone());
            a.pre = PRELUDES[1 + r / nr].iter().map(|s| s.to_string()).collect();
        } else if idx < ns + 2 * nr + 2 * ns {
            let r = idx - ns - 2 * nr;
            let sql = &self.singles[r % ns];
            a = Act::sql(pragma_class(sql), sql.clone());
            a.pre = PRELUDES[1 + r / ns].iter().map(|s| s.to_string()).collect();
            a.skip = self.reduced.contains(sql);
        } else {
            let r = idx - 3 * ns - 2 * nr;
            let (x, y) = (r / nr, r % nr);
            a = Act::sql(pragma_class(&self.reduced[y]), self.reduced[y].clone());
            a.pre = vec![self.reduced[x].clone()];
        }
        a.post = vec!["SELECT COUNT(*) FROM t"];
        a.limit_ms = 20_000;
        a
    }
}
fn pragma_class(sql: &str) -> String {
    let mut it = sql.split(' ');
    let k = it.next().unwrap_or("");
    let mut n = it.next().unwrap_or("");
    if matches!(n, "SESSION" | "LOCAL" | "GLOBAL") {
        n = it.next().unwrap_or("");
    }
    format!("{k}-{}", n.to_ascii_uppercase())
}

// ---- arith ----------------------------------------------------------------
const AOPS: [(&str, &str); 19] = [
    ("+", "add"), ("-", "sub"), ("*", "mul"), ("/", "div"), ("%", "mod"), ("^", "pow"), ("||", "concat"), ("&", "band"), ("|", "bor"), ("<<", "shl"), (">>", "shr"), ("=", "eq"), ("<>", "ne"), ("<", "lt"),
    ("<=", "le"), (">", "gt"), (">=", "ge"), ("AND", "and"), ("OR", "or"),
];
const AVALS: [(&str, &str); 20] = [
    ("-9223372036854775808", "minlit"), ("( -9223372036854775807 - 1 )", "int"), ("9223372036854775807", "int"), ("9223372036854775808", "biglit"), ("-1", "int"), ("0", "int"), ("1", "int"), ("2", "int"), ("63", "int"),
    ("64", "int"), ("1.5", "float"), ("1e308", "float"), ("NULL", "null"), ("'x'", "text"), ("TRUE", "bool"), ("a", "col"), ("d", "col"), ("c", "col"), ("x'00'", "blob"), ("99999999999999999999999", "biglit"),
];
const AUNARY: [(&str, &str); 5] = [("-", "neg"), ("+", "pos"), ("~", "bnot"), ("NOT", "not"), ("- -", "negneg")];
/// contexts: {e} is replaced by the expression
const ACTX: [(&str, &str); 7] = [
    ("SELECT {e}", "const"),
    ("SELECT {e} FROM u", "proj"),
    ("SELECT a FROM u WHERE {e}", "where"),
    ("SELECT a FROM u WHERE ( {e} ) > 0", "wherecmp"),
    ("SELECT a FROM u ORDER BY {e}", "orderby"),
    ("UPDATE u SET d = {e} WHERE a = 1", "update"),
    ("INSERT INTO u ( a , d ) VALUES ( 7 , {e} )", "insert"),
];
const LIMVALS: [&str; 10] = ["0", "1", "-1", "9223372036854775807", "-9223372036854775808", "9223372036854775808", "18446744073709551616", "1.5", "NULL", "'x'"];
const AGGS: [&str; 14] = [
    "SELECT SUM ( d ) FROM u", "SELECT AVG ( d ) FROM u", "SELECT SUM ( d ) , COUNT ( * ) FROM u GROUP BY e", "SELECT SUM ( d ) OVER ( ORDER BY a ) FROM u", "SELECT TOTAL ( d ) FROM u", "SELECT SUM ( d + 0 ) FROM u WHERE a = 2 OR a = 1",
    "SELECT SUM ( - d ) FROM u", "SELECT MAX ( d ) + 1 FROM u", "SELECT MIN ( d ) - 1 FROM u", "SELECT AVG ( d ) OVER ( ) FROM u", "SELECT SUM ( a ) FROM u GROUP BY d HAVING SUM ( d ) > 0", "SELECT d * d FROM u", "SELECT ABS ( d ) FROM u", "SELECT - d FROM u",
];
fn arith_count() -> u64 {
    (ACTX.len() * (AVALS.len() * AOPS.len() * AVALS.len() + AUNARY.len() * AVALS.len()) + LIMVALS.len() * LIMVALS.len() + AGGS.len()) as u64
}
fn arith_gen(idx: u64) -> Act {
    let idx = idx as usize;
    let nb = AVALS.len() * AOPS.len() * AVALS.len();
    let nu = AUNARY.len() * AVALS.len();
    let per = nb + nu;
    let mut a;
    if idx < ACTX.len() * per {
        let (c, r) = (idx / per, idx % per);
        let (e, class) = if r < nb {
            let (l, o, rr) = (r / (AOPS.len() * AVALS.len()), (r / AVALS.len()) % AOPS.len(), r % AVALS.len());
            (format!("{} {} {}", AVALS[l].0, AOPS[o].0, AVALS[rr].0), format!("{}-{}-{}", AVALS[l].1, AOPS[o].1, AVALS[rr].1))
        } else {
            let r = r - nb;
            let (u, v) = (r / AVALS.len(), r % AVALS.len());
            (format!("{} {}", AUNARY[u].0, AVALS[v].0), format!("{}-{}", AUNARY[u].1, AVALS[v].1))
        };
        a = Act::sql(format!("{}:{}", ACTX[c].1, class), ACTX[c].0.replace("{e}", &e));
    } else {
        let r = idx - ACTX.len() * per;
        if r < LIMVALS.len() * LIMVALS.len() {
            let (l, o) = (r / LIMVALS.len(), r % LIMVALS.len());
            a = Act::sql("limit-offset", format!("SELECT a FROM t LIMIT {} OFFSET {}", LIMVALS[l], LIMVALS[o]));
        } else {
            a = Act::sql("aggregate", AGGS[r - LIMVALS.len() * LIMVALS.len()]);
        }
    }
    a.post = vec!["SELECT * FROM u"];
    a
}

// ---- fn -------------------------------------------------------------------
const FUNCS: &[&str] = &[
    "ABS", "SIGN", "MOD", "DIV", "CEIL", "CEILING", "FLOOR", "ROUND", "TRUNCATE", "TRUNC", "SQRT", "POW", "POWER", "EXP", "LN", "LOG", "LOG2", "LOG10", "SIN", "COS", "TAN", "ASIN", "ACOS", "ATAN", "ATAN2", "COT", "DEGREES",
    "RADIANS", "PI", "RAND", "RANDOM", "GREATEST", "LEAST", "ASCII", "CHAR_LENGTH", "CHARACTER_LENGTH", "LENGTH", "LEN", "OCTET_LENGTH", "UPPER", "UCASE", "LOWER", "LCASE", "LEFT", "RIGHT", "SUBSTR", "SUBSTRING", "MID",
    "SUBSTRING_INDEX", "INSTR", "LOCATE", "POSITION", "FIELD", "FIND_IN_SET", "CONCAT", "CONCAT_WS", "LPAD", "RPAD", "LTRIM", "RTRIM", "TRIM", "REPLACE", "REVERSE", "REPEAT", "SPACE", "INSERT", "STRCMP", "FORMAT", "NOW",
    "CURRENT_TIMESTAMP", "LOCALTIME", "SYSDATE", "CURDATE", "CURRENT_DATE", "CURTIME", "CURRENT_TIME", "DATE", "TIME", "YEAR", "MONTH", "DAY", "DAYOFMONTH", "HOUR", "MINUTE", "SECOND", "MICROSECOND", "DAYNAME", "MONTHNAME",
    "DAYOFWEEK", "DAYOFYEAR", "WEEKDAY", "WEEK", "WEEKOFYEAR", "YEARWEEK", "QUARTER", "DATE_ADD", "ADDDATE", "DATE_SUB", "SUBDATE", "ADDTIME", "SUBTIME", "DATEDIFF", "TIMEDIFF", "TO_DAYS", "FROM_DAYS", "TIME_TO_SEC", "SEC_TO_TIME",
    "MAKEDATE", "MAKETIME", "TIMESTAMP", "LAST_DAY", "PERIOD_ADD", "PERIOD_DIFF", "DATE_FORMAT", "STRFTIME", "TIME_FORMAT", "STR_TO_DATE", "VERSION", "DATABASE", "CURRENT_DATABASE", "USER", "CURRENT_USER", "CONNECTION_ID",
    "LAST_INSERT_ID", "TYPEOF", "IF", "IIF", "IFNULL", "NVL", "NULLIF", "COALESCE", "ISNULL", "BIN", "CONV", "COUNT", "SUM", "AVG", "MIN", "MAX", "ROW_NUMBER", "RANK", "DENSE_RANK", "LAG", "LEAD", "NTILE", "FIRST_VALUE",
    "nosuchfunction",
];
const FVALS: [&str; 12] = ["NULL", "0", "1", "-1", "9223372036854775807", "-9223372036854775808", "1.5", "'x'", "''", "'2024-02-30 25:61:61'", "TRUE", "d"];
const FVALS3: [usize; 6] = [0, 2, 4, 5, 7, 9];
const FN_PER_Q: u64 = 1 + 12 + 144 + 216;
fn fn_gen(idx: u64) -> Act {
    // quick region: arity 0..2 full, arity 3 over FVALS3; thorough region: arity 3 full
    let nq = FUNCS.len() as u64 * FN_PER_Q;
    let (f, args): (usize, Vec<&str>) = if idx < nq {
        let (f, r) = ((idx / FN_PER_Q) as usize, idx % FN_PER_Q);
        let args = if r == 0 {
            vec![]
        } else if r < 13 {
            vec![FVALS[(r - 1) as usize]]
        } else if r < 157 {
            let r = r - 13;
            vec![FVALS[(r / 12) as usize], FVALS[(r % 12) as usize]]
        } else {
            let r = r - 157;
            vec![FVALS[FVALS3[(r / 36) as usize]], FVALS[FVALS3[((r / 6) % 6) as usize]], FVALS[FVALS3[(r % 6) as usize]]]
        };
        (f, args)
    } else {
        let r = idx - nq;
        let (f, r) = ((r / 1728) as usize, r % 1728);
        (f, vec![FVALS[(r / 144) as usize], FVALS[((r / 12) % 12) as usize], FVALS[(r % 12) as usize]])
    };
    let call = format!("{} ( {} )", FUNCS[f], args.join(" , "));
    let sql = if args.contains(&"d") { format!("SELECT {call} FROM u") } else { format!("SELECT {call}") };
    Act::sql(format!("fn-{}", FUNCS[f]), sql)
}

// ---- big (each case in its own child process) -----------------------------
const NEST: [&str; 16] = ["paren", "not", "neg", "plus-chain", "and-chain", "or-chain", "concat-chain", "scalar-subquery", "from-subquery", "case", "function", "array", "cast-chain", "union-chain", "cte", "in-subquery"];
const DEPTHS: [usize; 4] = [10, 100, 1000, 10000];
const BIG_MISC: [&str; 22] = [
    "ident-1MB", "table-ident-1MB", "string-1MB", "insert-string-1MB", "blob-1MB", "number-1MB-digits", "comment-1MB", "spaces-1MB", "lparens-1MB", "semicolons-1MB", "quoted-ident-1MB", "unterminated-string-1MB",
    "create-table-1000-columns", "in-list-10000", "values-10000-rows", "select-list-10000", "join-chain-10", "join-chain-30", "where-params-1000", "like-pattern-percent-10000", "repeat-nested", "order-by-1000-keys",
];
fn big_count() -> u64 {
    (NEST.len() * DEPTHS.len() + BIG_MISC.len()) as u64
}
fn nest_sql(kind: &str, d: usize) -> String {
    match kind {
        "paren" => format!("SELECT {}1{}", "(".repeat(d), ")".repeat(d)),
        "not" => format!("SELECT {}TRUE", "NOT ".repeat(d)),
        "neg" => format!("SELECT {}1", "- ".repeat(d)),
        "plus-chain" => format!("SELECT 1{}", " + 1".repeat(d)),
        "and-chain" => format!("SELECT a FROM t WHERE a = 1{}", " AND a = 1".repeat(d)),
        "or-chain" => format!("SELECT a FROM t WHERE a = 1{}", " OR a = 1".repeat(d)),
        "concat-chain" => format!("SELECT 'x'{}", " || 'x'".repeat(d)),
        "scalar-subquery" => format!("SELECT {}1{}", "(SELECT ".repeat(d), ")".repeat(d)),
        "from-subquery" => format!("SELECT * FROM {}t{}", "(SELECT * FROM ".repeat(d), ") AS s".repeat(d)),
        "case" => format!("SELECT {}1{}", "CASE WHEN TRUE THEN ".repeat(d), " END".repeat(d)),
        "function" => format!("SELECT {}1{}", "ABS(".repeat(d), ")".repeat(d)),
        "array" => format!("SELECT {}1{}", "[".repeat(d), "]".repeat(d)),
        "cast-chain" => format!("SELECT 1{}", "::INT".repeat(d)),
        "union-chain" => format!("SELECT 1{}", " UNION SELECT 1".repeat(d)),
        "cte" => {
            let mut s = String::from("WITH q0 AS (SELECT 1 AS x)");
            for i in 1..d {
                s.push_str(&format!(", q{i} AS (SELECT x FROM q{})", i - 1));
            }
            s.push_str(&format!(" SELECT x FROM q{}", d - 1));
            s
        }
        _ => format!("SELECT a FROM t WHERE {}1{}", "a IN (SELECT a FROM t WHERE ".repeat(d), " = 1".to_string() + &")".repeat(d)),
    }
}
fn big_gen(idx: u64) -> Act {
    let idx = idx as usize;
    let nn = NEST.len() * DEPTHS.len();
    let mut a;
    if idx < nn {
        // depth-major: all constructs at depth 10 first
        let (d, k) = (DEPTHS[idx / NEST.len()], NEST[idx % NEST.len()]);
        a = Act::sql(format!("{k}-depth-{d}"), nest_sql(k, d));
    } else {
        let name = BIG_MISC[idx - nn];
        const MB: usize = 1 << 20;
        let mut pre = vec![];
        let mut post: Vec<&'static str> = vec![];
        let sql = match name {
            "ident-1MB" => format!("SELECT {}", "a".repeat(MB)),
            "table-ident-1MB" => format!("CREATE TABLE {} (a INT)", "w".repeat(MB)),
            "string-1MB" => format!("SELECT '{}'", "x".repeat(MB)),
            "insert-string-1MB" => {
                post = vec!["SELECT LENGTH(b) FROM t", "SELECT * FROM t WHERE b = 'x'", "UPDATE t SET b = 'short' WHERE a = 9", "DELETE FROM t WHERE a = 9"];
                format!("INSERT INTO t VALUES (9, '{}', 0.0)", "x".repeat(MB))
            }
            "blob-1MB" => format!("SELECT x'{}'", "ab".repeat(MB / 2)),
            "number-1MB-digits" => format!("SELECT 1{}", "0".repeat(MB)),
            "comment-1MB" => format!("SELECT /*{}*/ 1", "c".repeat(MB)),
            "spaces-1MB" => format!("SELECT{}1", " ".repeat(MB)),
            "lparens-1MB" => "(".repeat(MB),
            "semicolons-1MB" => ";".repeat(MB),
            "quoted-ident-1MB" => format!("SELECT \"{}\" FROM t", "q".repeat(MB)),
            "unterminated-string-1MB" => format!("SELECT '{}", "x".repeat(MB)),
            "create-table-1000-columns" => {
                pre.push(format!("CREATE TABLE w ({})", (0..1000).map(|i| format!("c{i} INT")).collect::<Vec<_>>().join(", ")));
                pre.push(format!("INSERT INTO w VALUES ({})", (0..1000).map(|i| i.to_string()).collect::<Vec<_>>().join(", ")));
                post = vec!["SELECT c999 FROM w WHERE c0 = 0", "UPDATE w SET c500 = 1", "DROP TABLE w"];
                "SELECT * FROM w".to_string()
            }
            "in-list-10000" => format!("SELECT a FROM t WHERE a IN ({})", (0..10000).map(|i| i.to_string()).collect::<Vec<_>>().join(", ")),
            "values-10000-rows" => {
                post = vec!["SELECT COUNT(*) FROM u", "SELECT SUM(a) FROM u WHERE d = 1"];
                format!("INSERT INTO u (a, d) VALUES {}", (0..10000).map(|i| format!("({i}, 1)")).collect::<Vec<_>>().join(", "))
            }
            "select-list-10000" => format!("SELECT {}", vec!["1"; 10000].join(", ")),
            "join-chain-10" | "join-chain-30" => {
                let n = if name == "join-chain-10" { 10 } else { 30 };
                let mut s = String::from("SELECT t0.a FROM t t0");
                for i in 1..n {
                    s.push_str(&format!(" JOIN t t{i} ON t{i}.a = t{}.a", i - 1));
                }
                s
            }
            "where-params-1000" => format!("SELECT a FROM t WHERE a = 1{}", " OR a = ?".repeat(1000)),
            "like-pattern-percent-10000" => format!("SELECT '{}' LIKE '{}b'", "a".repeat(10000), "%a".repeat(5000)),
            "repeat-nested" => "SELECT LENGTH ( REPEAT ( REPEAT ( 'x' , 1000 ) , 1000 ) )".to_string(),
            _ => format!("SELECT a FROM t ORDER BY {}", (0..1000).map(|i| format!("a + {i}")).collect::<Vec<_>>().join(", ")),
        };
        a = Act::sql(name, sql);
        a.pre = pre;
        a.post = post;
    }
    // generous: super-linear but finite work is not a hang (depth-1000 nesting takes seconds)
    a.limit_ms = 60_000;
    a.also = true;
    a
}

// ---- api ------------------------------------------------------------------
const API_OPS: [&str; 13] = ["insert", "update", "query", "prepare", "bind-execute", "close", "checkpoint", "clone", "drop", "reopen", "begin", "commit", "wal-on"];
fn api_count(maxlen: u32) -> u64 {
    (1..=maxlen).map(|l| pow(13, l)).sum()
}
fn api_gen(mut idx: u64) -> Act {
    let mut len = 1u32;
    while idx >= pow(13, len) {
        idx -= pow(13, len);
        len += 1;
    }
    let mut ops = vec![0u8; len as usize];
    for k in (0..len as usize).rev() {
        ops[k] = (idx % 13) as u8;
        idx /= 13;
    }
    let mut a = Act::sql("api", "");
    a.api = Some(ops);
    a.limit_ms = 20_000;
    a
}

// ---------------------------------------------------------------------------
// sub-space table
// ---------------------------------------------------------------------------
struct Gens {
    m: MutGen,
    l: LexGen,
    p: ParGen,
    g: PragGen,
}
struct SubDef {
    name: &'static str,
    /// cases per shared database (1 = fresh database for every case)
    block: u64,
    quick: u64,
    thorough: u64,
    /// count cases with rep.bulk (distinct by construction) instead of hashing
    bulk: bool,
    /// share (percent, quick / thorough) of the wall cap after which the sub-space
    /// is cut so that the following ones still get their turn on an overloaded
    /// machine; unused time rolls over.  On an idle 16-core machine no share is reached.
    share: (u64, u64),
}
impl Gens {
    fn new() -> Gens {
        Gens { m: MutGen::new(), l: LexGen::new(), p: ParGen::new(), g: PragGen::new() }
    }
    fn subs(&self) -> Vec<SubDef> {
        let fq = FUNCS.len() as u64 * FN_PER_Q;
        vec![
            // cheap and defect-dense sub-spaces first, the bulk enumerations last (a deadline cuts the tail)
            SubDef { share: (5, 5), name: "prag", block: 16, quick: self.g.quick(), thorough: self.g.thorough(), bulk: false },
            SubDef { share: (5, 2), name: "arith", block: 256, quick: arith_count(), thorough: arith_count(), bulk: false },
            SubDef { share: (5, 3), name: "fn", block: 256, quick: fq, thorough: fq + FUNCS.len() as u64 * 1728, bulk: false },
            SubDef { share: (8, 5), name: "par", block: 128, quick: *self.p.cum1.last().unwrap(), thorough: self.p.cum1.last().unwrap() + self.p.cum2.last().unwrap(), bulk: false },
            SubDef { share: (20, 5), name: "big", block: 1, quick: big_count(), thorough: big_count(), bulk: false },
            SubDef { share: (15, 15), name: "api", block: 1, quick: api_count(3), thorough: api_count(4), bulk: false },
            SubDef { share: (15, 35), name: "tok", block: 512, quick: tok_count(4), thorough: tok_count(5), bulk: true },
            SubDef { share: (12, 15), name: "mut", block: 256, quick: self.m.singles(), thorough: self.m.singles() + self.m.pairs(), bulk: false },
            SubDef { share: (15, 15), name: "lex", block: 1024, quick: self.l.quick(), thorough: self.l.thorough(), bulk: true },
        ]
    }
    fn gen(&self, sub: &str, idx: u64) -> Act {
        match sub {
            "tok" => tok_gen(idx),
            "prag" => self.g.gen(idx),
            "arith" => arith_gen(idx),
            "fn" => {
                let mut a = fn_gen(idx);
                let nq = FUNCS.len() as u64 * FN_PER_Q;
                if idx >= nq {
                    // arity-3 tuples already enumerated in the quick region
                    let r = (idx - nq) % 1728;
                    let ix = [(r / 144) as usize, ((r / 12) % 12) as usize, (r % 12) as usize];
                    a.skip = ix.iter().all(|i| FVALS3.contains(i));
                }
                a
            }
            "par" => self.p.gen(idx),
            "mut" => self.m.gen(idx),
            "lex" => self.l.gen(idx),
            "api" => api_gen(idx),
            "big" => big_gen(idx),
            _ => Act::sql("unknown-sub", ""),
        }
    }
}

/// Input classes that are recorded known findings AND kill the worker process
/// (abort / stack overflow / hang): excluded from the in-process enumeration
/// (they would truncate the owning worker's slice) and re-confirmed by the
/// explicit isolated cases in `KILL_CASES`.  Returns the finding id.
fn known_killer(sub: &str, act: &Act) -> Option<&'static str> {
    if sub == "fn" {
        let Sql::Text(s) = &act.sql else { return None };
        let f = act.class.strip_prefix("fn-").unwrap_or("");
        let args: Vec<&str> = s.split_once("( ").and_then(|x| x.1.rsplit_once(" )")).map(|x| x.0.split(" , ").collect()).unwrap_or_default();
        const MAX: &str = "9223372036854775807";
        // KF-C22-K1: REPEAT / SPACE / LPAD request a string of i64::MAX bytes from the
        //            allocator -> handle_alloc_error -> abort
        // KF-C22-K2: RPAD appends pad characters in a loop of `count as usize` iterations
        //            (i64::MAX, or 2^64-1 for -1): never returns, dies when memory runs out
        // (`d` is the fixture column that holds i64::MAX and i64::MIN)
        let count = args.get(if f == "SPACE" { 0 } else { 1 }).copied().unwrap_or("");
        return match f {
            "REPEAT" | "LPAD" | "SPACE" if count == MAX || count == "d" => Some("KF-C22-K1"),
            "RPAD" if count == MAX || count == "d" || count == "-1" => Some("KF-C22-K2"),
            _ => None,
        };
    }
    None
}
/// explicit (sub, exact statement text) cases run in a child process by the owning worker, last
const KILL_CASES: &[(&str, &str)] = &[
    ("fn", "SELECT REPEAT ( 'x' , 9223372036854775807 )"),
    ("fn", "SELECT SPACE ( 9223372036854775807 )"),
    ("fn", "SELECT LPAD ( 'x' , 9223372036854775807 , 'x' )"),
    ("fn", "SELECT RPAD ( 'x' , 9223372036854775807 , 'x' )"),
];

// ---------------------------------------------------------------------------
// execution environment
// ---------------------------------------------------------------------------
const ST_CASES: usize = 0;
const ST_ROWS: usize = 1;
const ST_CHANGED: usize = 2;
const ST_ERR_PARSE: usize = 3;
const ST_ERR_OTHER: usize = 4;
const ST_PANIC: usize = 5;
const ST_SKIP: usize = 6;
const ST_CALLS: usize = 7;
const ST_RECREATE: usize = 8;
const ST_REPAIR: usize = 9;
const ST_NAMES: [&str; 10] = ["cases", "ok_rows", "ok_changed", "err_parse", "err_exec", "panic", "skipped_identity_edit", "calls", "db_recreated", "db_repaired_in_place"];

struct Env {
    scratch: PathBuf,
    db: Option<Tdb>,
    tpl: PathBuf,
    stats: BTreeMap<&'static str, [u64; 10]>,
    seen: BTreeSet<String>,
    invalid_utf8: u64,
}
impl Env {
    fn new(ctx: &Ctx) -> Env {
        Env { scratch: ctx.scratch.clone(), db: None, tpl: make_template(&ctx.scratch), stats: BTreeMap::new(), seen: BTreeSet::new(), invalid_utf8: 0 }
    }
    fn fresh(&mut self, rep: &mut Reporter) {
        rep.begin_case("{\"fixture\":true}");
        let t0 = Instant::now();
        self.db = None;
        let t1 = Instant::now();
        let t = Tdb::open_copy(&self.tpl, &self.scratch, "db");
        if slow_log() && t0.elapsed() > Duration::from_millis(5) {
            eprintln!("slowfresh drop {:?} open_copy {:?}", t1 - t0, t1.elapsed());
        }
        self.db = Some(t);
    }
    fn st(&mut self, sub: &'static str) -> &mut [u64; 10] {
        self.stats.entry(sub).or_insert([0; 10])
    }
    fn flush(&mut self, rep: &mut Reporter) {
        for (sub, st) in std::mem::take(&mut self.stats) {
            for (i, n) in ST_NAMES.iter().enumerate() {
                rep.count(&format!("{sub}.{n}"), st[i]);
                if st[i] > 0 && (1..=5).contains(&i) {
                    rep.outcome(&format!("{sub}:{n}"));
                }
            }
        }
        rep.count("lex.inputs_invalid_utf8_fed_lossy", self.invalid_utf8);
        self.invalid_utf8 = 0;
    }
}
/// A database directory with its (optional) open handle; dropping closes the
/// handle first and then removes the directory.
struct Tdb {
    db: Option<Database>,
    dir: PathBuf,
}
impl Tdb {
    fn db(&self) -> &Database {
        self.db.as_ref().expect("database is open")
    }
    /// Fresh copy of the template database, opened.  (Copy + open costs ~1.4 ms,
    /// re-running the fixture statements ~4 ms.)
    fn open_copy(tpl: &std::path::Path, base: &std::path::Path, name: &str) -> Tdb {
        let dir = base.join(name);
        let _ = std::fs::remove_dir_all(&dir);
        copy_dir(tpl, &dir);
        match vcore::catch(|| Database::open(&dir).map_err(|e| format!("{e:#}"))) {
            Ok(Ok(db)) => Tdb { db: Some(db), dir },
            Ok(Err(e)) => fixture_failed(&format!("Database::open of the template copy: {e}")),
            Err(p) => fixture_failed(&format!("Database::open of the template copy panicked: {p}")),
        }
    }
}
impl Drop for Tdb {
    fn drop(&mut self) {
        let db = self.db.take();
        let _ = vcore::catch(move || drop(db));
        let _ = std::fs::remove_dir_all(&self.dir);
    }
}
/// The fixture database, built once per process with the real API and closed.
fn make_template(scratch: &std::path::Path) -> PathBuf {
    let dir = scratch.join("tpl");
    let _ = std::fs::remove_dir_all(&dir);
    std::fs::create_dir_all(scratch).ok();
    let db = match vcore::catch(|| Database::create(&dir).map_err(|e| format!("{e:#}"))) {
        Ok(Ok(db)) => db,
        o => fixture_failed(&format!("Database::create: {:?}", o.map(|r| r.map(|_| ())))),
    };
    for s in FIXTURE {
        match do_exec(&db, s) {
            Out::Changed(_) => {}
            o => fixture_failed(&format!("{s}: {o:?}")),
        }
    }
    if let Err(p) = vcore::catch(move || drop(db)) {
        fixture_failed(&format!("drop of the template handle panicked: {p}"));
    }
    dir
}
fn copy_dir(from: &std::path::Path, to: &std::path::Path) {
    std::fs::create_dir_all(to).expect("mkdir");
    for e in std::fs::read_dir(from).expect("read_dir").flatten() {
        let p = e.path();
        let q = to.join(e.file_name());
        if p.is_dir() {
            copy_dir(&p, &q);
        } else {
            std::fs::copy(&p, &q).expect("copy");
        }
    }
}
/// triage aid: C22_PREPARE_ONLY=1 makes a hand-started replay run the parser only
fn prepare_only() -> bool {
    static F: OnceLock<bool> = OnceLock::new();
    *F.get_or_init(|| std::env::var_os("C22_PREPARE_ONLY").is_some())
}
/// development aid: C22_SLOW=1 prints slow cases / drops of a hand-started worker
fn slow_log() -> bool {
    static F: OnceLock<bool> = OnceLock::new();
    *F.get_or_init(|| std::env::var_os("C22_SLOW").is_some())
}
fn fixture_failed(why: &str) -> ! {
    eprintln!("MACHINERY-ERROR: C22 fixture database could not be created: {why}");
    std::process::exit(3)
}

fn exec_params(db: &Database, sql: &str, params: &[OwnedValue], mode: u8) -> Out {
    if mode == 0 {
        return match vcore::catch(|| classify(db.execute_with_params(sql, params).map_err(|e| format!("{e:#}")))) {
            Ok(o) => o,
            Err(p) => Out::Panic(p),
        };
    }
    let (o, prep) = do_prepare(db, sql);
    let Some(prep) = prep else { return o };
    let r = vcore::catch(|| {
        if params.is_empty() {
            return classify(db.execute_with_cached_plan(&prep, &[]).map_err(|e| format!("{e:#}")));
        }
        let mut b = prep.bind(params[0].clone());
        for v in &params[1..] {
            b = b.bind(v.clone());
        }
        if mode == 1 {
            classify(b.execute(db).map_err(|e| format!("{e:#}")))
        } else {
            match b.query(db) {
                Ok(_) => Out::Rows,
                Err(e) => Out::Err(format!("{e:#}")),
            }
        }
    });
    match r {
        Ok(o) => o,
        Err(p) => Out::Panic(p),
    }
}

/// Run one API op sequence on its own fresh database.
fn run_api(tpl: &std::path::Path, scratch: &std::path::Path, ops: &[u8]) -> Vec<(String, Out)> {
    let mut outs: Vec<(String, Out)> = Vec::new();
    let mut t = Tdb::open_copy(tpl, scratch, "apidb");
    let dir = t.dir.clone();
    let mut handles: Vec<Database> = vec![t.db.take().unwrap()];
    let mut prepared: Option<PreparedStatement> = None;
    let mut closed = false;
    let wrap = |r: Result<Result<(), String>, String>| match r {
        Ok(Ok(())) => Out::Changed(true),
        Ok(Err(e)) => Out::Err(e),
        Err(p) => Out::Panic(p),
    };
    for (step, &op) in ops.iter().enumerate() {
        let name = API_OPS[op as usize];
        let label = format!("{name}{}", if closed { "-after-close" } else { "" });
        if handles.is_empty() && op != 9 {
            outs.push((format!("{name}-no-live-handle"), Out::Err("skipped: no live handle".into())));
            continue;
        }
        let out = match op {
            0 => do_exec(handles.last().unwrap(), &format!("INSERT INTO t VALUES ({}, 'n', 0.5)", 10 + step)),
            1 => do_exec(handles.last().unwrap(), "UPDATE t SET b = 'z' WHERE a = 1"),
            2 => do_query(handles.last().unwrap(), "SELECT * FROM t"),
            3 => {
                let (o, p) = do_prepare(handles.last().unwrap(), "INSERT INTO u (a, d) VALUES (?, ?)");
                if p.is_some() {
                    prepared = p;
                }
                o
            }
            4 => {
                let db = handles.last().unwrap();
                if prepared.is_none() {
                    prepared = do_prepare(db, "INSERT INTO u (a, d) VALUES (?, ?)").1;
                }
                match &prepared {
                    None => Out::Err("prepare failed".into()),
                    Some(p) => match vcore::catch(|| classify(p.bind(OwnedValue::Int(100 + step as i64)).bind(OwnedValue::Int(1)).execute(db).map_err(|e| format!("{e:#}")))) {
                        Ok(o) => o,
                        Err(p) => Out::Panic(p),
                    },
                }
            }
            5 => {
                let db = handles.last().unwrap();
                let o = wrap(vcore::catch(|| db.close().map(|_| ()).map_err(|e| format!("{e:#}"))));
                if matches!(o, Out::Changed(_)) {
                    closed = true;
                }
                o
            }
            6 => {
                let db = handles.last().unwrap();
                wrap(vcore::catch(|| db.checkpoint().map(|_| ()).map_err(|e| format!("{e:#}"))))
            }
            7 => {
                let db = handles.last().unwrap();
                match vcore::catch(|| db.clone()) {
                    Ok(h) => {
                        handles.push(h);
                        Out::Changed(true)
                    }
                    Err(p) => Out::Panic(p),
                }
            }
            8 => {
                let h = handles.pop();
                wrap(vcore::catch(move || {
                    drop(h);
                    Ok(())
                }))
            }
            9 => {
                let hs = std::mem::take(&mut handles);
                let d = wrap(vcore::catch(move || {
                    drop(hs);
                    Ok(())
                }));
                if let Out::Panic(_) = d {
                    d
                } else {
                    match vcore::catch(|| Database::open(&dir).map_err(|e| format!("{e:#}"))) {
                        Ok(Ok(h)) => {
                            handles.push(h);
                            closed = false;
                            Out::Changed(true)
                        }
                        Ok(Err(e)) => Out::Err(e),
                        Err(p) => Out::Panic(p),
                    }
                }
            }
            10 => do_exec(handles.last().unwrap(), "BEGIN"),
            11 => do_exec(handles.last().unwrap(), "COMMIT"),
            _ => do_exec(handles.last().unwrap(), "PRAGMA wal = ON"),
        };
        let stop = matches!(out, Out::Panic(_));
        outs.push((label, out));
        if stop {
            break;
        }
    }
    // finale: drop every handle, open the directory again and read
    let hs = std::mem::take(&mut handles);
    let d = wrap(vcore::catch(move || {
        drop(hs);
        Ok(())
    }));
    outs.push(("final-drop".into(), d));
    match vcore::catch(|| Database::open(&dir).map_err(|e| format!("{e:#}"))) {
        Ok(Ok(h)) => {
            outs.push(("final-open".into(), Out::Changed(true)));
            outs.push(("final-read".into(), do_query(&h, "SELECT COUNT(*) FROM t")));
            t.db = Some(h);
        }
        Ok(Err(e)) => outs.push(("final-open".into(), Out::Err(e))),
        Err(p) => outs.push(("final-open".into(), Out::Panic(p))),
    }
    drop(t);
    outs
}

/// Execute every call of a case; returns (call label, outcome) in order.
fn execute_act(env: &mut Env, act: &Act) -> Vec<(String, Out)> {
    if let Some(ops) = &act.api {
        return run_api(&env.tpl.clone(), &env.scratch.clone(), ops);
    }
    let mut outs: Vec<(String, Out)> = Vec::new();
    let lossy;
    let sql: &str = match &act.sql {
        Sql::Text(s) => s,
        Sql::Bytes(b) => match std::str::from_utf8(b) {
            Ok(s) => s,
            Err(_) => {
                env.invalid_utf8 += 1;
                lossy = String::from_utf8_lossy(b).into_owned();
                &lossy
            }
        },
    };
    let db = env.db.as_ref().expect("database present").db();
    for p in &act.pre {
        let o = do_exec(db, p);
        let stop = matches!(o, Out::Panic(_));
        outs.push(("pre".into(), o));
        if stop {
            return outs;
        }
    }
    let main = match &act.params {
        Some((ps, mode)) => exec_params(db, sql, ps, *mode),
        // triage aid: C22_PREPARE_ONLY=1 runs the parser only (Database::prepare)
        None if prepare_only() => do_prepare(db, sql).0,
        None => do_exec(db, sql),
    };
    let main_ok = matches!(main, Out::Rows | Out::Changed(_));
    let was_rows = matches!(main, Out::Rows);
    let stop = matches!(main, Out::Panic(_));
    outs.push((String::new(), main));
    if stop {
        return outs;
    }
    if act.also && was_rows {
        let o = do_query(db, sql);
        let stop = matches!(o, Out::Panic(_));
        outs.push(("query".into(), o));
        if stop {
            return outs;
        }
    }
    if act.also && (was_rows || matches!(act.sql, Sql::Bytes(_))) {
        let o = do_prepare(db, sql).0;
        let stop = matches!(o, Out::Panic(_));
        outs.push(("prepare".into(), o));
        if stop {
            return outs;
        }
    }
    if main_ok && !was_rows || !act.pre.is_empty() {
        for q in &act.post {
            let o = do_exec(db, q);
            let stop = matches!(o, Out::Panic(_));
            outs.push(("post".into(), o));
            if stop {
                return outs;
            }
        }
    }
    outs
}

fn case_json(sub: &str, idx: u64, act: &Act) -> String {
    format!("{{\"sub\":\"{sub}\",\"idx\":{idx},\"info\":{}}}", serde_json::to_string(&act.info()).unwrap_or_else(|_| "\"\"".into()))
}

/// Run case `(sub, idx)` on `env`.  Returns true when the case was non-trivial.
fn run_case(g: &Gens, sd: &SubDef, idx: u64, env: &mut Env, rep: &mut Reporter, report: bool, allow_killers: bool) -> bool {
    let sub = sd.name;
    let act = g.gen(sub, idx);
    if act.skip {
        env.st(sub)[ST_SKIP] += 1;
        return false;
    }
    if let Some(fid) = known_killer(sub, &act).filter(|_| !allow_killers) {
        if report {
            rep.count(&format!("{sub}.excluded_known_killer_{fid}"), 1);
        }
        return false;
    }
    let cj = case_json(sub, idx, &act);
    if act.api.is_none() && (env.db.is_none() || sd.block == 1) {
        env.fresh(rep);
    }
    rep.begin_case(&cj);
    arm(act.limit_ms);
    let t_case = Instant::now();
    let outs = execute_act(env, &act);
    disarm();
    if slow_log() && t_case.elapsed() > Duration::from_millis(5) {
        eprintln!("slow {:?}: {}", t_case.elapsed(), vcore::util::clip(&cj, 200));
    }
    // What the case did to the shared database decides how the next case's
    // starting state is produced (deterministic, so replay of the block prefix
    // reproduces it): 0 keep, 1 repair rows in place, 2 drop created objects, 3 recreate.
    // (Dropping a written-to database costs 10-20 ms, hence the cheap repairs.)
    let mut fix = if act.pre.is_empty() { 0u8 } else { 3 };
    let mut nontrivial = true;
    let word = if act.api.is_none() { match &act.sql { Sql::Text(s) => first_word(s), Sql::Bytes(b) => first_word(&String::from_utf8_lossy(&b[..b.len().min(16)])) } } else { String::new() };
    let readonly_stmt = matches!(word.as_str(), "SELECT" | "WITH" | "EXPLAIN");
    let st = env.st(sub);
    st[ST_CASES] += 1;
    let mut new_classes: Vec<String> = Vec::new();
    for (call, out) in &outs {
        st[ST_CALLS] += 1;
        let main = call.is_empty() || act.api.is_some();
        match out {
            Out::Rows => {
                if main {
                    st[ST_ROWS] += 1
                }
            }
            Out::Changed(ddl) => {
                if main {
                    st[ST_CHANGED] += 1
                }
                if act.api.is_none() {
                    fix = fix.max(if !*ddl {
                        1
                    } else if word == "CREATE" {
                        if matches!(sub, "lex" | "tok") { 0 } else { 2 }
                    } else {
                        3
                    });
                }
            }
            Out::Err(e) => {
                let parse = e.starts_with("failed to parse");
                if main {
                    st[if parse { ST_ERR_PARSE } else { ST_ERR_OTHER }] += 1;
                    if parse && e.contains("at start of statement") {
                        nontrivial = false;
                    }
                }
                if main || call == "pre" {
                    new_classes.push(format!("{sub}:err:{}", norm_msg(e, 70)));
                }
            }
            Out::Panic(p) => {
                st[ST_PANIC] += 1;
                if !(readonly_stmt && (main || call == "query" || call == "prepare")) {
                    fix = 3;
                }
                if report {
                    let dot = if main { String::new() } else { format!(".{call}") };
                    let sig = format!("C22/{sub}/{}{dot}/{}", act.class.replace('/', "|"), panic_site(p));
                    let cjv = cj.clone();
                    let callv = call.clone();
                    rep.violation(
                        "C22",
                        "no-panic",
                        &sig,
                        || {
                            let mut v: Value = serde_json::from_str(&cjv).unwrap_or(Value::Null);
                            v["call"] = json!(callv);
                            v
                        },
                        "every call returns Ok or Err",
                        &format!("panic: {p}"),
                    );
                }
            }
        }
    }
    if sd.block == 1 {
        fix = 3;
    }
    if fix == 1 || fix == 2 {
        let stmts: &[&str] = if fix == 1 { &["TRUNCATE TABLE t", "TRUNCATE TABLE u", FIXTURE[3], FIXTURE[4]] } else { &["DROP TABLE IF EXISTS w", "DROP INDEX IF EXISTS iw", "DROP SCHEMA IF EXISTS s2"] };
        arm(20_000);
        if let Some(t) = env.db.as_ref() {
            for q in stmts {
                if !matches!(do_exec(t.db(), q), Out::Changed(_)) {
                    fix = 3;
                    break;
                }
            }
        }
        disarm();
        if fix != 3 {
            env.st(sub)[ST_REPAIR] += 1;
        }
    }
    if fix == 3 {
        env.st(sub)[ST_RECREATE] += 1;
        let t0 = Instant::now();
        env.db = None;
        if slow_log() && t0.elapsed() > Duration::from_millis(3) {
            eprintln!("slowdrop {:?}: {}", t0.elapsed(), vcore::util::clip(&cj, 200));
        }
    }
    if report {
        if sub == "mut" && matches!(outs.first(), Some((_, Out::Rows)) | Some((_, Out::Changed(_)))) {
            rep.sample(|| serde_json::from_str(&cj).unwrap_or(Value::Null));
        }
        for c in new_classes {
            if !env.seen.contains(&c) {
                rep.outcome(&c);
                env.seen.insert(c);
            }
        }
        if !sd.bulk {
            let h = match (&act.params, &act.api) {
                (None, None) => vcore::util::hash_of(&(sub, &act.pre, match &act.sql { Sql::Text(s) => s.as_bytes(), Sql::Bytes(b) => b.as_slice() })),
                _ => vcore::util::hash_of(&(sub, idx)),
            };
            rep.case(h, nontrivial);
        }
    }
    nontrivial
}

// ---------------------------------------------------------------------------
// isolated execution: one case in its own child process, so that an abort /
// stack overflow / hang gets a precise signature and cannot truncate a slice
// ---------------------------------------------------------------------------
fn isolated(ctx: &Ctx, sub: &str, idx: u64, class: &str, info: &str, rep: &mut Reporter) {
    let dir = ctx.scratch.join(format!("iso_{sub}_{idx}"));
    let _ = std::fs::remove_dir_all(&dir);
    std::fs::create_dir_all(&dir).expect("iso dir");
    let cpath = dir.join("case.json");
    std::fs::write(&cpath, serde_json::to_vec(&json!({"sub": sub, "idx": idx, "direct": true})).unwrap()).expect("write case");
    let rpt = dir.join("report.json");
    let exe = std::env::current_exe().expect("current_exe");
    let mut c = std::process::Command::new(exe);
    c.arg("--property").arg("C22").arg("--tier").arg(ctx.tier.name()).arg("--replay-worker").arg(&cpath).arg("--report").arg(&rpt).arg("--scratch").arg(dir.join("s"));
    c.stdin(std::process::Stdio::null()).stdout(std::process::Stdio::null()).stderr(std::process::Stdio::null());
    rep.begin_case(&json!({"sub": sub, "idx": idx, "isolate": true, "info": info}).to_string());
    let mut child = c.spawn().expect("spawn isolated child");
    let t0 = Instant::now();
    let status = loop {
        match child.try_wait() {
            Ok(Some(s)) => break Some(s),
            Ok(None) => {
                if t0.elapsed() > Duration::from_secs(400) {
                    let _ = child.kill();
                    let _ = child.wait();
                    break None;
                }
                std::thread::sleep(Duration::from_millis(2));
            }
            Err(_) => break None,
        }
    };
    let case = json!({"sub": sub, "idx": idx, "isolate": true, "info": info});
    let how = match status {
        Some(s) if s.success() => None,
        Some(s) => {
            use std::os::unix::process::ExitStatusExt;
            Some(match (s.signal(), s.code()) {
                (Some(sig), _) => format!("signal{sig}"),
                (None, Some(124)) => "hang".to_string(),
                (None, c) => format!("exit{}", c.unwrap_or(-1)),
            })
        }
        None => Some("hang".to_string()),
    };
    match how {
        None => match vcore::WorkerReport::read(&rpt) {
            Some(r) => {
                for v in &r.violations {
                    let n = r.sig_counts.get(&v.signature).copied().unwrap_or(1).max(1);
                    let mut cv = case.clone();
                    cv["call"] = v.case["call"].clone();
                    for _ in 0..n.min(4) {
                        rep.violation("C22", &v.oracle, &v.signature, || cv.clone(), &v.expected, &v.observed);
                    }
                }
                for (k, v) in &r.counters {
                    rep.count(k, *v);
                }
                for o in &r.outcomes {
                    rep.outcome(o);
                }
                rep.bulk(r.evaluations, r.distinct.len() as u64 + r.distinct_counted);
            }
            None => {
                rep.violation("C22", "no-crash", &format!("C22/{sub}/{}/no-report", class.replace('/', "|")), || case.clone(), "child writes a report", "child exited 0 without report");
            }
        },
        Some(how) => {
            rep.count(&format!("{sub}.process_deaths"), 1);
            rep.count(&format!("{sub}.cases"), 1);
            rep.bulk(1, 1);
            rep.violation(
                "C22",
                "no-crash",
                &format!("C22/{sub}/{}/{how}", class.replace('/', "|")),
                || case.clone(),
                "every call returns Ok or Err in bounded time",
                &format!("the process executing the case died: {how} (signal6 = abort / stack overflow / failed allocation, hang = watchdog)"),
            );
        }
    }
    let _ = std::fs::remove_dir_all(&dir);
}

/// `child`: the process runs exactly one isolated case.  It gets a smaller
/// address space (an unbounded-growth loop then fails its allocation after ~1 s
/// instead of racing with the watchdog) and at least a 10 s CPU limit, so that the way
/// a known killer dies is deterministic.
fn setup_process(child: bool) {
    // an abort path (failed allocation, stack overflow) must not spend seconds
    // symbolising a backtrace: it would race with the watchdog
    std::env::set_var("RUST_BACKTRACE", "0");
    start_watchdog();
    limit_address_space(if child { 2 } else { 8 });
    if child {
        WD_MIN_LIMIT.store(10_000, Ordering::Relaxed);
    }
    install_hook();
    // load the symbol table and libgcc's unwinder now, not inside the first panicking case
    let _ = turdb_caller();
}

const CAP_QUICK_S: u64 = 100;
const CAP_THOROUGH_S: u64 = 1500;

struct C22;

impl Check for C22 {
    fn specs(&self) -> Vec<Spec> {
        let mut s = Spec::new(
            "C22",
            "exploration",
            "a case is one input (sub, idx) to the public API on a small 2-table database: tok = every token sequence of length <= 4 (quick) / <= 5 (thorough) over a 37-token alphabet fed to execute (+ query/prepare when it returns rows); mut = for 166 seed statements (every statement kind of parser.rs) every single-token deletion, duplication and substitution by each alphabet token (thorough: every pair of {delete, substitute by 12 tokens} edits); lex = every byte string of length <= 2 (raw and after 'SELECT '), length 3 over 32 bytes (thorough: all 2^24), every single-byte substitution (256 values for seeds <= 32 bytes, thorough <= 64; 8 values otherwise), deletion, truncation and 6-value insertion of every seed, invalid UTF-8 fed through from_utf8_lossy; par = 36 statements x {arity 0..n+2, each position x 40 extreme values of every OwnedValue variant, all-same-value} x {execute_with_params, prepare+bind+execute, prepare+bind+query} (thorough: value pairs); prag = 17 PRAGMA names x {no value, 16 values} x 3 syntaxes + SET/SHOW/RESET on the plain database, a reduced list (7 values) after a WAL-on and an open-transaction prelude (thorough: the full list after both preludes and all ordered pairs of the reduced list); arith = 20 edge operands x 19 binary + 5 unary operators x 7 statement contexts, LIMIT/OFFSET 10x10, aggregates over i64::MIN/MAX; fn = 152 function names x all argument tuples of arity <= 2 over 12 edge values and arity 3 over 6 (thorough 12); api = every sequence of length <= 3 (quick) / <= 4 (thorough) over 13 API operations incl. use-after-close; big = 16 nesting constructs x depth {10,100,1000,10000} and 22 huge inputs (1 MB tokens, 1000 columns, 10000-element lists), each in its own child process. Distinct = distinct input text / parameter list / op sequence; non-trivial = not rejected at the first token.",
        );
        s.assumptions = &[
            "oracle: every call returns Ok or Err; a caught panic, a dead process (abort, stack overflow, failed allocation) or a watchdog timeout (the worker thread burns 10 s (20 s for multi-call cases, 60 s for the huge inputs of sub-space big) of its own CPU time inside one case; a normal case takes 0.02-1 ms, or the case is blocked for max(60 s, 5 x limit) of wall time) is a violation",
            "cases of one block share a database whose state is a deterministic function of (sub, block); replay re-runs the block prefix",
            "workers run with RLIMIT_AS = 8 GiB so an absurd allocation request fails instead of exhausting the shared machine",
            "panic sites are named file(function) by looking up the enclosing fn in the /repo source at the panic line",
        ];
        s.cap_quick_s = CAP_QUICK_S;
        s.cap_thorough_s = CAP_THOROUGH_S;
        s.crash_is_verdict = true;
        vec![s]
    }

    fn run(&self, ctx: &Ctx, rep: &mut Reporter) {
        setup_process(false);
        let g = Gens::new();
        let mut env = Env::new(ctx);
        let mut gid = 0u64;
        for name in ["tok.ok_rows", "tok.ok_changed", "tok.err_exec", "mut.ok_rows", "mut.ok_changed", "mut.err_exec", "lex.ok_rows", "lex.inputs_invalid_utf8_fed_lossy", "par.ok_rows", "par.ok_changed", "par.err_exec", "prag.ok_changed", "arith.ok_rows", "arith.ok_changed", "fn.ok_rows", "api.ok_changed", "api.err_exec", "big.cases"] {
            rep.expect_nonzero(name);
        }
        rep.bound("alphabet", json!(ALPHA.to_vec()));
        rep.bound("seed_statements", json!(SEEDS.len()));
        let subs = g.subs();
        let cap_s = ctx.tier.pick(CAP_QUICK_S, CAP_THOROUGH_S);
        let start = ctx.deadline.checked_sub(Duration::from_secs(cap_s)).unwrap_or_else(Instant::now);
        let mut cum_share = 0u64;
        'outer: for sd in &subs {
            cum_share += ctx.tier.pick(sd.share.0, sd.share.1);
            let cutoff = (start + Duration::from_millis(cap_s * 10 * cum_share.min(100))).min(ctx.deadline);
            // development aid: `--opt only=tok,mut` restricts the run to some sub-spaces
            if let Some(o) = ctx.opt("only") {
                if !o.split(',').any(|x| x == sd.name) {
                    continue;
                }
            }
            let t_sub = Instant::now();
            let n = ctx.tier.pick(sd.quick, sd.thorough);
            rep.bound(&format!("{}_cases_enumerated", sd.name), json!(n));
            let nb = (n + sd.block - 1) / sd.block;
            // block ownership must not depend on how far this worker got in earlier sub-spaces
            let gid0 = gid;
            gid += nb;
            for b in 0..nb {
                if !ctx.mine(gid0 + b) {
                    continue;
                }
                if ctx.expired() {
                    rep.capped(&format!("deadline in sub-space {} at block {b} of {nb}", sd.name));
                    break 'outer;
                }
                if Instant::now() >= cutoff {
                    rep.capped(&format!("time share of sub-space {} used up at block {b} of {nb} (overloaded machine)", sd.name));
                    break;
                }
                let (lo, hi) = (b * sd.block, n.min((b + 1) * sd.block));
                if sd.name == "big" {
                    let act = g.gen("big", lo);
                    isolated(ctx, "big", lo, &act.class, &act.info(), rep);
                    continue;
                }
                env.db = None;
                let mut nt = 0u64;
                let mut ran = 0u64;
                for idx in lo..hi {
                    let c0 = env.st(sd.name)[ST_CASES];
                    if run_case(&g, sd, idx, &mut env, rep, true, false) {
                        nt += 1;
                    }
                    ran += env.st(sd.name)[ST_CASES] - c0;
                }
                if sd.bulk {
                    rep.bulk(ran, nt);
                }
            }
            if ctx.opt("timing").is_some() {
                // development aid (not part of the evidence of a normal run)
                rep.count(&format!("{}.worker_ms_sum", sd.name), t_sub.elapsed().as_millis() as u64);
            }
        }
        env.db = None;
        // known killers: re-confirmed last, each in a child process
        for (k, (sub, text)) in KILL_CASES.iter().enumerate() {
            if !ctx.mine(1_000_003 + k as u64) || ctx.opt("only").map(|o| !o.split(',').any(|x| x == *sub)).unwrap_or(false) {
                continue;
            }
            let sd = subs.iter().find(|s| s.name == *sub).expect("sub of kill case");
            let found = (0..sd.quick).find(|&i| matches!(&g.gen(sub, i).sql, Sql::Text(s) if s == text));
            match found {
                Some(idx) => {
                    let act = g.gen(sub, idx);
                    rep.note(&format!("input class of known finding {} is excluded from the in-process enumeration of sub-space {sub} and re-confirmed by an isolated case", known_killer(sub, &act).unwrap_or("?")));
                    isolated(ctx, sub, idx, &act.class, &act.info(), rep);
                }
                None => rep.note(&format!("kill case not found in enumeration: {text}")),
            }
        }
        env.flush(rep);
        disarm();
    }

    fn replay(&self, ctx: &Ctx, case: &Value, rep: &mut Reporter) {
        let g = Gens::new();
        let sub = case["sub"].as_str().unwrap_or("").to_string();
        let idx = case["idx"].as_u64().unwrap_or(0);
        let subs = g.subs();
        let Some(sd) = subs.iter().find(|s| s.name == sub) else {
            rep.note("replay: unknown sub-space in case json");
            rep.case(0, false);
            return;
        };
        let direct = case["direct"].as_bool().unwrap_or(false);
        if !direct && (case["isolate"].as_bool().unwrap_or(false) || sub == "big") {
            let act = g.gen(&sub, idx);
            isolated(ctx, sd.name, idx, &act.class, &act.info(), rep);
            return;
        }
        setup_process(direct);
        let mut env = Env::new(ctx);
        if sd.block > 1 {
            let lo = idx / sd.block * sd.block;
            for i in lo..idx {
                run_case(&g, sd, i, &mut env, rep, false, false);
            }
        }
        let c0 = env.st(sd.name)[ST_CASES];
        let nt = run_case(&g, sd, idx, &mut env, rep, true, true);
        if sd.bulk {
            rep.bulk(env.st(sd.name)[ST_CASES] - c0, nt as u64);
        }
        env.db = None;
        env.flush(rep);
        if rep.evaluations() == 0 {
            rep.bulk(1, 0);
        }
        disarm();
    }
}

fn main() {
    vcore::main(&C22)
}
